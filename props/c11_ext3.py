"""C11 (third wave): transport.cpp.
  * multi_D: the per-element application of the interface amounts to the totals of the two cells (semantic companion of the text unit
    C11.multi_D.moles_move_under_the_same_element) and the block that repairs negative totals after the explicit transfers;
  * init_mix: pairwise symmetry of the dispersive / diffusive mixing factors (what cell i takes from i+1 is what i+1 gives to i);
  * fill_m_s / fill_spec / diffuse_implicit: parts not yet under contract (see the docstrings).

Every unit executes the real loop body / region from an ARBITRARY state (Engine B) and compares final terms and call events with what the
property statement needs: amounts are moved between entries of the same element and between neighbouring cells, never created or lost."""
import re
UNITS = []            # filled in place at the end (props.c11_ext imports this name at ITS end: either import order must work)
from props.common import *
from props.c11_ext import (fast_twin, Agg, split, proved, same, evs, pos, reach, loops_of, loop_where, I, R, _sel_named, _parent_and_index,
                           _top, _find_of, _outer_ifs, _inner_ifs, _apps, macro, _cd)
from vf.core import FAILED, DISCHARGED, UNDECIDED, Undecided

TR = "src/phreeqcpp/transport.cpp"
LOOPK = ("ForStmt", "WhileStmt", "DoStmt")


# ------------------------------------------------------------------------------------------------------------- helpers
def body_text(lp):
    return text_of(TR, lp["inner"][-1])


def innermost(lps, pred):
    """ordinals of the loops satisfying pred that contain no other loop satisfying pred"""
    ks = [k for k, lp in enumerate(lps) if pred(lp)]
    return [k for k in ks if not any(k2 != k and any(z is lps[k2] for z in A.walk(lps[k]["inner"][-1])) for k2 in ks)]


def enclosing(lps, k):
    """ordinals of the loops that contain loop k, innermost first"""
    return sorted([k2 for k2, lp in enumerate(lps) if k2 != k and any(z is lps[k] for z in A.walk(lp["inner"][-1]))], reverse=True)


def induction_var(lp):
    """name of the variable the for-initialiser of the loop assigns / declares"""
    init = lp["inner"][0]
    for x in A.walk(init):
        if x.get("kind") == "VarDecl" and x.get("name"):
            return x["name"]
        if x.get("kind") == "DeclRefExpr" and x.get("referencedDecl", {}).get("kind") == "VarDecl":
            return x["referencedDecl"]["name"]
    raise Undecided("induction variable of a loop not found")


def key_node(t):
    """X when t is the C string of the key of map node X:  c_str(first[mnode(X)])"""
    if t is not None and getattr(t, "op", None) == "app" and t.args[0] == "c_str" and len(t.args) > 1 and t.args[1].op == "select":
        arr, ix = t.args[1].args[0], t.args[1].args[1]
        while arr.op == "store":
            arr = arr.args[0]
        if arr.op == "sym" and ".first:" in arr.args[0] and len(ix) == 1 and ix[0].op == "app" and ix[0].args[0] == "mnode":
            return ix[0].args[1]
    return None


def is_paren(t):
    return t is not None and getattr(t, "op", None) == "str" and t.args[0].strip('"') == "("


def running_reals(info, s, exclude=()):
    """names of the real-valued locals the iterated loop updates (their entry value is the arbitrary iter_<name>)"""
    out = []
    for nm, did in info["names"].items():
        if nm in exclude:
            continue
        v = s.locals.get(did)
        if isinstance(v, tuple) or v is None or getattr(v, "sort", None) != "R":
            continue
        if tm.sym("iter_" + nm, "R") in tm.subterms(v):
            out.append(nm)
    return out


def same_element(s, hy, a_is, b_is, a_len_from=("strcspn",)):
    """the condition under which the pass treats key B (a totals key, possibly `El(v)`) as a valence state of the element named by A:
    there is ONE strncmp(A, B, n) and the formula is  strncmp == 0  and  n == strcspn(B, "(")  and  n == length of A's element name
    (strcspn(A, "(") for a totals key; strlen / strcspn for a bare element name).  Returns (formula | None, detail)."""
    E = s.events
    cmp_ = [e for e in E if e.name.split("::")[-1] == "strncmp" and len(e.args) == 3 and ((a_is(e.args[0]) and b_is(e.args[1])) or (a_is(e.args[1]) and b_is(e.args[0])))]
    cmp_ = [e for e in cmp_ if e in U.iter_events(s)] or cmp_
    if len(cmp_) != 1:
        return None, "%d strncmp calls between the two names" % len(cmp_)
    c = cmp_[0]
    n = c.args[2]
    lb = [e for e in E if e.name.split("::")[-1] == "strcspn" and b_is(e.args[0]) and is_paren(e.args[1])]
    la = [e for e in E if e.name.split("::")[-1] in a_len_from and a_is(e.args[0]) and (e.name.split("::")[-1] == "strlen" or is_paren(e.args[1]))]
    lbv = lb[-1].result if lb else tm.sym("length_of_the_key_before_its_parenthesis", "I")
    lav = None
    for e in la:
        if same(hy, e.result, n) or (lb and same(hy, e.result, lbv)) or any(e.result in tm.subterms(p) for p in hy):
            lav = e.result
    if lav is None:
        lav = la[-1].result if la else tm.sym("length_of_the_element_name_of_the_deficient_entry", "I")
    f = tm.and_(tm.eq(c.result, I(0)), tm.eq(n, lbv), tm.eq(n, lav))
    return f, "strncmp n=%r  key length=%r (%d strcspn)  name length=%r (%d %s)" % (n, lbv, len(lb), lav, len(la), "/".join(a_len_from))


# ------------------------------------------------------------------------------- multi_D: repair of negative totals
def unit_negative_repair(twin=False):
    """Phreeqc::multi_D, the block after the interface loop that repairs totals made negative by the explicit transfers, executed as loop
    passes from an arbitrary state (cell loop -> entry loop `it` -> scan loop over the other entries `kit`; Donnan-layer loop; log loop).
    Contract (moles of an element are moved between its entries, never created silently, never taken from another element):
      * when the scan starts the deficient entry has been set to 0 and the running deficit is (minus) exactly the amount it had;
      * a scanned entry is written only if it is a valence state of the SAME element as the deficient entry - equal text before '(' :
        strncmp over n characters == 0 with n == strcspn(key, "(") AND n == strcspn(deficient key, "(") - and every such entry is used;
      * it gives min(its amount, deficit): new = old - take, deficit' = deficit - take; no entry is left negative; the scan stops as soon
        as the deficit is covered and goes on only while a deficit is left (so nothing is handed out twice); other entries are untouched;
      * Donnan layer: what is added to the entry (and to the running amount) is what the layer's entry of the SAME name had; that entry is
        emptied: moved, not created;
      * a deficit that could not be covered is logged in moles_added under the entry's name with exactly the created amount."""
    q = "Phreeqc::multi_D"
    fn = A.find_function(TR, q)
    r = U.new_unit("C11.multi_D.negative_total_covered_once_from_the_other_states_of_the_same_element", TR, q, fn)
    ag = Agg(r)
    lps = loops_of(fn)
    kk = innermost(lps, lambda lp: lp.get("kind") == "ForStmt" and "strncmp(" in body_text(lp) and "m_s[" not in body_text(lp))      # the scan that compares two totals keys (the other two strncmp loops compare with m_s[l].name)
    if len(kk) != 1:
        raise Undecided("scan loop of the negative-total repair not found (%d candidates)" % len(kk))
    k_kit = kk[0]
    enc = enclosing(lps, k_kit)
    if len(enc) < 2:
        raise Undecided("entry / cell loops around the scan loop not found")
    k_it = enc[0]
    kvar, ivar = induction_var(lps[k_kit]), induction_var(lps[k_it])
    k_log = [k for k, lp in enumerate(lps) if k > k_kit and any(z is lp for z in A.walk(lps[k_it]["inner"][-1])) and "string_duplicate(" in body_text(lp)]
    modes = {k_kit: "iter"}
    if k_log:
        modes[k_log[0]] = "iter"
    f, ex, its, info = U.run_loop_isolated(TR, q, k_it, ctx=ctx(), inner_modes=modes)
    itn = tm.app("mnode", (tm.sym("iter_" + ivar, "P"),), "P")
    kitn = tm.app("mnode", (tm.sym("iter_" + kvar, "P"),), "P")
    SEC = ("f", "second", "R")
    is_it = lambda t: key_node(t) is tm.sym("iter_" + ivar, "P")
    is_kit = lambda t: key_node(t) is tm.sym("iter_" + kvar, "P")
    inner = [s for s in info["inner_iters"].get(k_kit, []) if s.status in ("run", "cont", "brk") and B.z3_sat(list(s.pc)) != "unsat"]
    D = None
    for s in inner:
        rv = running_reals(info, s, exclude=(kvar,))
        if len(rv) == 1:
            D = rv[0]
    if D is None:
        raise Undecided("running deficit of the scan loop not identified")
    d0 = tm.sym("iter_" + D, "R")
    # ---- state in which the scan starts
    ne = 0
    for s in info["inner_entries"].get(k_kit, []):
        if B.z3_sat(list(s.pc)) == "unsat":
            continue
        ne += 1
        hy = list(s.pc)
        sec = s.heap.get(SEC)
        cur = tm.select(sec if sec is not None else ex.heap_arr(s, SEC), itn)
        ag.eq("scan_start.deficient_entry_already_set_to_0(not_counted_a_second_time)", hy, cur, R(0))
        dv = local(info, s, D)
        ag.valid("scan_start.running_deficit_is_negative", hy, tm.lt(dv, R(0)))
        old = tm.select(entry_arr(ex, s, SEC), itn)
        if not any(e.name.endswith("Set_surface_ptr") for e in U.iter_events(s)):
            ag.eq("scan_start.deficit==amount_of_the_negative_entry(no_Donnan_layer)", hy, dv, old if not twin else -old)
        else:
            others = [nm for nm, did in info["names"].items() if nm != D and s.locals.get(did) is dv]
            ag.put("scan_start.deficit_is_the_running_amount_kept_in_step_with_the_entry(Donnan_layer)", bool(others), dv)
        ag.put("scan_start.same_solution(no_other_solution_selected_inside_the_entry_loop)", not any(e.name.endswith("Set_solution_ptr") for e in U.iter_events(s)), "")
    reach(r, "scan_start", ne, 2)
    # ---- one pass of the scan
    nw = nn = 0
    for s in inner:
        hy = list(s.pc) + [tm.le(d0, R(0))]          # invariant of the scan: no surplus is carried along
        w = writes(s, SEC)
        old = tm.select(entry_arr(ex, s, SEC), kitn)
        ag.put("scan.only_the_visited_entry_is_written", all(ix == (kitn,) or ix is kitn for ix, v in w), w)
        new = w[-1][1] if w else old
        d1 = local(info, s, D)
        se, det = same_element(s, hy, is_it, is_kit)
        if se is None:
            ag.put("scan.same_element_test_recognised", None, det); continue
        if w:
            nw += 1
            ag.valid("scan.entry_written_only_if_it_is_a_valence_state_of_the_same_element(equal_text_before_the_parenthesis)", hy, se)
            take = tm.ite(tm.lt(old, -d0), old, -d0)
            ag.valid("scan.entry_gives_min(its_amount,deficit)", hy, tm.eq(new, old - take))
            ag.valid("scan.deficit_left==deficit-what_the_entry_gave", hy, tm.eq(tm.ite(tm.lt(d1, R(0)), -d1, R(0)), -d0 - take))
            ag.valid("scan.no_entry_left_negative", hy, tm.le(R(0), new))
            if s.status == "brk":
                ag.valid("scan.stops_only_when_the_deficit_is_covered", hy, tm.le(R(0), d1))
            else:
                ag.valid("scan.goes_on_only_while_no_surplus_is_carried_along(deficit_left<=0)", hy, tm.le(d1, R(0)))
        else:
            nn += 1
            ag.valid("scan.every_valence_state_of_the_element_is_used(skipped_entry_is_another_element)", hy, tm.not_(se))
            ag.eq("scan.skipped_entry_leaves_the_deficit_alone", hy, d1, d0)
            ag.put("scan.skipped_entry_does_not_end_the_scan", s.status in ("run", "cont"), s.status)
    reach(r, "scan.taking_passes", nw, 2); reach(r, "scan.skipping_passes", nn, 1)
    # ---- log of what could not be covered
    nl = 0
    for s in [x for x in info["inner_iters"].get(k_log[0] if k_log else -1, []) if B.z3_sat(list(x.pc)) != "unsat"]:
        hy = list(s.pc)
        w = writes(s, ("f", "moles", "R"))
        dv = local(info, s, D)
        if not w:
            ag.put("log.pass_without_booking_goes_on", s.status in ("run", "cont"), s.status); continue
        nl += 1
        oldm = tm.select(entry_arr(ex, s, ("f", "moles", "R")), *[w[-1][0]] if not isinstance(w[-1][0], tuple) else w[-1][0])
        ag.put("log.booked_once_and_the_search_ends", len(w) == 1 and s.status == "brk", (len(w), s.status))
        ag.eq("log.entry_grows_by_exactly_the_created_amount(-deficit)", hy, w[-1][1], oldm - dv if not twin else oldm + dv)
        sc = [e for e in U.iter_events(s) if e.name.split("::")[-1] == "strcmp" and any(is_it(a) for a in e.args)]
        sd = [e for e in U.iter_events(s) if e.name.split("::")[-1] == "string_duplicate" and is_it(e.args[0])]
        named = any(proved(hy, tm.eq(e.result, I(0))) for e in sc) or (bool(sd) and proved(hy, tm.eq(oldm, R(0))))
        ag.put("log.booked_under_the_name_of_the_deficient_entry(existing_record_or_first_unused_one)", named, [e.args for e in sc + sd])
    if k_log:
        reach(r, "log.booking_passes", nl, 2)
    else:
        r.add("log.loop_found", UNDECIDED, "ast-scan", 0, "loop that books into moles_added not found", kind="structural")
    for s in live(its, ("run", "cont")):
        wm = [e for e in U.iter_events(s) if e.name.endswith("warning_msg")]
        if wm:
            ag.valid("log.only_an_uncovered_deficit_is_reported", list(s.pc), tm.lt(local(info, s, D), R(0)))
    # ---- Donnan layer
    kj = innermost(lps, lambda lp: lp.get("kind") == "ForStmt" and any(z is lp for z in A.walk(lps[k_it]["inner"][-1])) and "Get_diffuse_layer_totals()" in text_of(TR, lp["inner"][0]) + text_of(TR, lp["inner"][2]))
    if len(kj) != 1:
        r.add("donnan.loop_found", UNDECIDED, "ast-scan", 0, "%d candidates" % len(kj), kind="structural")
    else:
        jvar = induction_var(lps[kj[0]])
        f2, ex2, it2, info2 = U.run_loop_isolated(TR, q, kj[0], ctx=ctx())
        jn = tm.app("mnode", (tm.sym("iter_" + jvar, "P"),), "P")
        itL = tm.app("mnode", (tm.sym("L_" + ivar, "P"),), "P")
        nd = 0
        for s in live(it2, ("run", "cont", "brk")):
            hy = list(s.pc) + [tm.not_(tm.eq(jn, itL))]
            w = writes(s, SEC)
            if not w:
                continue
            nd += 1
            a0 = entry_arr(ex2, s, SEC); a1 = s.heap.get(SEC)
            dj = tm.select(a1, jn) - tm.select(a0, jn)
            di = tm.select(a1, itL) - tm.select(a0, itL)
            ag.put("donnan.only_the_entry_and_the_layer_entry_are_written", all((ix == (jn,) or ix == (itL,)) for ix, v in w), w)
            ag.valid("donnan.moved_not_created(entry_gains_what_the_layer_entry_loses)", hy, tm.eq(di + dj, R(0)) if not twin else tm.eq(di - dj, R(0)))
            ag.valid("donnan.layer_entry_emptied", hy, tm.eq(tm.select(a1, jn), R(0)))
            rv = running_reals(info2, s, exclude=(jvar,))
            ag.put("donnan.running_amount_kept_in_step_with_the_entry", len(rv) == 1 and proved(hy, tm.eq(local(info2, s, rv[0]) - tm.sym("iter_" + rv[0], "R"), di)) if rv else False, rv)
            key_j = lambda t: key_node(t) is tm.sym("iter_" + jvar, "P")
            key_i = lambda t: key_node(t) is tm.sym("L_" + ivar, "P")
            sc = [e for e in U.iter_events(s) if e.name.split("::")[-1] == "strcmp" and any(key_j(a) for a in e.args) and any(key_i(a) for a in e.args)]
            ag.put("donnan.taken_only_from_the_layer_entry_of_the_same_name", len(sc) == 1 and proved(hy, tm.eq(sc[0].result, I(0))), sc)
        reach(r, "donnan.moving_passes", nd, 1)
    ag.flush()
    r.assumptions += ["strlen / strcspn / strncmp / strcmp by their C meaning (opaque results; which strings and lengths they are applied to is checked): two totals keys name the same element iff they agree over "
                      "the text before '(' and that text has the same length", "entries of the Donnan layer map and of the solution's totals are different map nodes",
                      "the induction over the passes (sum over the entries visited) is stated, not mechanised; doubles as reals",
                      "the threshold below which an uncovered deficit is not reported (1e-12 mol) and the H(0) / O(0) exemption are not pinned",
                      "which cells are examined (first_c .. last_c2) is not under this contract"]
    return r


# --------------------------------------------------------------------- multi_D: per-element application of the amounts
def unit_apply_amounts(twin=False):
    """Phreeqc::multi_D, the two loops that apply the element amounts m_s[l] of one interface to the totals of the giving cell (- tot1) and of
    the receiving cell (+ tot2): one pass of each element loop with one pass of its scan over the totals, arbitrary state.  Contract:
      * the scanned entry is changed only if its key is a valence state of element m_s[l].name (strncmp over n characters == 0, n ==
        strlen(name) == strcspn(key, "(")), by exactly -tot1 (giving side) / +tot2 (receiving side) of the SAME l, and the scan stops there
        (applied once); no other entry is written; entries of other elements are skipped and the scan goes on;
      * when no entry matched, a new entry is created under the element's own name with -tot1 / +tot2; when one matched, none is created;
      * no other solution is selected while the amounts are applied.
    (tot1 == tot2 per element: C11.fill_m_s.*; which solutions are selected: C11.multi_D.interface_amounts_leave_icell_and_enter_jcell.)"""
    q = "Phreeqc::multi_D"
    fn = A.find_function(TR, q)
    r = U.new_unit("C11.multi_D.element_amount_applied_once_to_its_own_key_minus_tot1_plus_tot2", TR, q, fn)
    ag = Agg(r)
    lps = loops_of(fn)
    SEC = ("f", "second", "R")
    n_by = {}
    for side, op, fldn, sign in (("giving", "->second-=", "tot1", -1), ("receiving", "->second+=", "tot2", 1)):
        ks = innermost(lps, lambda lp: lp.get("kind") == "ForStmt" and "strncmp(" in body_text(lp) and op in body_text(lp) and "->second=0;" not in body_text(lp))
        if len(ks) != 1:
            raise Undecided("%s scan loop of multi_D not found (%d)" % (side, len(ks)))
        k_in = ks[0]
        k_out = enclosing(lps, k_in)[0]
        ivar, lvar = induction_var(lps[k_in]), induction_var(lps[k_out])
        f, ex, its, info = U.run_loop_isolated(TR, q, k_out, ctx=ctx(), inner_modes={k_in: "iter"})
        l_ = tm.sym("iter_" + lvar, "I")
        itn = tm.app("mnode", (tm.sym("iter_" + ivar, "P"),), "P")
        is_key = lambda t: key_node(t) is tm.sym("iter_" + ivar, "P")
        nw = nn = 0
        for s in [x for x in info["inner_iters"].get(k_in, []) if x.status in ("run", "cont", "brk") and B.z3_sat(list(x.pc)) != "unsat"]:
            hy = list(s.pc)
            msp = tm.add(fld0(ex, s, "m_s", "P"), l_)
            name = tm.select(entry_arr(ex, s, ("f", "name", "P")), msp)
            is_name = lambda t: t is name or same(hy, t, name) if getattr(t, "sort", None) == "P" else False
            amount = tm.select(entry_arr(ex, s, ("f", fldn, "R")), msp)
            w = writes(s, SEC)
            old = tm.select(entry_arr(ex, s, SEC), itn)
            ag.put(side + ".only_the_visited_entry_is_written", all(ix == (itn,) for ix, v in w), w)
            se, det = same_element(s, hy, is_name, is_key, a_len_from=("strlen", "strcspn"))
            if se is None:
                ag.put(side + ".same_element_test_recognised", None, det); continue
            if w:
                nw += 1
                ag.valid(side + ".entry_changed_only_if_it_is_a_valence_state_of_element_m_s[l]", hy, se)
                want = old + amount if (sign > 0) != bool(twin and side == "giving") else old - amount
                ag.eq(side + ".entry_changes_by_%s%s_of_the_same_l" % ("+" if sign > 0 else "-", fldn), hy, w[-1][1], want)
                ag.put(side + ".applied_once(scan_stops_at_the_first_match)", len(w) == 1 and s.status == "brk", (len(w), s.status))
            else:
                nn += 1
                ag.valid(side + ".skipped_entry_belongs_to_another_element", hy, tm.not_(se))
                ag.put(side + ".scan_goes_on_after_a_skipped_entry", s.status in ("run", "cont"), s.status)
        n_by[side] = (nw, nn)
        reach(r, side + ".matching_passes", nw, 1); reach(r, side + ".skipping_passes", nn, 1)
        # after the scan: a missing entry is created under the element's own name
        nc = 0
        for s in live(its, ("run", "cont")):
            hy = list(s.pc)
            msp = tm.add(fld(ex, s, "m_s", "P"), l_)          # the scan is opaque here (it renames the memory components): m_s, name, tot1/tot2 as they are after it
            endc = [p for p in hy if "mend(" in repr(p)]
            at_end = any(p.op != "not" for p in endc)
            ag.put(side + ".no_other_solution_selected_while_applying", not any(e.name.endswith("Set_solution_ptr") for e in U.iter_events(s)), "")
            mv = writes(s, ("m2", "#mval", "R", "S"))
            if not mv:
                ag.put(side + ".no_entry_created_when_one_matched", not at_end, endc); continue
            nc += 1
            ag.put(side + ".entry_created_only_when_the_scan_reached_the_end", at_end and len(mv) == 1, endc)
            name = tm.select(ex.heap_arr(s, ("f", "name", "P")), msp)
            amount = tm.select(ex.heap_arr(s, ("f", fldn, "R")), msp)
            key = mv[-1][0][1]
            ag.put(side + ".created_under_the_element's_own_name", key is tm.app("string_of", (name,), "S") or same(hy, key, tm.app("string_of", (name,), "S")), key)
            ag.eq(side + ".created_with_%s%s" % ("+" if sign > 0 else "-", fldn), hy, mv[-1][1], amount if sign > 0 else -amount)
            gt = [e for e in U.iter_events(s) if e.name.endswith("Get_totals")]
            gs = [e for e in U.iter_events(s) if e.name.endswith("Get_solution_ptr")]
            ag.put(side + ".created_in_the_totals_of_the_selected_solution", bool(gt) and mv[-1][0][0] is gt[-1].result and bool(gs) and gt[-1].recv is gs[-1].result, mv[-1][0][0])
        reach(r, side + ".creating_passes", nc, 1)
    ag.flush()
    r.assumptions += ["strlen / strcspn / strncmp by their C meaning (opaque results; the strings and lengths they are applied to are checked)", "use.Get_solution_ptr() returns the solution selected last (accessor pair)",
                      "std::map model for the creation of a missing entry; doubles as reals; the summation over l and over the interfaces is the stated induction"]
    return r


# ----------------------------------------------------------------------------------------- init_mix: pairwise symmetry
def _array_writes(node, arr):
    out = []
    for x in A.walk(node):
        if x.get("kind") in ("BinaryOperator", "CompoundAssignOperator") and x.get("opcode", "").endswith("=") and x.get("opcode") not in ("==", "!=", "<=", ">="):
            l = strip(x["inner"][0])
            if l.get("kind") == "ArraySubscriptExpr":
                b = strip(l["inner"][0])
                if b.get("kind") == "DeclRefExpr" and b.get("referencedDecl", {}).get("name") == arr:
                    out.append(x)
    return out


def _factor_statement(lp, arr, other):
    """the largest if-statement of the loop body that contains every assignment to arr[..] and none to other[..]: the computation of one factor"""
    ws, wo = _array_writes(lp["inner"][-1], arr), _array_writes(lp["inner"][-1], other)
    if not ws:
        raise Undecided("no assignment to %s[] in the inner-cell loop" % arr)
    ifs = [x for x in A.walk(lp["inner"][-1]) if x.get("kind") == "IfStmt" and all(any(z is w for z in A.walk(x)) for w in ws) and not any(any(z is w for z in A.walk(x)) for w in wo)]
    big = [x for x in ifs if not any(y is not x and any(z is x for z in A.walk(y)) for y in ifs)]
    if len(big) != 1:
        raise Undecided("statement computing %s[i] not isolated (%d candidates)" % (arr, len(big)))
    return big[0]


def _slice(pc):
    """path condition without the literals that only steer the warning / compare the finished factor (they contain the updated array)"""
    out = []
    for p in pc:
        st = tm.subterms(p)
        if any(x.op == "store" for x in st) or any(x.op == "sym" and x.args[0] in ("L_warning",) for x in st):
            continue
        out.append(p)
    return out


def eq_exact(ag, name, hyps, a, b, z3_ms=300):
    """a == b: exact normalisation of the difference (sympy); a non-zero normal form is tried once with z3 under the path condition
    (short time limit: the identities here are rational functions, the path condition only matters where a branch was not taken)"""
    if a is b:
        return ag.put(name, True)
    try:
        ok, res, _ = B.sympy_equal(a, b)
        if ok:
            return ag.put(name, True)
    except Exception:
        res = "not a field term"
    st = B.z3_prove(list(hyps), tm.eq(a, b), timeout_ms=z3_ms)[0]
    if st == "proved":
        return ag.put(name, True)
    ag.put(name, False if (st == "refuted" or (res and not str(res).startswith("not a field"))) else None, "code %r  spec %r  residue %s" % (a, b, str(res)[:200]))


def unit_init_mix_symmetry(twin=False):
    """Phreeqc::init_mix, both branches (multi_D: dispersive factors only; ordinary: dispersive + diffusive).  The statement that computes the
    factor with the higher neighbour, up[i] (`m1[i]`), and the one that computes the factor with the lower neighbour, lo[i] (`m[i]`), are
    executed from an ARBITRARY state (every local, in particular the work variable holding the sum of length/dispersivity, arbitrary =
    whatever an earlier statement left in it).  Contract (what cell i takes from cell i+1 is what cell i+1 gives to cell i, all equal
    cell volumes):  up[i] == lo[i+1]  as an identity in the data of the two cells i and i+1 - the expression for lo[i+1] is the expression
    for lo[i] with i -> i+1 - for every combination of zero / non-zero dispersivities, with and without advection,
      multi_D branch: for all lengths and dispersivities;
      ordinary branch: for all dispersivities and equal lengths of the two cells, and for all lengths when the diffusive part is 0
      (unequal lengths with diffusion: the code itself warns of the mass-balance error; the property quantifies over equal lengths there);
    nothing but the data of the two cells (and the column-wide correction factor / diffusion term) enters.  Frames: up[i] is assigned only
    for i < count_cells and lo[i] only for i > 1 inside the inner-cell loops (cells 1 and count_cells exchange nothing with the boundary
    solutions there); lo[1] / up[count_cells] are assigned only for a constant-concentration boundary (boundary condition 1); the loops run
    over 1..count_cells; both arrays start at 0 for 0..count_cells; the mix records take up[i]/nmix from cell i+1."""
    Q = "Phreeqc::init_mix"
    fn = A.find_function(TR, Q)
    r = U.new_unit("C11.init_mix.factor_with_the_higher_neighbour_equals_the_neighbour's_factor_with_the_lower_one", TR, Q, fn)
    ag = Agg(r)
    lps = loops_of(fn)
    # which local array holds the lower / upper factors: read from the mix records (fill loops)
    fills = [k for k, lp in enumerate(lps) if lp.get("kind") == "ForStmt" and "temp_mix.Add(" in body_text(lp)]
    if len(fills) != 2:
        raise Undecided("expected two fill loops in init_mix, found %d" % len(fills))
    names = None
    for j, k in enumerate(fills):
        f, ex, its, info = U.run_loop_isolated(TR, Q, k, ctx=ctx(functional=()))
        i_ = tm.sym("iter_" + induction_var(lps[k]), "I")
        for s in live(its, ("run", "cont")):
            adds = [e for e in U.iter_events(s) if e.name.endswith("::Add")]
            lo_add = [e for e in adds if same(list(s.pc), e.args[0], i_ - 1)]
            up_add = [e for e in adds if same(list(s.pc), e.args[0], i_ + 1)]
            if len(lo_add) != 1 or len(up_add) != 1:
                ag.put("records[%d].one_entry_for_each_neighbour" % j, False, [e.args[0] for e in adds]); continue
            ptrs = {}
            for nm, did in info["names"].items():
                v = s.locals.get(did)
                if not isinstance(v, tuple) and v is not None and getattr(v, "sort", None) == "P":
                    ptrs[nm] = v
            mem0 = entry_arr(ex, s, ("m", "R"))
            nmx = [x for x in tm.subterms(up_add[0].args[1]) if x.op == "sym" and x.sort == "I" and x is not i_]
            if len(nmx) != 1:
                ag.put("records[%d].fractions_are_factors_divided_by_the_number_of_mixes" % j, False, up_add[0].args[1]); continue
            n_ = tm.to_real(nmx[0])
            found = None
            for lo_n, lo_p in ptrs.items():
                for up_n, up_p in ptrs.items():
                    if lo_n == up_n:
                        continue
                    hy = list(s.pc) + [tm.not_(tm.eq(lo_p, up_p))]
                    if proved(hy, tm.eq(lo_add[0].args[1], tm.select(mem0, lo_p, i_) / n_)) and proved(hy, tm.eq(up_add[0].args[1], tm.select(mem0, up_p, i_) / n_)):
                        found = (lo_n, up_n)
            ag.put("records[%d].lower_neighbour_gets_lo[i]/nmix_and_higher_neighbour_up[i]/nmix(two_different_arrays)" % j, found is not None, (lo_add[0].args[1], up_add[0].args[1]))
            if found:
                names = found
    if names is None:
        raise Undecided("arrays of the lower / upper factors not identified from the mix records")
    LO, UP = names
    inner = [k for k, lp in enumerate(lps) if lp.get("kind") == "ForStmt" and k not in fills and _array_writes(lp["inner"][-1], UP) and _array_writes(lp["inner"][-1], LO) and any(x.get("kind") == "IfStmt" for x in A.walk(lp["inner"][-1]))]
    if len(inner) != 2:
        raise Undecided("expected two inner-cell loops computing the factors, found %d" % len(inner))
    one = I(1)
    for tag, k in zip(("multi_D", "ordinary"), inner):
        lp = lps[k]
        iv = induction_var(lp)
        Li = tm.sym("L_" + iv, "I")
        st_up, st_lo = _factor_statement(lp, UP, LO), _factor_statement(lp, LO, UP)
        res = {}
        for which, st, arr in (("up", st_up, UP), ("lo", st_lo, LO)):
            f, ex, fin, info = region(TR, Q, [st], ctx())
            rows = {}
            for s in live(fin):
                ptr = local(info, s, arr)
                mem = s.heap.get(("m", "R"))
                w = writes(s, ("m", "R"))
                cc = fld0(ex, s, "count_cells", "I")
                # frame: only arr[i] is written, and only inside the column
                ag.put("%s.%s[.]_statement_writes_only_%s[i]" % (tag, arr, arr), all(ix == (ptr, Li) for ix, v in w), [ix for ix, v in w])
                if w:
                    bound = tm.lt(Li, cc) if which == "up" else tm.lt(one, Li)
                    ag.valid("%s.%s" % (tag, "up[i]_assigned_only_for_i<count_cells(no_factor_towards_the_boundary_solution)" if which == "up" else "lo[i]_assigned_only_for_i>1(no_factor_towards_the_boundary_solution)"), list(s.pc), bound)
                entry = tm.select(entry_arr(ex, s, ("m", "R")), ptr, Li)
                val = tm.select(mem, ptr, Li) if mem is not None else entry
                val = tm.substitute(val, {entry: R(0)})         # both arrays are 0 when the loop starts (zeroing loop, checked below) and iteration i writes index i only
                rows[(val, frozenset(_slice(s.pc)))] = (val, _slice(s.pc), info)
            res[which] = list(rows.values())
        reach(r, tag + ".paths_of_the_two_factor_statements", min(len(res["up"]), len(res["lo"])), 3)
        ids, _wm = ex.assigned_locals(lp["inner"][-1])
        work = sorted({nm for did, (nm, q_) in ids.items() if nm and nm != iv and "*" not in q_ and ("double" in q_ or "LDBLE" in q_)})
        npair = 0
        cc_col = tm.select(tm.sym("H0.count_cells:I", ("A", "P", "I")), THIS)
        for vP, pcP, infoP in res["up"]:
            for vQ, pcQ, infoQ in res["lo"]:
                mp = {tm.sub(Li, one): Li, Li: tm.add(Li, one)}
                for nm in work:          # work variables of the loop body: lo[i+1] is computed later, with whatever the statements in between left in them
                    mp[tm.sym("L_" + nm, "R")] = tm.sym("%s_as_left_before_lo[i+1]_is_computed" % nm, "R")
                vQ2 = tm.substitute(vQ, mp)
                pcQ2 = [tm.substitute(p, mp) for p in pcQ]
                hy = list(pcP) + pcQ2 + [tm.le(one, Li), tm.lt(Li, cc_col)]          # the interface between cells i and i+1 of the column: 1 <= i < count_cells
                if B.z3_sat(hy) == "unsat":
                    continue
                npair += 1
                cd = [x for x in tm.subterms(tm.and_(*hy)) if x.op == "select" and x.args[0].op == "sym" and ".disp:" in x.args[0].args[0]]
                nz = all(proved(hy, tm.not_(tm.eq(d, R(0)))) for d in cd) and bool(cd)
                ish = [x for x in tm.subterms(tm.and_(*hy)) if x.op == "select" and x.args[0].op == "sym" and ".ishift:" in x.args[0].args[0]]
                noadv = bool(ish) and proved(hy, tm.eq(ish[0], I(0)))
                case = "no_advection" if noadv else ("both_dispersivities_non_zero" if nz and len(cd) >= 2 else "a_dispersivity_of_the_pair_is_zero")
                if tag == "multi_D":
                    spec = vQ2 if not twin else vQ2 * R(2)
                    eq_exact(ag, "multi_D.up[i]==lo[i+1](%s;all_lengths)" % case, hy, vP, spec)
                else:
                    lens = [x for x in tm.subterms(tm.and_(vP, vQ2) if False else vP + vQ2) if x.op == "select" and x.args[0].op == "sym" and ".length:" in x.args[0].args[0]]
                    own = [x for x in lens if x.args[1][0].op == "+" and x.args[1][0].args[1] is Li]
                    nxt = [x for x in lens if x not in own]
                    if len(own) == 1 and len(nxt) == 1:
                        eqlen = {nxt[0]: own[0]}
                        eq_exact(ag, "ordinary.up[i]==lo[i+1](%s;equal_lengths)" % case, hy, tm.substitute(vP, eqlen), tm.substitute(vQ2, eqlen) if not twin else tm.substitute(vQ2, eqlen) * R(2))
                    else:
                        ag.put("ordinary.lengths_of_the_two_cells_read", None if lens else False, lens)
                    dh = tm.sym("L_diffc_here", "R")
                    if dh in tm.subterms(vP + vQ2):
                        eq_exact(ag, "ordinary.up[i]==lo[i+1](%s;all_lengths;no_diffusive_part)" % case, hy, tm.substitute(vP, {dh: R(0)}), tm.substitute(vQ2, {dh: R(0)}))
        reach(r, tag + ".compatible_path_pairs", npair, 4)
        # range of the inner-cell loop
        f, ex, its, info = U.run_loop_isolated(TR, Q, k, ctx=ctx())
        check_loop_range(r, tag + ".inner_cell_loop", ex, ctx(), info, its, iv, one, lambda v: tm.le(v, fld0(ex, its[0], "count_cells", "I")))
    # zeroing loop
    zs = [k for k, lp in enumerate(lps) if lp.get("kind") == "ForStmt" and k < inner[0] and _array_writes(lp["inner"][-1], UP) and _array_writes(lp["inner"][-1], LO)]
    if len(zs) != 1:
        r.add("zeroing_loop_found", UNDECIDED, "ast-scan", 0, "%d" % len(zs), kind="structural")
    else:
        f, ex, its, info = U.run_loop_isolated(TR, Q, zs[0], ctx=ctx())
        iv = induction_var(lps[zs[0]])
        for s in live(its, ("run", "cont")):
            mem = s.heap.get(("m", "R"))
            i_ = tm.sym("iter_" + iv, "I")
            ag.eq("zeroing.both_factors_of_cell_i_start_at_0", list(s.pc), tm.select(mem, local(info, s, LO), i_) + tm.select(mem, local(info, s, UP), i_) if mem is not None else R(1), R(0))
        check_loop_range(r, "zeroing_loop", ex, ctx(), info, its, iv, I(0), lambda v: tm.le(v, fld0(ex, its[0], "count_cells", "I")))
    # boundary cells: lo[1] / up[count_cells] only for a constant-concentration boundary
    nb = 0
    for which, arr, idx_is, member in (("first", LO, lambda ix, cc: ix is one, "bcon_first"), ("last", UP, lambda ix, cc: ix is cc, "bcon_last")):
        ws = [w for w in _array_writes(fn, arr) if not any(any(z is w for z in A.walk(lps[k])) for k in range(len(lps)))]
        tops = []
        for w in ws:
            ifs = [x for x in A.walk(fn) if x.get("kind") == "IfStmt" and any(z is w for z in A.walk(x)) and not any(any(z is lps[k] for z in A.walk(x)) for k in inner)]
            out = [x for x in ifs if not any(y is not x and any(z is x for z in A.walk(y)) for y in ifs)]          # outermost if around the assignment below the multi_D / ordinary split
            for x in out:
                if not any(x is t for t in tops):
                    tops.append(x)
        for st in tops:
            f, ex, fin, info = region(TR, Q, [st], ctx())
            for s in live(fin):
                w = [(ix, v) for ix, v in writes(s, ("m", "R")) if ix[0] is local(info, s, arr)]
                if not w:
                    continue
                nb += 1
                cc = fld0(ex, s, "count_cells", "I")
                bc = fld0(ex, s, member, "I")
                ag.put("boundary_%s.only_the_factor_of_the_boundary_cell_is_set" % which, all(idx_is(ix[1], cc) for ix, v in w), [ix for ix, v in w])
                ag.valid("boundary_%s.factor_towards_the_boundary_solution_only_for_a_constant_concentration_boundary(%s==1)" % (which, member), list(s.pc), tm.eq(bc, one))
    reach(r, "boundary_blocks", nb, 4)
    ag.flush()
    r.assumptions += ["all cells hold the same amount of water (advective transport of PHREEQC): equal factors mean equal amounts exchanged", "doubles as reals; exact normalisation of the two expressions (sympy) or z3",
                      "the factor statements are executed from an arbitrary state: the identity must not depend on what earlier statements left in work variables",
                      "ordinary branch with unequal lengths and diffusion: not symmetric by construction (the code warns); outside the property's quantifier",
                      "the number of mixes and the stability bound are C11.init_mix.partition_of_unity_and_stability_bookkeeping"]
    return r


# ------------------------------------------------------------------------------------------------------------ fill_m_s
def unit_fill_m_s_amounts(twin=False):
    """Phreeqc::fill_m_s(J_ij, count, icell, stagnant): the species amounts of one interface are summed into element amounts.  One pass of the
    species loop, of the element loops and of the look-up loops from an arbitrary state.  Contract (totals moved == sum over the species of
    stoichiometric coefficient x species amount, for the giving side tot1 and the receiving side tot2 alike):
      * the elements are those of the species itself: its name is parsed (get_elts_in_species on a copy of J_ij[j].name, coefficient 1) into an
        element list that was emptied first (count_elts = 0);
      * explicit scheme, element k of the list: "X" (exchanger) is skipped; "H" and "O" add coef[k]*J[j].tot1 to tot1_h / tot1_o and coef[k]*J[j].tot2
        to tot2_h / tot2_o; any other element adds coef[k]*J[j].tot1 and coef[k]*J[j].tot2 to the entry of m_s that carries the element's name
        (found by name, once - the search stops) or, when there is none, opens a new entry at position count_m_s with exactly these two amounts
        and that name; nothing else is written;
      * implicit scheme: coef[k]*J[j].tot1 (and coef[k]*J[j].tot_stag with a stagnant layer) is added to the entry of ct[icell].m_s with the
        element's name, once."""
    q = "Phreeqc::fill_m_s"
    fn = A.find_function(TR, q)
    r = U.new_unit("C11.fill_m_s.element_amounts_are_coefficient_times_species_amount_on_both_sides", TR, q, fn)
    ag = Agg(r)
    lps = loops_of(fn)
    k_sp = [k for k, lp in enumerate(lps) if not enclosing(lps, k)]
    if len(k_sp) != 1:
        raise Undecided("species loop of fill_m_s not found")
    # ---- the species' own elements
    c = ctx()
    c.snapshot = {"get_elts_in_species": [("count_elts", "I")]}
    f, ex, its, info = U.run_loop_isolated(TR, q, k_sp[0], ctx=c)
    jv = induction_var(lps[k_sp[0]])
    j_ = tm.sym("iter_" + jv, "I")
    nsp = 0
    for s in live(its, ("run", "cont")):
        nsp += 1
        hy = list(s.pc)
        sd = evs(s, "string_duplicate"); ge = evs(s, "get_elts_in_species")
        jname = tm.select(entry_arr(ex, s, ("f", "name", "P")), tm.add(tm.sym("L_l_J_ij", "P"), j_))
        ag.put("species.elements_parsed_from_a_copy_of_the_species'_own_name", len(sd) == 1 and (sd[0].args[0] is jname or same(hy, sd[0].args[0], jname)) and len(ge) == 1, sd)
        if len(ge) == 1:
            ag.put("species.element_list_emptied_before_parsing(count_elts=0)", ge[0].snap is not None and tm.isnum(ge[0].snap["count_elts"]) and ge[0].snap["count_elts"].args[0] == 0, ge[0].snap)
            ag.put("species.parsed_with_coefficient_1", tm.isnum(ge[0].args[1]) and ge[0].args[1].args[0] == 1, ge[0].args)
    reach(r, "species_pass", nsp, 1)
    # ---- explicit scheme
    k_ex = [k for k, lp in enumerate(lps) if "tot1_h" in body_text(lp) and enclosing(lps, k) == k_sp]
    if len(k_ex) != 1:
        raise Undecided("element loop of the explicit scheme not found (%d)" % len(k_ex))
    k_in = [k for k, lp in enumerate(lps) if enclosing(lps, k)[:1] == k_ex]
    f, ex, its, info = U.run_loop_isolated(TR, q, k_ex[0], ctx=ctx(), inner_modes={k: "iter" for k in k_in})
    kv = induction_var(lps[k_ex[0]])
    k_ = tm.sym("iter_" + kv, "I")
    Jp = tm.add(tm.sym("L_l_J_ij", "P"), tm.sym("L_" + jv, "I"))
    def parts(s):
        e0 = lambda key: entry_arr(ex, s, key)
        el = tm.add(tm.select(e0(("f", "#vdata", "P")), tm.app("fld:elt_list", (THIS,), "P")), k_)
        coef = tm.select(e0(("f", "coef", "R")), el)
        ename = tm.select(e0(("f", "name", "P")), tm.select(e0(("f", "elt", "P")), el))
        return coef, ename, tm.select(e0(("f", "tot1", "R")), Jp), tm.select(e0(("f", "tot2", "R")), Jp)
    def written(s):
        return {key: writes(s, key) for key in s.heap if writes(s, key)}
    nH = nO = nX = nN = 0
    for s in live(its, ("run", "cont")):
        hy = list(s.pc)
        coef, ename, j1, j2 = parts(s)
        W = written(s)
        sc = {e.args[1].args[0].strip('"'): e for e in evs(s, "strcmp") if e.args[1].op == "str" and (e.args[0] is ename or same(hy, e.args[0], ename))}
        def is_(sym):
            return sym in sc and proved(hy, tm.eq(sc[sym].result, I(0)))
        keys = set(W)
        if is_("X"):
            nX += 1
            ag.put("explicit.exchanger_X_is_skipped", not W, keys); continue
        for el, n1, n2 in (("H", "tot1_h", "tot2_h"), ("O", "tot1_o", "tot2_o")):
            if is_(el):
                if el == "H": nH += 1
                else: nO += 1
                ag.put("explicit.%s_goes_to_%s_and_%s_only" % (el, n1, n2), keys == {("f", n1, "R"), ("f", n2, "R")}, keys)
                if keys == {("f", n1, "R"), ("f", n2, "R")}:
                    ag.eq("explicit.%s:%s+=coef*J.tot1" % (el, n1), hy, fld(ex, s, n1, "R"), tm.select(entry_arr(ex, s, ("f", n1, "R")), THIS) + coef * j1)
                    ag.eq("explicit.%s:%s+=coef*J.tot2" % (el, n2), hy, fld(ex, s, n2, "R"), tm.select(entry_arr(ex, s, ("f", n2, "R")), THIS) + coef * (j2 if not twin else j1))
        if is_("H") or is_("O"):
            continue
        ag.put("explicit.element_compared_with_X_H_O_before_it_goes_to_the_table", {"X", "H", "O"} <= set(sc), sorted(sc))
        if not W:
            continue          # found in the table: the look-up pass below did the update
        nN += 1
        # a new entry
        cnt0 = [v for key, v in ((key, x) for key, x in s.heap.items()) if key == ("f", "count_m_s", "I")]
        wc = W.get(("f", "count_m_s", "I"), [])
        ag.put("explicit.new_entry.exactly_name_tot1_tot2_and_the_counter_are_written", keys == {("f", "count_m_s", "I"), ("f", "name", "P"), ("f", "tot1", "R"), ("f", "tot2", "R")}, keys)
        if keys != {("f", "count_m_s", "I"), ("f", "name", "P"), ("f", "tot1", "R"), ("f", "tot2", "R")}:
            continue
        slot = W[("f", "name", "P")][-1][0]
        ag.put("explicit.new_entry.one_slot_for_name_and_both_amounts", W[("f", "tot1", "R")][-1][0] == slot and W[("f", "tot2", "R")][-1][0] == slot, slot)
        old_cnt = wc[-1][1] - 1
        ms = [x for x in tm.subterms(slot[0]) if x.op == "select" and x.args[0].op == "sym" and ".m_s:" in x.args[0].args[0]]
        ag.put("explicit.new_entry.opened_at_position_count_m_s_of_m_s", len(ms) == 1 and proved(hy, tm.eq(slot[0], tm.add(ms[0], old_cnt))), slot)
        cur = lambda key, obj: tm.select(ex.heap_arr(s, key), obj)
        el = [x for x in tm.subterms(W[("f", "name", "P")][-1][1]) if x.op == "+" and k_ in x.args]
        # after the (opaque) look-up loop the components are renamed: compare with the values read through the current memory
        hcoef = [x for x in tm.subterms(W[("f", "tot1", "R")][-1][1]) if x.op == "select" and x.args[0].op == "sym" and ".coef:" in x.args[0].args[0]]
        hj1 = [x for x in tm.subterms(W[("f", "tot1", "R")][-1][1]) if x.op == "select" and x.args[0].op == "sym" and ".tot1:" in x.args[0].args[0]]
        hj2 = [x for x in tm.subterms(W[("f", "tot2", "R")][-1][1]) if x.op == "select" and x.args[0].op == "sym" and ".tot2:" in x.args[0].args[0]]
        okp = len(hcoef) == 1 and len(hj1) == 1 and len(hj2) == 1 and k_ in tm.subterms(hcoef[0]) and hj1[0].args[1] == (Jp,) and hj2[0].args[1] == (Jp,)
        ag.put("explicit.new_entry.amounts_read_from_element_k_and_species_j", okp, (W[("f", "tot1", "R")][-1][1], W[("f", "tot2", "R")][-1][1]))
        if okp:
            ag.eq("explicit.new_entry.tot1==coef*J.tot1", hy, W[("f", "tot1", "R")][-1][1], hcoef[0] * hj1[0])
            ag.eq("explicit.new_entry.tot2==coef*J.tot2", hy, W[("f", "tot2", "R")][-1][1], hcoef[0] * hj2[0])
        nmv = W[("f", "name", "P")][-1][1]
        ag.put("explicit.new_entry.named_after_element_k", nmv.op == "select" and ".name:" in repr(nmv.args[0]) and k_ in tm.subterms(nmv), nmv)
        ag.eq("explicit.new_entry.counter_incremented_by_one", hy, wc[-1][1], tm.select(wc[-1][1].args[0].args[0], THIS) + 1 if wc[-1][1].op == "+" and wc[-1][1].args[0].op == "select" else wc[-1][1] + 0)
    reach(r, "explicit.H", nH, 1); reach(r, "explicit.O", nO, 1); reach(r, "explicit.X", nX, 1); reach(r, "explicit.new_entry", nN, 1)
    nm = 0
    for ki in k_in:
        lv = induction_var(lps[ki])
        l_ = tm.sym("iter_" + lv, "I")
        for s in [x for x in info["inner_iters"].get(ki, []) if x.status in ("run", "cont", "brk") and B.z3_sat(list(x.pc)) != "unsat"]:
            hy = list(s.pc)
            coef, ename, j1, j2 = parts(s)
            W = written(s)
            slot = tm.add(fld0(ex, s, "m_s", "P"), l_)
            import props.common as _PC
            ver = {_PC._sym0("H0", key): _PC._sym0("Hiter", key) for key in getattr(ex, "iter_written", ())}       # the exploratory first pass of the enclosing loop reads the un-havocked components
            nrm = lambda t: tm.substitute(t, ver) if hasattr(t, "op") else t
            sname = tm.select(entry_arr(ex, s, ("f", "name", "P")), slot)
            sc = [e for e in U.iter_events(s) if e.name.endswith("strcmp") and nrm(ename) in [nrm(a_) for a_ in e.args]]
            sc = [e for e in sc if nrm(sname) in [nrm(a_) for a_ in e.args]] or sc
            if not W:
                ag.put("explicit.look-up.entry_of_another_element_is_left_alone_and_the_search_goes_on", s.status in ("run", "cont") and len(sc) == 1 and proved(hy, tm.not_(tm.eq(sc[0].result, I(0)))), s.status)
                continue
            nm += 1
            ag.put("explicit.look-up.entry_updated_only_if_it_carries_the_element's_name", len(sc) == 1 and nrm(sname) in [nrm(a_) for a_ in sc[0].args] and proved(hy, tm.eq(sc[0].result, I(0))), sc)
            ag.put("explicit.look-up.only_tot1_and_tot2_of_that_entry_are_written", set(W) == {("f", "tot1", "R"), ("f", "tot2", "R")} and all(ix == (slot,) for key in W for ix, v in W[key]), {key: [ix for ix, v in W[key]] for key in W})
            if set(W) == {("f", "tot1", "R"), ("f", "tot2", "R")}:
                o1 = tm.select(entry_arr(ex, s, ("f", "tot1", "R")), slot); o2 = tm.select(entry_arr(ex, s, ("f", "tot2", "R")), slot)
                ag.eq("explicit.look-up.tot1+=coef*J.tot1", hy + [tm.not_(tm.eq(slot, Jp))], W[("f", "tot1", "R")][-1][1], o1 + coef * j1)
                ag.eq("explicit.look-up.tot2+=coef*J.tot2", hy + [tm.not_(tm.eq(slot, Jp))], W[("f", "tot2", "R")][-1][1], o2 + coef * j2)
            ag.put("explicit.look-up.added_once(search_stops)", s.status == "brk", s.status)
    reach(r, "explicit.look-up_hits", nm, 1)
    # ---- implicit scheme
    k_im = [k for k, lp in enumerate(lps) if enclosing(lps, k)[:1] == k_sp and k not in k_ex]
    k_im_in = [k for k, lp in enumerate(lps) if k_im and enclosing(lps, k)[:1] == k_im[:1]]
    if len(k_im) != 1 or len(k_im_in) != 1:
        r.add("implicit.loops_found", UNDECIDED, "ast-scan", 0, "%d/%d" % (len(k_im), len(k_im_in)), kind="structural")
    else:
        f, ex, its, info = U.run_loop_isolated(TR, q, k_im[0], ctx=ctx(), inner_modes={k_im_in[0]: "iter"})
        lv = induction_var(lps[k_im_in[0]])
        l_ = tm.sym("iter_" + lv, "I")
        ni = 0
        for s in [x for x in info["inner_iters"].get(k_im_in[0], []) if x.status in ("run", "cont", "brk") and B.z3_sat(list(x.pc)) != "unsat"]:
            hy = list(s.pc)
            coef, ename, j1, j2 = parts(s)
            W = written(s)
            if not W:
                ag.put("implicit.entry_of_another_element_is_left_alone", s.status in ("run", "cont"), s.status); continue
            ni += 1
            w1 = W.get(("f", "tot1", "R"), [])
            ag.put("implicit.one_entry_of_the_cell's_table_is_updated", len(w1) == 1, w1)
            if len(w1) != 1:
                continue
            slot = w1[0][0][0]
            okslot = "G.ct" in repr(slot) and tm.sym("L_icell", "I") in tm.subterms(slot) and l_ in tm.subterms(slot)
            ag.put("implicit.entry_l_of_ct[icell].m_s", okslot, slot)
            o1 = tm.select(entry_arr(ex, s, ("f", "tot1", "R")), slot)
            ag.eq("implicit.tot1+=coef*J.tot1", hy + [tm.not_(tm.eq(slot, Jp))], w1[0][1], o1 + coef * j1)
            sc = [e for e in U.iter_events(s) if e.name.endswith("strcmp") and ename in e.args]
            sname = tm.select(entry_arr(ex, s, ("f", "name", "P")), slot)
            ag.put("implicit.entry_updated_only_if_it_carries_the_element's_name", len(sc) == 1 and sname in sc[0].args and proved(hy, tm.eq(sc[0].result, I(0))), sc)
            ag.put("implicit.added_once(search_stops)", s.status == "brk", s.status)
            ws = W.get(("f", "tot_stag", "R"), [])
            stg = tm.sym("L_stagnant", "I")
            for hy1 in split(hy, [tm.eq(stg, I(0))]):
                if proved(hy1, tm.eq(stg, I(0))):
                    ag.put("implicit.no_stagnant_amount_without_stagnant_layer", not ws, ws)
                else:
                    js = tm.select(entry_arr(ex, s, ("f", "tot_stag", "R")), Jp)
                    os_ = tm.select(entry_arr(ex, s, ("f", "tot_stag", "R")), slot)
                    ag.put("implicit.stagnant_amount_added_to_the_same_entry", len(ws) == 1 and ws[0][0] == (slot,), ws)
                    if len(ws) == 1:
                        ag.eq("implicit.tot_stag+=coef*J.tot_stag", hy1 + [tm.not_(tm.eq(slot, Jp))], ws[0][1], os_ + coef * js)
        reach(r, "implicit.hits", ni, 1)
    ag.flush()
    r.assumptions += ["strcmp by its C meaning; get_elts_in_species(&name, 1) appends the elements of the formula with their stoichiometric coefficients to elt_list from position count_elts (not under this contract)",
                      "records of J_ij and of m_s are different objects; the sums over species / elements are the stated induction; doubles as reals",
                      "the charge-weighting of the implicit scheme (m_s[l].charge) is not pinned", "which scheme is used (`implicit && stagnant < 2`) is not pinned"]
    return r


# ---------------------------------------------------------------------------------- diffuse_implicit: matrix and transfers
def _rowptr(base, k):
    return lambda ix: len(ix) == 2 and ix[0].op == "select" and ix[0].args[0].op == "sym" and ".mem:P" in ix[0].args[0].args[0] and ix[0].args[1][0] is tm.sym("G." + base, "P") and (k is None or ix[0].args[1][1] is k)


def unit_implicit_matrix(twin=False):
    """Phreeqc::diffuse_implicit(DDt, stagnant): the rows of the coefficient matrix for the interior cells and the species amounts moved over an
    interface after the solve; one pass of each loop from an arbitrary state (solute components; the heat component is not under this contract).
    Contract (implicit scheme  A.c_new = c_old  with  A = I + sum over interfaces of factor * (e_i - e_j)(e_i - e_j)^T : what cell i loses over an
    interface its neighbour gains):
      * the factor of interface i|i+1 is mixf[i][cp] = DDt * b_ij of ct[i] (the conductance find_J stored for THAT interface), likewise i-1|i;
      * row i: the coefficient of cell i-1 is -mixf[i-1][cp], of cell i+1 is -mixf[i][cp], and the row sums to 1 (uniform concentrations stay
        uniform, nothing is created); the coefficient of cell i+1 in row i equals the coefficient of cell i in row i+1 (symmetric coupling);
        with a stagnant partner the coupling A[i][i+c1] == A[i+c1][i] == -mixf_stag[i][cp] and both rows still sum to 1;
      * the loop covers the interior cells 2 .. count_cells-1;
      * after the solve the amount of species cp moved from cell i to cell i+1 is tot1 = -mixf[i][cp] * (c_new[i+1] - c_new[i]) - the SAME factor,
        read from the same place - booked with the name of species cp of cell i itself (sol_D[i].spec[cp].name) and its charge; the amount moved
        to the stagnant partner i1 is tot_stag = -mixf_stag[i][cp] * (c_new[i1] - c_new[i]), i1 = i + count_cells + 1 for a column cell (the first
        / last stagnant cell for the boundary solutions); a missing partner solution moves nothing."""
    q = "Phreeqc::diffuse_implicit"
    fn = A.find_function(TR, q)
    r = U.new_unit("C11.diffuse_implicit.matrix_rows_sum_to_one_with_symmetric_couplings_and_transfers_use_the_same_factor", TR, q, fn)
    ag = Agg(r)
    lps = loops_of(fn)
    kA = [k for k, lp in enumerate(lps) if lp.get("kind") == "ForStmt" and "A[i][" in body_text(lp) and "mixf[i][cp]=" in body_text(lp) and "LU[" not in body_text(lp) and not [z for z in A.walk(lp["inner"][-1]) if z.get("kind") in LOOPK]]
    if len(kA) != 1:
        raise Undecided("interior-row loop of diffuse_implicit not found (%d)" % len(kA))
    f, ex, its, info = U.run_loop_isolated(TR, q, kA[0], ctx=ctx())
    iv = induction_var(lps[kA[0]])
    i_ = tm.sym("iter_" + iv, "I")
    cp, DDt = tm.sym("L_cp", "I"), tm.sym("L_DDt", "R")
    one = I(1)
    def bij(s, cell):
        return tm.select(entry_arr(ex, s, ("f", "b_ij", "R")), tm.add(tm.select(entry_arr(ex, s, ("f", "v_m", "P")), tm.add(tm.sym("G.ct", "P"), cell)), cp))
    nrow = nst = 0
    for s in live(its, ("run", "cont")):
        hy = list(s.pc)
        hn = fld0(ex, s, "heat_nmix", "I")
        if not proved(hy, tm.not_(tm.and_(tm.not_(tm.eq(hn, I(0))), tm.eq(cp, tm.sym("L_comp", "I") - 1)))):
            continue                      # heat component
        W = writes(s, ("m", "R"))
        mx = {}
        for ix, v in W:
            if _rowptr("mixf", None)(ix):
                mx[ix[0].args[1][1]] = (ix, v)
        ag.put("interior.factors_of_the_two_interfaces_of_cell_i_are_stored(mixf[i-1][cp],mixf[i][cp])", set(mx) == {i_ - 1, i_} and all(e[0][1] is cp for e in mx.values()), list(mx))
        if set(mx) != {i_ - 1, i_}:
            continue
        fl, fu = mx[i_ - 1][1], mx[i_][1]
        ag.eq("interior.factor_of_interface_i-1|i==DDt*b_ij_of_ct[i-1]", hy, fl, DDt * bij(s, i_ - 1))
        ag.eq("interior.factor_of_interface_i|i+1==DDt*b_ij_of_ct[i]", hy, fu, DDt * bij(s, i_) if not twin else DDt * bij(s, i_ + 1))
        rows = {}
        for ix, v in W:
            if _rowptr("A", None)(ix):
                rows.setdefault(ix[0].args[1][1], []).append((ix[1], v))
        stg = tm.sym("L_stagnant", "I")
        if set(rows) == {i_}:
            nrow += 1
            cols = dict(rows[i_])
            ag.put("interior.compact_row_has_three_coefficients(lower,diagonal,upper)", len(cols) == 3 and all(tm.isnum(c_) for c_ in cols) and sorted(c_.args[0] for c_ in cols) == [0, 1, 2], list(cols))
            if len(cols) == 3 and all(tm.isnum(c_) for c_ in cols):
                lo, di, up = [cols[c_] for c_ in sorted(cols, key=lambda t: t.args[0])]
                ag.eq("interior.row_sums_to_one", hy, lo + di + up, R(1))
                ag.eq("interior.coefficient_of_cell_i-1==-factor_of_interface_i-1|i", hy, lo, -fl)
                ag.eq("interior.coefficient_of_cell_i+1==-factor_of_interface_i|i+1", hy, up, -fu)
                nxt_lo = tm.substitute(lo, {tm.sub(i_, one): i_, i_: tm.add(i_, one)})
                ag.eq("interior.coupling_i->i+1_in_row_i==coupling_i+1->i_in_row_i+1", hy, up, nxt_lo)
        elif len(rows) == 2 and i_ in rows:
            nst += 1
            other = [k_ for k_ in rows if k_ is not i_][0]
            c1 = tm.sym("L_c1", "I")
            ag.put("stagnant.partner_row_is_i+c1", other is tm.add(i_, c1) or same(hy, other, i_ + c1), other)
            pi, po = [ix for ix, v in W if _rowptr("A", i_)(ix)][0][0], [ix for ix, v in W if _rowptr("A", other)(ix)][0][0]
            ms_ptr = tm.select(entry_arr(ex, s, ("m", "P")), tm.sym("G.mixf_stag", "P"), i_)
            dist = [tm.not_(tm.eq(a_, b_)) for a_, b_ in ((pi, po), (ms_ptr, pi), (ms_ptr, po), (ms_ptr, mx[i_][0][0]), (ms_ptr, mx[i_ - 1][0][0]))]
            hy2 = hy + dist + [tm.lt(I(0), c1)]
            ci, co = dict(rows[i_]), dict(rows[other])
            tot_i = R(0)
            for v in ci.values():
                tot_i = tot_i + v
            tot_o = R(0)
            for v in co.values():
                tot_o = tot_o + v
            ag.valid("stagnant.row_i_sums_to_one", hy2, tm.eq(tot_i, R(1)))
            ag.valid("stagnant.row_of_the_partner_sums_to_one", hy2, tm.eq(tot_o, R(1)))
            cross_i = [v for c_, v in ci.items() if same(hy2, c_, other)]
            cross_o = [v for c_, v in co.items() if same(hy2, c_, i_)]
            ms = tm.select(entry_arr(ex, s, ("m", "R")), ms_ptr, cp)
            ag.put("stagnant.one_coupling_each_way", len(cross_i) == 1 and len(cross_o) == 1, (list(ci), list(co)))
            if len(cross_i) == 1 and len(cross_o) == 1:
                ag.valid("stagnant.coupling_i->partner==coupling_partner->i==-mixf_stag[i][cp]", hy2, tm.and_(tm.eq(cross_i[0], cross_o[0]), tm.eq(cross_i[0], -ms)))
    reach(r, "interior_rows(no_stagnant_partner)", nrow, 1); reach(r, "interior_rows(with_stagnant_partner)", nst, 1)
    check_loop_range(r, "interior_row_loop", ex, ctx(), info, its, iv, I(2), lambda v: tm.lt(v, fld0(ex, its[0], "count_cells", "I")))
    if not hasattr(r, "head_exempt"):
        r.head_exempt = {}
    r.head_exempt[(q, kA[0])] = "rows 0, 1, count_cells and count_cells+1 depend on the boundary conditions and are written by the statements in front of the loop"
    # ---- transfers after the solve
    kT = innermost(lps, lambda lp: lp.get("kind") == "ForStmt" and ".tot1=" in body_text(lp) and ".tot_stag=" in body_text(lp) and "mixf_stag[" in body_text(lp) and "Ct2[" in body_text(lp))
    if len(kT) != 1:
        raise Undecided("transfer loop of diffuse_implicit not found (%d)" % len(kT))
    f, ex, its, info = U.run_loop_isolated(TR, q, kT[0], ctx=ctx(functional=("Rxn_find",)))
    v0 = induction_var(lps[kT[0]])
    i0 = tm.sym("iter_" + v0, "I")
    Li = tm.sym("L_i", "I")
    nm = ns = nno = 0
    for s in live(its, ("run", "cont")):
        hy = list(s.pc)
        e0 = lambda key: entry_arr(ex, s, key)
        Jslot = tm.add(tm.select(e0(("f", "J_ij", "P")), tm.add(tm.sym("G.ct", "P"), Li)), cp)
        w1, ws, wn, wc = writes(s, ("f", "tot1", "R")), writes(s, ("f", "tot_stag", "R")), writes(s, ("f", "name", "P")), writes(s, ("f", "charge", "R"))
        rf = [e for e in U.iter_events(s) if e.name.endswith("Rxn_find") and "Rxn_solution_map" in repr(e.args[0])]
        if not (w1 or ws):
            nno += 1
            ag.put("transfer.nothing_booked_only_when_the_partner_solution_is_missing", len(rf) == 1 and proved(hy, tm.eq(rf[0].result, tm.NULL)) and not wn, hy[:3])
            continue
        Ct2 = lambda k_: tm.select(e0(("m", "R")), tm.sym("G.Ct2", "P"), k_)
        ag.put("transfer.booked_in_entry_cp_of_ct[i].J_ij", all(ix == (Jslot,) for ix, v in w1 + ws + wn + wc), [ix for ix, v in w1 + ws])
        spname = tm.select(e0(("f", "name", "P")), tm.add(tm.select(e0(("f", "spec", "P")), tm.add(fld0(ex, s, "sol_D", "P"), Li)), cp))
        ag.put("transfer.named_after_species_cp_of_cell_i_itself", len(wn) == 1 and (wn[0][1] is spname or same(hy, wn[0][1], spname)), wn)
        zz = tm.select(e0(("f", "z", "R")), tm.add(tm.select(e0(("f", "v_m", "P")), tm.add(tm.sym("G.ct", "P"), Li)), cp))
        ag.put("transfer.charge_is_that_of_species_cp_at_this_interface", len(wc) == 1 and (wc[0][1] is zz or same(hy, wc[0][1], zz)), wc)
        if proved(hy, tm.eq(i0, I(0))):
            nm += 1
            fac = tm.select(e0(("m", "R")), tm.select(e0(("m", "P")), tm.sym("G.mixf", "P"), Li), cp)
            ag.put("transfer.mobile:only_tot1_is_set", len(w1) == 1 and not ws, (w1, ws))
            if len(w1) == 1:
                ag.valid("transfer.mobile:tot1==-mixf[i][cp]*(c_new[i+1]-c_new[i])", hy, tm.eq(w1[0][1], -fac * (Ct2(Li + 1) - Ct2(Li)) if not twin else -fac * (Ct2(Li) - Ct2(Li + 1))))
        else:
            ns += 1
            fac = tm.select(e0(("m", "R")), tm.select(e0(("m", "P")), tm.sym("G.mixf_stag", "P"), Li), cp)
            c1, c2, cc1 = tm.sym("L_c1", "I"), tm.sym("L_c2", "I"), tm.sym("L_cc1", "I")
            part = tm.ite(tm.eq(Li, I(0)), c2, tm.ite(tm.eq(Li, c1), cc1, Li + c1))
            ag.put("transfer.stagnant:only_tot_stag_is_set", len(ws) == 1 and not w1, (w1, ws))
            if len(ws) == 1:
                ag.valid("transfer.stagnant:tot_stag==-mixf_stag[i][cp]*(c_new[partner]-c_new[i])", hy, tm.eq(ws[0][1], -fac * (Ct2(part) - Ct2(Li))))
        if rf:
            want = tm.ite(tm.eq(i0, I(0)), Li + 1, tm.ite(tm.eq(Li, I(0)), tm.sym("L_c2", "I"), tm.ite(tm.eq(Li, tm.sym("L_c1", "I")), tm.sym("L_cc1", "I"), Li + tm.sym("L_c1", "I"))))
            ag.valid("transfer.partner_solution_looked_up_under_the_partner's_number", hy, tm.eq(rf[0].args[-1], want))
    reach(r, "transfer.mobile", nm, 2); reach(r, "transfer.stagnant", ns, 2); reach(r, "transfer.partner_missing", nno, 1)
    ag.flush()
    r.assumptions += ["c1 = count_cells + 1, c2 = count_cells + 2, cc1 = last stagnant cell (initialisers of diffuse_implicit)", "the rows of A, mixf and mixf_stag are different allocations",
                      "rows of the boundary cells, the LU decomposition / Thomas solve and the electro-migration correction are not under this contract; the heat component is skipped",
                      "equal water in all cells (the implicit scheme mixes concentrations); doubles as reals", "loops are located by the arrays they assign (A, mixf, J_ij[cp].tot1 / tot_stag)"]
    return r


# ------------------------------------------------------------------------------------- fill_spec: the species record
def unit_fill_spec_record(twin=False):
    """Phreeqc::fill_spec(cell, ref_cell): the statements that enter an aqueous species into the diffusion table of the cell, executed as a
    region from an arbitrary state.  Contract (the transfer lists are built from the species of the cell itself): name, concentration c,
    activity coefficient lg, log molality lm and charge z written to slot count_spec of sol_D[cell].spec all come from the SAME species record
    (the one of the current pass), c is its moles divided by the cell's water mass (mass_water_aq_x of the solution just equilibrated), the
    species is marked aqueous; a species that other cells have and this cell lacks (implicit scheme, padding passes) is entered with c == 0."""
    q = "Phreeqc::fill_spec"
    fn = A.find_function(TR, q)
    r = U.new_unit("C11.fill_spec.species_record_of_the_cell_from_one_species_c==moles_per_own_water", TR, q, fn)
    ag = Agg(r)
    lps = loops_of(fn)
    AQv = macro("AQ")
    want = ("name", "type", "c", "a", "lm", "lg", "z")
    def field_assign(x):
        if x.get("kind") != "BinaryOperator" or x.get("opcode") != "=":
            return None
        l = strip(x["inner"][0])
        return l.get("name") if l.get("kind") == "MemberExpr" else None
    blocks = []
    for blk in A.walk(fn):
        if blk.get("kind") != "CompoundStmt":
            continue
        st = blk.get("inner", [])
        run = []
        for x in st:
            fa = field_assign(x)
            if fa in want:
                run.append(x)
            elif run:
                blocks.append(list(run))
                run = []
        if run:
            blocks.append(list(run))
    # the block of the aqueous species: the one that marks the record AQ (the exchange-species block marks it EX)
    blocks = [b_ for b_ in blocks if {field_assign(y) for y in b_} >= {"name", "c", "z", "type"} and any(field_assign(y) == "type" and text_of(TR, y["inner"][1]) == "AQ" for y in b_)]
    if len(blocks) != 1:
        raise Undecided("statements entering an aqueous species into sol_D[cell].spec not found (%d)" % len(blocks))
    f, ex, fin, info = region(TR, q, blocks[0], ctx())
    n = 0
    sp, cell, cs = tm.sym("L_s_ptr", "P"), tm.sym("L_l_cell_no", "I"), tm.sym("L_count_spec", "I")
    for s in live(fin):
        n += 1
        hy = list(s.pc)
        slot = tm.add(tm.select(entry_arr(ex, s, ("f", "spec", "P")), tm.add(fld0(ex, s, "sol_D", "P"), cell)), cs)
        g = lambda nm, so="R": tm.select(entry_arr(ex, s, ("f", nm, so)), sp)
        W = {nm: writes(s, ("f", nm, so)) for nm, so in (("name", "P"), ("c", "R"), ("lm", "R"), ("lg", "R"), ("z", "R"), ("a", "R"), ("type", "I"))}
        ag.put("record.written_to_slot_count_spec_of_the_cell's_own_table", all(len(w) == 1 and w[0][0] == (slot,) for w in W.values()), {k_: [ix for ix, v in w] for k_, w in W.items()})
        if not all(len(w) == 1 for w in W.values()):
            continue
        ag.put("record.name_is_that_of_the_species_of_this_pass", W["name"][0][1] is g("name", "P"), W["name"][0][1])
        ag.eq("record.c==moles_of_that_species/water_mass_of_the_cell", hy, W["c"][0][1], g("moles") / fld0(ex, s, "mass_water_aq_x", "R") if not twin else g("moles"))
        ag.eq("record.charge_of_that_species", hy, W["z"][0][1], g("z"))
        ag.eq("record.activity_coefficient_of_that_species", hy, W["lg"][0][1], g("lg"))
        ag.eq("record.log_molality_as_tested_for_this_species", hy, W["lm"][0][1], tm.sym("L_lm", "R"))
        av = W["a"][0][1]
        un = [e for e in s.events if e.name.split("::")[-1] == "under"]
        ag.put("record.activity==under(lm+lg)_of_that_species", len(un) == 1 and av is un[0].result and B.sympy_equal(un[0].args[0], tm.sym("L_lm", "R") + g("lg"))[0], (av, un))
        ag.put("record.marked_aqueous", tm.isnum(W["type"][0][1]) and W["type"][0][1].args[0] == AQv, W["type"][0][1])
    reach(r, "species_record", n, 1)
    # lm is the species' own log molality
    lmst = [x for x in A.walk(fn) if x.get("kind") == "BinaryOperator" and x.get("opcode") == "=" and strip(x["inner"][0]).get("kind") == "DeclRefExpr" and strip(x["inner"][0]).get("referencedDecl", {}).get("name") == "lm"]
    for x in lmst:
        f, ex, fin, info = region(TR, q, [x], ctx())
        for s in live(fin):
            ag.put("record.lm_is_read_from_the_species_of_this_pass", local(info, s, "lm") is tm.select(entry_arr(ex, s, ("f", "lm", "R")), sp), local(info, s, "lm"))
    # padding passes: a species absent from this cell enters with zero concentration
    npad = 0
    for k, lp in enumerate(lps):
        bt = body_text(lp)
        if lp.get("kind") != "ForStmt" or ".lm=min_dif_LM;" not in bt or "=sol_D[" not in bt or ".Dw=" in bt or [z for z in A.walk(lp["inner"][-1]) if z.get("kind") in LOOPK]:
            continue
        f, ex, its, info = U.run_loop_isolated(TR, q, k, ctx=ctx())
        for s in live(its, ("run", "cont")):
            wc = writes(s, ("f", "c", "R"))
            npad += 1
            ag.put("padding.absent_species_enters_with_concentration_0", bool(wc) and tm.isnum(wc[-1][1]) and wc[-1][1].args[0] == 0, wc)
    reach(r, "padding_passes", npad, 2)
    ag.flush()
    r.assumptions += ["under() and the record copy of the padding passes are opaque; mass_water_aq_x is the water mass of the solution equilibrated last (the cell fill_spec is called for)",
                      "diffusion coefficients of the record: C11.fill_spec.diffusion_coefficients_corrected_with_the_cell's_own_factors; exchange species (interlayer diffusion) are not under this contract",
                      "the statements are located by the fields of sol_D[..].spec[..] they assign from s_ptr"]
    return r


_UNITS = [
    ("C11.multi_D.negative_total_covered_once_from_the_other_states_of_the_same_element", unit_negative_repair),
    ("C11.multi_D.element_amount_applied_once_to_its_own_key_minus_tot1_plus_tot2", unit_apply_amounts),
    ("C11.init_mix.factor_with_the_higher_neighbour_equals_the_neighbour's_factor_with_the_lower_one", unit_init_mix_symmetry),
    ("C11.fill_m_s.element_amounts_are_coefficient_times_species_amount_on_both_sides", unit_fill_m_s_amounts),
    ("C11.diffuse_implicit.matrix_rows_sum_to_one_with_symmetric_couplings_and_transfers_use_the_same_factor", unit_implicit_matrix),
    ("C11.fill_spec.species_record_of_the_cell_from_one_species_c==moles_per_own_water", unit_fill_spec_record),
]

UNITS[:] = [(uid, fast_twin(f)) for uid, f in _UNITS]
import props.c11_ext as _E
if not getattr(getattr(_E, "__spec__", None), "_initializing", False) and hasattr(_E, "UNITS") and not any(u[0] == UNITS[0][0] for u in _E.UNITS):
    _E.UNITS = _E.UNITS + UNITS       # this module was imported first: props.c11_ext saw the empty list
