"""C17 extension units: BASIC statement executors of PBasic.cpp under contract (FOR entry, WHILE/WEND, IF, GOTO/GOSUB/RETURN, ON,
READ/DATA/RESTORE, DIM, PUT/GET, SAVE/PUNCH, LET, the exec dispatcher) and the helper routines their contracts rest on."""
from props import c17_ext_loops as L
from props import c17_ext_jumps as J
from props import c17_ext_helpers as H
from props import c17_ext_data as D
from props import c17_ext_out as O

UNITS = [
    ("C17.cmdfor.entry_stores_initial_value_and_pushes_the_FOR_record", L.unit_cmdfor_entry),
    ("C17.cmdfor.empty_range_skips_to_the_matching_NEXT", L.unit_cmdfor_scan),
    ("C17.cmdwhile.false_condition_skips_behind_the_matching_WEND", L.unit_cmdwhile),
    ("C17.skiploop.stops_behind_the_matching_closing_token", L.unit_skiploop),
    ("C17.cmdwend.returns_to_its_WHILE_and_reevaluates_the_condition", L.unit_cmdwend),
    ("C17.cmdif.false_condition_skips_to_its_ELSE_or_the_end_of_the_line", L.unit_cmdif),
    ("C17.iseos.end_of_statement_is_end_of_line_ELSE_or_colon", H.unit_iseos),
    ("C17.require.consumes_exactly_the_required_token_or_reports_an_error", H.unit_require),
    ("C17.skiptoeos.stops_at_the_first_end_of_statement", H.unit_skiptoeos),
    ("C17.errormsg.error_exits_never_return", H.unit_error_exits),
    ("C17.findline.first_line_with_that_number", J.unit_findline),
    ("C17.cmdgoto.target_line_found_by_number", J.unit_cmdgoto),
    ("C17.cmdgosub.pushes_a_return_record_then_jumps", J.unit_cmdgosub),
    ("C17.cmdreturn.pops_to_the_innermost_GOSUB_and_resumes_behind_it", J.unit_cmdreturn),
    ("C17.cmdon.GOTO_selects_the_ith_line_number", J.unit_cmdon_goto),
    ("C17.cmdon.GOSUB_pushes_a_return_record_exactly_when_it_jumps", J.unit_cmdon_gosub),
    ("C17.cmdread.takes_the_next_DATA_item_in_order", D.unit_cmdread),
    ("C17.cmddim.extents_are_bound_plus_1_and_all_elements_start_empty", D.unit_cmddim),
    ("C17.findvar.undimensioned_array_gets_extent_11_per_subscript", D.unit_findvar_implicit_dim),
    ("C17.cmdlet.value_stored_in_the_variable_named_on_the_left", D.unit_cmdlet),
    ("C17.put_get.same_subscripts_same_key_same_value", D.unit_put_get),
    ("C17.puts_gets.same_subscripts_same_key_same_string", D.unit_puts_gets),
    ("C17.factor.string_results_fit_their_buffers", D.unit_string_results_fit),
    ("C17.factor.variable_reference_reads_the_element_addressed", D.unit_factor_variable),
    ("C17.cmdpunch.each_item_goes_to_the_current_column_which_then_advances", O.unit_cmdpunch),
    ("C17.cmdsave.numeric_value_becomes_rate_moles", O.unit_cmdsave),
    ("C17.cmdprint.each_item_is_written_once_with_its_value", O.unit_cmdprint),
    ("C17.exec.every_statement_keyword_dispatches_to_its_own_command", O.unit_exec_dispatch),
]
from props.c17_ext2 import UNITS as _U2; UNITS = UNITS + _U2
from props.c17_ext5 import UNITS as _U5; UNITS = UNITS + _U5
