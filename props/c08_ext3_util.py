"""Shared by the C08 units of the third helper wave: a loop summary that keeps what a loop establishes when it is left.

The stock summary (`havoc_loop`) forgets everything a loop may write and assumes nothing about its exit.  Here the states BEHIND a loop are

   * (while / for) the entry state in which the condition is false at once,
   * every end-of-pass state of one ARBITRARY pass (iteration contract: locals the loop assigns and memory components it writes are arbitrary when
     the pass starts) in which the condition is false afterwards,
   * the `break` states of that pass,

so facts established by the last pass (a pointer tested, a block re-assigned) are known behind the loop.  This is an over-approximation of every
execution (any last pass starts in some state; the arbitrary one covers it).  The symbols that stand for the arbitrary pass (iter_*, Hiter.*)
are renamed to fresh ones when the pass is left, so that a later loop (or an enclosing pass) that uses the same names is independent of it."""
import copy, itertools
from props.common import *
from vf.astvc import symex as SX

_fc = itertools.count(1)


def _map_obj(x, sub):
    if isinstance(x, tm.T):
        return sub(x)
    if isinstance(x, list):
        return [_map_obj(y, sub) for y in x]
    if isinstance(x, tuple):
        return tuple(_map_obj(y, sub) for y in x)
    if isinstance(x, dict):
        return {k: _map_obj(v, sub) for k, v in x.items()}
    return x


def freshen(s, frame=None):
    """rename the iteration symbols of state s (in place): iter_<x> -> iter_<x>@k, Hiter.<c> -> Hiter@k.<c>; `frame` maps the pass-entry
    array of a component to a more precise term (see frame_of)"""
    k = next(_fc)
    mapping, cache = dict(frame or {}), {}
    def note(t):
        for y in tm.free_syms(t):
            nm = str(y.args[0])
            if y in mapping:
                continue
            if nm.startswith("iter_") and "@" not in nm:
                mapping[y] = tm.sym("%s@%d" % (nm, k), y.sort)
            elif nm.startswith("Hiter.") and "@" not in nm.split(".")[0]:
                mapping[y] = tm.sym("Hiter@%d.%s" % (k, nm[6:]), y.sort)
    def scan(x):
        if isinstance(x, tm.T):
            note(x)
        elif isinstance(x, (list, tuple)):
            for y in x:
                scan(y)
        elif isinstance(x, dict):
            for y in x.values():
                scan(y)
    scan(s.pc); scan(list(s.locals.values())); scan([v for v in s.heap.values() if v is not None]); scan(s.ret)
    for e in s.events:
        scan(e.recv); scan(list(e.args)); scan(e.result); scan(e.snap); scan(e.guard)
    if not mapping:
        return s
    sub = lambda t: tm.substitute(t, mapping, cache)
    s.pc = [sub(c) for c in s.pc]
    s.locals = {i: _map_obj(v, sub) for i, v in s.locals.items()}
    s.heap = {key: (sub(v) if v is not None else None) for key, v in s.heap.items()}
    if isinstance(s.ret, tm.T):
        s.ret = sub(s.ret)
    ne = []
    for e in s.events:
        e2 = copy.copy(e)
        e2.recv = _map_obj(e.recv, sub); e2.args = tuple(_map_obj(list(e.args), sub)); e2.result = _map_obj(e.result, sub)
        e2.snap = _map_obj(e.snap, sub); e2.guard = _map_obj(e.guard, sub)
        ne.append(e2)
    s.events = ne
    if getattr(s, "iter_entry_arrays", None) is not None:
        try:
            del s.iter_entry_arrays
        except AttributeError:
            pass
    return s


def _hiter_sym(key):
    if key[0] == "f":
        return tm.sym("Hiter.%s:%s" % (key[1], key[2]), ("A", "P", key[2])), key[2]
    if key[0] == "m2":
        return tm.sym("Hiter.%s:%s[%s]" % (key[1], key[2], key[3]), ("A", "P", key[3], key[2])), key[2]
    return tm.sym("Hiter.mem:%s" % (key[1],), ("A", "P", "I", key[1])), key[1]


def frame_of(ex, res):
    """which cells of the memory components written by the loop can differ from the loop-entry state when an arbitrary pass starts?  When every
    store of the pass (all paths) goes to a cell whose address does not change from pass to pass (no symbol of the pass in it), only those cells:
    the arbitrary pass-entry array Hiter.<c> is then  entry_array[cell_1 := fresh, .., cell_n := fresh].  Otherwise the component stays arbitrary."""
    out = {}
    written = set(getattr(ex, "iter_written", ()) or ())
    for key in written:
        targets, okk, entry = set(), True, None
        for s_ in res:
            ea = getattr(s_, "iter_entry_arrays", {}).get(key, ())
            if len(ea) != 1:
                okk = False; break
            entry = list(ea)[0]
            made = set(e.result for e in U.iter_events(s_) if isinstance(e.result, tm.T) and e.result.op == "sym")
            for idx, val in writes(s_, key):
                it = idx if isinstance(idx, tuple) else (idx,)
                for x in it:
                    if not isinstance(x, tm.T):
                        continue
                    for y in tm.free_syms(x):
                        nm = str(y.args[0])
                        if y in made or ((nm.startswith("iter_") or nm.startswith("Hiter.")) and "@" not in nm.split(".")[0]) or nm.startswith("havoc_") or nm.startswith("uninit_"):
                            okk = False
                targets.add(it)
            if not okk:
                break
        if okk and entry is not None and targets and len(targets) <= 8:
            hs, so = _hiter_sym(key)
            arr = entry
            for t in sorted(targets, key=repr):
                arr = tm.store(arr, t, SX.fresh("cell_after_passes", so))
            out[hs] = arr
    return out


def exact_exit_loop(collect, only=None):
    """loop handler: one arbitrary pass (its end states are appended to collect[ordinal]) and the exit states described in the module text.
    `only(node)` false -> the stock summary (pass recorded, everything the loop assigns arbitrary behind it)."""
    def h(ex, st, node, o):
        init, cond, inc, body = ex.loop_parts(node)
        freshen(st)             # the names of an enclosing pass are kept apart from the names of this loop's pass
        if node.get("kind") == "DoStmt" and cond is not None:
            # a later pass of a do-while starts where the previous one found the condition true: assumed as a formula, WITHOUT the events an
            # evaluation of the condition at the start of the pass would leave (it is evaluated at the END of a pass, see below)
            def prep(ex_, s_):
                alts = []
                n0 = len(s_.pc)
                ne = len(s_.events)
                for s2, v in ex_.ev(cond, s_.clone()):
                    # pointers the condition dereferences were not NULL when the previous pass evaluated it (that evaluation, at the end of
                    # the pass, carries its own null-dereference obligations: assume-guarantee over the passes)
                    nn = [tm.not_(tm.eq(e.recv, tm.num(0, "P"))) for e in s2.events[ne:] if e.name == "deref" and isinstance(e.recv, tm.T)]
                    alts.append(tm.and_(*(list(s2.pc[n0:]) + [tm.to_bool(v)] + nn)))
                if alts:
                    s_.assume(tm.or_(*alts) if len(alts) > 1 else alts[0])
            res = ex.iterate_loop(node, st.clone(), assume_cond=False, prepare=prep)
        else:
            res = ex.iterate_loop(node, st.clone())
        collect.setdefault(o, []).extend(res)
        if only is not None and not only(node):
            return ex.havoc_loop(node, st)
        try:
            frame = frame_of(ex, res)
        except Exception:
            frame = {}
        out = []
        if node.get("kind") == "DoStmt":
            # the engine's pass assumes the loop condition when the pass starts: true for every pass but the FIRST one of a do-while,
            # which starts in the loop-entry state itself: executed here as it stands
            s1 = st.clone()
            s1.events.append(SX.Event("iter_begin", None, [], tm.num(0, "I")))
            first = ex.exec(body, [s1])
            collect.setdefault(o, []).extend(first)
            for s in first:
                if s.status == "dead":
                    continue
                s = s.clone()
                if s.status == "brk":
                    s.status = "run"; out.append(s); continue
                if s.status not in ("run", "cont"):
                    out.append(s); continue
                s.status = "run"
                if cond is None:
                    continue
                for s2, v in ex.ev(cond, s):
                    if s2.assume(tm.not_(tm.to_bool(v))):
                        out.append(s2)
        if node.get("kind") != "DoStmt":
            s0s = [st]
            if init is not None:
                s0s = ex.exec(init, s0s)
            for s in s0s:
                if s.status != "run":
                    out.append(s); continue
                if cond is None:
                    continue
                for s2, v in ex.ev(cond, s):
                    if s2.assume(tm.not_(tm.to_bool(v))):
                        out.append(s2)
        for s in res:
            if s.status == "dead":
                continue
            s = s.clone()
            if s.status == "brk":
                s.status = "run"
                out.append(freshen(s, frame)); continue
            if s.status not in ("run", "cont"):
                out.append(freshen(s, frame)); continue           # return / throw / goto leave the function (or jump) from inside the pass
            s.status = "run"
            ss = [s]
            if inc is not None:
                ss = [s2 for s2, _ in ex.ev(inc, s)]
            for s1 in ss:
                if cond is None:
                    continue
                for s2, v in ex.ev(cond, s1):
                    if s2.assume(tm.not_(tm.to_bool(v))):
                        out.append(freshen(s2, frame))
        return out
    return h
