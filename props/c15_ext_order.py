"""C15 (extension): order-independent storage.  The comparison functions handed to qsort / bsearch (structures.cpp) are strict weak orders on the
intended key, so that the sorted lists (and every binary search in them) do not depend on the order in which the user defined the entries;
the search comparator of a list orders by the same key and the same string order as the comparator the list was sorted with."""
from props.common import *
from vf.core import FAILED, DISCHARGED, UNDECIDED

ST = "src/phreeqcpp/structures.cpp"
P1, P2, P3 = tm.sym("P0_ptr1", "P"), tm.sym("P1_ptr2", "P"), tm.sym("P2_ptr3", "P")
STRF = ("strcmp", "strcmp_nocase", "strncmp")
# function -> (fields the key is made of, textual description of the key)
SPEC = {"element_compare": ({"mem", "name"}, "(*p)->name"),
        "elt_list_compare": ({"elt", "name"}, "p->elt->name"),
        "inverse_compare": ({"n_user"}, "p->n_user"),
        "master_compare": ({"mem", "elt", "name"}, "(*p)->elt->name"),
        "rate_compare": ({"mem", "name"}, "(*p)->name"),
        "s_compare": ({"mem", "name"}, "(*p)->name"),
        "isotope_compare": ({"elt_name", "isotope_number"}, "(p->elt_name, p->isotope_number)"),
        "inverse_isotope_compare": ({"elt_name", "isotope_number"}, "(p->elt_name, p->isotope_number)"),
        "trxn_compare": ({"name"}, "p->name")}


def ret_term(fin):
    """the return value as one term of the two arguments: nested ite over the path conditions"""
    sts = [s for s in fin if s.status == "ret" and B.z3_sat(list(s.pc)) != "unsat"]
    if not sts:
        raise Undecided("no returning path")
    t = sts[-1].ret
    for s in reversed(sts[:-1]):
        t = tm.ite(tm.and_(*s.pc) if s.pc else tm.TRUE, s.ret, t)
    return t, sts


def str_apps(t):
    return [x for x in tm.subterms(t) if x.op == "app" and isinstance(x.args[0], str) and x.args[0].startswith("call:") and x.args[0][5:] in STRF]


def fields_of(t):
    out = set()
    for x in tm.subterms(t):
        if x.op == "sym" and x.args[0].startswith("H0."):
            out.add(x.args[0][3:].split(":")[0])
    return out


def order_axioms(f, extra, keys):
    """instances, for the key terms that occur, of: the string comparison f is a total preorder (sign-antisymmetric, reflexive, transitive)"""
    ap = lambda x, y: tm.app(f, (tm.NULL, x, y) + tuple(extra), "I")
    Z = tm.num(0, "I")
    ax = []
    for x in keys:
        ax.append(tm.eq(ap(x, x), Z))
        for y in keys:
            if x is y:
                continue
            ax.append(tm.and_(tm.or_(tm.not_(tm.lt(ap(x, y), Z)), tm.lt(Z, ap(y, x))), tm.or_(tm.not_(tm.lt(Z, ap(y, x))), tm.lt(ap(x, y), Z)),
                              tm.or_(tm.not_(tm.eq(ap(x, y), Z)), tm.eq(ap(y, x), Z))))
            for z in keys:
                if z is x or z is y:
                    continue
                le = lambda a, b: tm.le(ap(a, b), Z)
                ax.append(tm.or_(tm.not_(le(x, y)), tm.not_(le(y, z)), le(x, z)))
                ax.append(tm.or_(tm.not_(tm.lt(ap(x, y), Z)), tm.not_(le(y, z)), tm.lt(ap(x, z), Z)))
                ax.append(tm.or_(tm.not_(le(x, y)), tm.not_(tm.lt(ap(y, z), Z)), tm.lt(ap(x, z), Z)))
    return ax


def unit_comparators(twin=False):
    fn0 = A.find_function(ST, "Phreeqc::master_compare")
    r = U.new_unit("C15.compare_functions.strict_weak_orders_on_the_intended_key", ST, "Phreeqc::*_compare", fn0)
    Z = tm.num(0, "I")
    n = 0
    rets = {}
    for nm, (allowed, keytxt) in sorted(SPEC.items()):
        q = "Phreeqc::" + nm
        try:
            c = ctx(functional=STRF)
            f, ex, fin, info = U.run_function(ST, q, ctx=c, default="havoc")
            R, sts = ret_term(fin)
        except Undecided as e:
            r.add("%s.executed" % nm, UNDECIDED, "symex", 0, str(e)[:200]); continue
        n += 1
        rets[nm] = R
        sw = {P1: P2, P2: P1}
        Rab, Rba = R, tm.substitute(R, sw)
        Rbc, Rac = tm.substitute(R, {P1: P2, P2: P3}), tm.substitute(R, {P2: P3})
        apps = str_apps(R)
        ax = []
        if apps:
            a0 = apps[0]
            f_, x, y, extra = a0.args[0], a0.args[2], a0.args[3], a0.args[4:]
            same_field = tm.substitute(x, {P1: P2}) is y
            r.add("%s.compares_the_same_field_of_both_records" % nm, DISCHARGED if same_field and all(a.args[0] == f_ and a.args[2] is x and a.args[3] is y for a in apps) else FAILED, "symex", 0, "%r vs %r" % (x, y), kind="pairing")
            keys = [x, y, tm.substitute(x, {P1: P3})]
            ax = order_axioms(f_, extra, keys)
        used = fields_of(R)
        r.add("%s.depends_only_on_the_key_%s" % (nm, keytxt), DISCHARGED if used <= allowed and (used & allowed) else FAILED, "symex", 0, "fields read: %r" % sorted(used), kind="frame")
        sgn_anti = tm.and_(tm.or_(tm.not_(tm.lt(Rab, Z)), tm.lt(Z, Rba)), tm.or_(tm.not_(tm.lt(Z, Rba)), tm.lt(Rab, Z)), tm.or_(tm.not_(tm.eq(Rab, Z)), tm.eq(Rba, Z)), tm.or_(tm.not_(tm.eq(Rba, Z)), tm.eq(Rab, Z)))
        if twin and nm == "inverse_compare":
            sgn_anti = tm.or_(tm.not_(tm.lt(Rab, Z)), tm.lt(Rba, Z))
        U.discharge_valid(r, "%s.antisymmetric(sign(cmp(a,b))==-sign(cmp(b,a)))" % nm, ax, sgn_anti)
        U.discharge_valid(r, "%s.transitive(a<b,b<c=>a<c)" % nm, ax, tm.or_(tm.not_(tm.lt(Rab, Z)), tm.not_(tm.lt(Rbc, Z)), tm.lt(Rac, Z)))
        U.discharge_valid(r, "%s.equivalence_transitive(a~b,b~c=>a~c)" % nm, ax, tm.or_(tm.not_(tm.eq(Rab, Z)), tm.not_(tm.eq(Rbc, Z)), tm.eq(Rac, Z)))
        U.discharge_valid(r, "%s.ties_order_consistently(a~b,b<c=>a<c)" % nm, ax, tm.or_(tm.not_(tm.eq(Rab, Z)), tm.not_(tm.lt(Rbc, Z)), tm.lt(Rac, Z)))
        # equivalent records agree on every numeric part of the key
        for fld_ in sorted(allowed & {"n_user", "isotope_number"}):
            sort = "I" if fld_ == "n_user" else "R"
            ka = tm.select(tm.sym("H0.%s:%s" % (fld_, sort), ("A", "P", sort)), P1); kb = tm.select(tm.sym("H0.%s:%s" % (fld_, sort), ("A", "P", sort)), P2)
            U.discharge_valid(r, "%s.equal_rank_only_for_equal_%s" % (nm, fld_), ax, tm.or_(tm.not_(tm.eq(Rab, Z)), tm.eq(ka, kb)))
    r.add("reach.comparators", DISCHARGED if n >= 8 else UNDECIDED, "symex", 0, "%d of %d" % (n, len(SPEC)), kind="vacuity")
    # the search comparator of the master list uses the order the list was sorted with
    try:
        c = ctx(functional=STRF)
        f, ex, fin, info = U.run_function(ST, "Phreeqc::master_compare_string", ctx=c, default="havoc")
        Rs, _ = ret_term(fin)
        a_s, a_m = str_apps(Rs), str_apps(rets.get("master_compare", tm.num(0, "I")))
        ok = len(a_s) == 1 and len(a_m) == 1 and a_s[0].args[0] == a_m[0].args[0] and a_s[0].args[2] is P1 and a_s[0].args[3] is a_m[0].args[3]
        r.add("master_bsearch.search_key_compared_with_the_sort_key_by_the_sort's_string_order", DISCHARGED if ok else FAILED, "symex", 0, "%r / %r" % (a_s, a_m), kind="pairing")
    except Undecided as e:
        r.add("master_compare_string.executed", UNDECIDED, "symex", 0, str(e)[:200])
    # the sort and the search of the master list name these two comparators
    TIDY = "src/phreeqcpp/tidy.cpp"
    tt = text_of(TIDY, A.find_function(TIDY, "Phreeqc::tidy_model"))
    r.add("tidy_model.master_list_sorted_with_master_compare_over_its_whole_length", DISCHARGED if "qsort(&master[0],master.size(),sizeof(classmaster*),master_compare)" in tt else FAILED, "syntactic", 0, "", kind="structural")
    tb = text_of(ST, A.find_function(ST, "Phreeqc::master_bsearch"))
    r.add("master_bsearch.searches_the_whole_list_with_master_compare_string", DISCHARGED if tb.count("master_compare_string") >= 1 and "master.size()" in tb else FAILED, "syntactic", 0, "", kind="structural")
    r.assumptions += ["strcmp / strcmp_nocase / strncmp are total preorders on strings (sign-antisymmetric, reflexive, transitive): instances for the key terms are given to the solver as axioms",
                      "the reinterpreting casts of the void* arguments are read as the typed accesses the clang AST shows", "two text anchors: the qsort call of tidy_model and the bsearch of master_bsearch",
                      "species_list_compare (print order only) and phase_compare are not under this contract"]
    return r


UNITS = [("C15.compare_functions.strict_weak_orders_on_the_intended_key", unit_comparators)]
