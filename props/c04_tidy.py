"""C04: what a simulation re-resolves depends on the keywords it contains, not on where the input was cut:
in Phreeqc::tidy_model every step that binds names to the species/phase tables runs whenever those tables were rebuilt (new_model)."""
from props.common import *
from vf.core import FAILED, DISCHARGED, UNDECIDED

TIDY = "src/phreeqcpp/tidy.cpp"
Q = "Phreeqc::tidy_model"
REBIND = ["tidy_surface", "tidy_pp_assemblage", "tidy_ss_assemblage", "tidy_punch", "tidy_isotope_ratios", "tidy_isotope_alphas"]


def unit_tidy_model(twin=False):
    fn = A.find_function(TIDY, Q)
    r = U.new_unit("C04.tidy_model.rebinds_after_model_change", TIDY, Q, fn)
    body = A.body_of(fn).get("inner", [])
    want = list(REBIND) + (["tidy_gas_phase"] if twin else [])
    for callee in want:
        guards = [x for x in body if x.get("kind") == "IfStmt" and any(
            y.get("kind") == "CXXMemberCallExpr" and strip(y["inner"][0]).get("name") == callee for y in A.walk(x["inner"][1]))]
        if not guards:
            # unguarded call at top level is fine as well
            if any(x.get("kind") == "CXXMemberCallExpr" and strip(x["inner"][0]).get("name") == callee for x in body):
                r.add("%s.runs_when_model_changed" % callee, DISCHARGED, "syntactic", 0, "called unconditionally"); continue
            r.add("%s.runs_when_model_changed" % callee, FAILED, "syntactic", 0, "no top-level call of %s in tidy_model" % callee); continue
        ok = False
        for g in guards:
            c = ctx(functional=("get_input_errors",))
            f, ex, fin, info = region(TIDY, Q, [g], c)
            allp = True; n = 0
            for s in live(fin, ("run", "ret")):
                nm = fld0(ex, s, "new_model", "I")
                errs = [e.result for e in s.events if e.name.endswith("get_input_errors")]
                hyp = [tm.not_(tm.eq(nm, tm.num(0, "I")))] + [tm.eq(e, tm.num(0, "I")) for e in errs]
                if B.z3_sat(list(s.pc) + hyp) == "unsat":
                    continue
                n += 1
                if not any(e.name.endswith("::" + callee) or e.name == callee for e in s.events):
                    allp = False
            if n and allp:
                ok = True
        r.add("%s.runs_when_model_changed" % callee, DISCHARGED if ok else FAILED, "symex+z3", 0,
              "every path with new_model set (and no input errors) calls it" if ok else "a path with new_model set skips %s" % callee)
    r.assumptions += ["the set of re-binding steps is the one the current tree guards with new_model; their bodies are not under this contract",
                      "new_model itself is set from the keyword counts (not pinned here)"]
    return r
