"""C04: what a simulation re-resolves depends on the keywords it contains, not on where the input was cut:
in Phreeqc::tidy_model every step that binds names to the species/phase tables runs whenever those tables were rebuilt (new_model)."""
from props.common import *
from vf.core import FAILED, DISCHARGED, UNDECIDED

TIDY = "src/phreeqcpp/tidy.cpp"
Q = "Phreeqc::tidy_model"
REBIND = ["tidy_surface", "tidy_pp_assemblage", "tidy_ss_assemblage", "tidy_punch", "tidy_isotope_ratios", "tidy_isotope_alphas"]


def unit_tidy_model(twin=False):
    fn = A.find_function(TIDY, Q)
    r = U.new_unit("C04.tidy_model.rebinds_after_model_change", TIDY, Q, fn)
    body = A.body_of(fn).get("inner", [])
    want = list(REBIND) + (["tidy_gas_phase"] if twin else [])
    for callee in want:
        guards = [x for x in body if x.get("kind") == "IfStmt" and any(
            y.get("kind") == "CXXMemberCallExpr" and strip(y["inner"][0]).get("name") == callee for y in A.walk(x["inner"][1]))]
        if not guards:
            # unguarded call at top level is fine as well
            if any(x.get("kind") == "CXXMemberCallExpr" and strip(x["inner"][0]).get("name") == callee for x in body):
                r.add("%s.runs_when_model_changed" % callee, DISCHARGED, "syntactic", 0, "called unconditionally"); continue
            r.add("%s.runs_when_model_changed" % callee, FAILED, "syntactic", 0, "no top-level call of %s in tidy_model" % callee); continue
        ok = False
        for g in guards:
            c = ctx(functional=("get_input_errors",))
            f, ex, fin, info = region(TIDY, Q, [g], c)
            allp = True; n = 0
            for s in live(fin, ("run", "ret")):
                nm = fld0(ex, s, "new_model", "I")
                errs = [e.result for e in s.events if e.name.endswith("get_input_errors")]
                hyp = [tm.not_(tm.eq(nm, tm.num(0, "I")))] + [tm.eq(e, tm.num(0, "I")) for e in errs]
                if B.z3_sat(list(s.pc) + hyp) == "unsat":
                    continue
                n += 1
                if not any(e.name.endswith("::" + callee) or e.name == callee for e in s.events):
                    allp = False
            if n and allp:
                ok = True
        r.add("%s.runs_when_model_changed" % callee, DISCHARGED if ok else FAILED, "symex+z3", 0,
              "every path with new_model set (and no input errors) calls it" if ok else "a path with new_model set skips %s" % callee)
    r.assumptions += ["the set of re-binding steps is the one the current tree guards with new_model; their bodies are not under this contract",
                      "new_model itself is set from the keyword counts (not pinned here)"]
    return r


def unit_no_call_local_keys(twin=False):
    """What a later block inherits must not depend on where the input was cut: the engine's only per-call counter is `simulation`
    (it restarts at 1 in every Run* call); apart from recognising the DATABASE keyword of a file's first simulation, no decision of
    the engine compares it with a constant (retention of TRANSPORT / ADVECTION definitions is keyed on the per-instance counters)."""
    import re, glob, os
    from vf.core import REPO
    r = U.new_unit("C04.engine.no_decision_keyed_on_the_per_call_simulation_number", "src/phreeqcpp/readtr.cpp", "Phreeqc::read_transport", None, kind="structural")
    allowed = {("tidy.cpp", "simulation==0")}
    if twin:
        allowed = set()
    hits = []
    for path in sorted(glob.glob(os.path.join(REPO, "src/phreeqcpp/*.cpp")) + glob.glob(os.path.join(REPO, "src/phreeqcpp/*.cxx"))):
        txt = open(path, encoding="latin1").read()
        txt = re.sub(r"/\*.*?\*/", lambda m: " " * len(m.group(0)), txt, flags=re.S)
        for k, line in enumerate(txt.split("\n")):
            code = line.split("//")[0]
            for m in re.finditer(r"(?<![\w\.>])simulation\s*(==|!=|<=|>=|<|>)\s*(\d+)", code):
                hits.append((os.path.basename(path), k + 1, "simulation%s%s" % (m.group(1), m.group(2))))
    bad = [h for h in hits if (h[0], h[2]) not in allowed]
    r.add("per_call_counter_compared_with_a_constant_only_for_the_DATABASE_keyword", DISCHARGED if not bad else FAILED, "syntactic", 0,
          "comparisons found: %r" % (hits,))
    r.add("reach.scan", DISCHARGED if hits else UNDECIDED, "syntactic", 0, "%d comparison(s) in the engine sources" % len(hits), kind="vacuity")
    r.assumptions += ["text scan of src/phreeqcpp (comments removed); loop headers `for (simulation = 1;; simulation++)` are not comparisons with a constant"]
    return r
