"""C05 (Engine B part): CSelectedOutput table discipline against the representation invariant WF:
|m_arrayVar| = |m_vecVarHeadings|, every column has m_nRowCount or m_nRowCount + 1 cells."""
from vf import core
from vf.core import Undecided, FAILED, DISCHARGED, UNDECIDED
from vf.astvc import ast as A, terms as tm, unit as U, backends as B, stl as STLM
from vf.astvc import symex as SX

CSO = "src/CSelectedOutput.cpp"
THIS = tm.sym("this", "P")
VR = {"VR_OK": 0, "VR_OUTOFMEMORY": -1, "VR_BADVARTYPE": -2, "VR_INVALIDARG": -3, "VR_INVALIDROW": -4, "VR_INVALIDCOL": -5}
TT = {"TT_EMPTY": 0, "TT_ERROR": 1, "TT_LONG": 2, "TT_DOUBLE": 3, "TT_STRING": 4}


def mkctx():
    ctx = SX.Ctx(); ctx.stl = STLM.STL(SX)
    ctx.enum_values.update(VR); ctx.enum_values.update(TT)
    ctx.functional.update({"GetColCount", "GetRowCount"})
    ctx.pure.update({"VarClear", "VarCopy", "VarInit", "CVar::operator="})
    ctx.log_stores = True
    return ctx


def vec(ex, s, name):
    a = tm.app("fld:" + name, (THIS,), "P")
    return a, tm.select(ex.heap_arr(s, ("f", "#vsize", "I")), a), tm.select(ex.heap_arr(s, ("f", "#vdata", "P")), a)


def unit_counts(twin=False):
    r = None
    fn = A.find_function(CSO, "CSelectedOutput::GetRowCount")
    r = U.new_unit("C05.table.GetRowCount_GetColCount", CSO, "CSelectedOutput::GetRowCount/GetColCount", fn)
    # GetColCount = number of headings
    fc = A.find_function(CSO, "CSelectedOutput::GetColCount")
    ctx = mkctx(); ctx.functional.clear()
    ex = SX.Exec(ctx); finals = ex.run(fc, SX.State())
    for s in finals:
        _, hs, _ = vec(ex, s, "m_vecVarHeadings")
        U.discharge_valid(r, "GetColCount==number_of_headings", list(s.pc), tm.eq(ex.coerce(s.ret, "I"), hs))
    # GetRowCount = cols ? rows + 1 : 0     (GetColCount by its contract above)
    ctx = mkctx()
    ex = SX.Exec(ctx); finals = ex.run(fn, SX.State())
    cols = tm.app("call:GetColCount", (THIS,), "I")
    rows = tm.select(tm.sym("H0.m_nRowCount:I", ("A", "P", "I")), THIS)
    for i, s in enumerate(finals):
        want = tm.ite(tm.not_(tm.eq(cols, tm.num(0, "I"))), tm.add(rows, tm.num(1 if not twin else 2, "I")), tm.num(0, "I"))
        U.discharge_valid(r, "GetRowCount==(cols?rows+1:0)[path %d]" % i, list(s.pc), tm.eq(ex.coerce(s.ret, "I"), want))
        r.add("GetRowCount.frame_nothing_written[path %d]" % i, DISCHARGED if not [e for e in s.events if e.name == "store"] else FAILED, "trace", 0, "", kind="frame")
    return r


def unit_get(twin=False):
    """Get(nRow, nCol, pVAR): out-of-range row/column -> VR_INVALIDROW / VR_INVALIDCOL returned and stored in an error-typed VAR;
    row 0 -> copy of heading nCol; else copy of cell (nRow-1, nCol); the table is not written; no vector index out of range."""
    fn = A.find_function(CSO, "CSelectedOutput::Get", nparams=3)
    r = U.new_unit("C05.table.Get", CSO, "CSelectedOutput::Get(int,int,VAR*)", fn)
    ctx = mkctx()
    ex = SX.Exec(ctx); st = SX.State()
    finals = ex.run(fn, st)
    nRow, nCol, pV = tm.sym("P0_nRow", "I"), tm.sym("P1_nCol", "I"), tm.sym("P2_pVAR", "P")
    colc = tm.app("call:GetColCount", (THIS,), "I")
    rowc = tm.app("call:GetRowCount", (THIS,), "I")
    cases = set()
    for i, s in enumerate(finals):
        if s.status != "ret":
            r.add("path%d.returns" % i, FAILED, "symex", 0, s.status); continue
        a_arr, a_sz, a_data = vec(ex, s, "m_arrayVar")
        h_arr, h_sz, h_data = vec(ex, s, "m_vecVarHeadings")
        rows = tm.select(ex.heap_arr(s, ("f", "m_nRowCount", "I")), THIS)
        # contracts of the callees + representation invariant instantiated at nCol
        col_addr = tm.T("+", (a_data, nCol), "P") if not (tm.isnum(nCol)) else a_data
        csz = tm.select(ex.heap_arr(s, ("f", "#vsize", "I")), col_addr)
        WF = [tm.eq(colc, h_sz), tm.eq(a_sz, h_sz), tm.eq(rowc, tm.ite(tm.eq(colc, tm.num(0, "I")), tm.num(0, "I"), tm.add(rows, tm.num(1, "I")))),
              tm.le(tm.num(0, "I"), rows), tm.le(tm.num(0, "I"), h_sz),
              tm.implies(tm.and_(tm.le(tm.num(0, "I"), nCol), tm.lt(nCol, a_sz)), tm.and_(tm.le(rows, csz), tm.le(csz, tm.add(rows, tm.num(1, "I")))))]
        hyps = list(s.pc) + WF
        evs = [e for e in s.events if e.name not in ("store", "CSelectedOutput::GetColCount", "CSelectedOutput::GetRowCount")]
        stores = [e for e in s.events if e.name == "store"]
        vc = [e for e in evs if e.name == "VarClear"]
        if not vc or vc[0].args[0] is not pV:
            r.add("path%d.clears_pVAR_first" % i, FAILED, "trace", 0, repr(evs)[:200]); continue
        bad = B.z3_prove(hyps, tm.eq(ex.coerce(vc[0].result, "I"), tm.num(VR["VR_BADVARTYPE"], "I")))[0] == "proved"
        row_bad = tm.or_(tm.lt(nRow, tm.num(0, "I")), tm.le(rowc, nRow))
        col_bad = tm.or_(tm.lt(nCol, tm.num(0, "I")), tm.le(colc, nCol))
        def proved(c): return B.z3_prove(hyps, c)[0] == "proved"
        # frame: only *pVAR is written
        fr = [e for e in stores if e.recv is not pV]
        if bad:
            case = "bad_var"
            U.discharge_valid(r, "bad_var.returns_VR_BADVARTYPE[%d]" % i, hyps, tm.eq(ex.coerce(s.ret, "I"), tm.num(VR["VR_BADVARTYPE"], "I")))
        elif proved(row_bad):
            case = "row_out_of_range"
            U.discharge_valid(r, "%s.returns_VR_INVALIDROW[%d]" % (case, i), hyps, tm.eq(ex.coerce(s.ret, "I"), tm.num(VR["VR_INVALIDROW"] if not twin else VR["VR_INVALIDCOL"], "I")))
            ty = tm.select(ex.heap_arr(s, ("f", "type", "I")), pV); vr = tm.select(ex.heap_arr(s, ("f", "vresult", "I")), pV)
            U.discharge_valid(r, "%s.pVAR_is_TT_ERROR/VR_INVALIDROW[%d]" % (case, i), hyps, tm.and_(tm.eq(ty, tm.num(TT["TT_ERROR"], "I")), tm.eq(vr, tm.num(VR["VR_INVALIDROW"], "I"))))
        elif proved(tm.and_(tm.not_(row_bad), col_bad)):
            case = "col_out_of_range"
            U.discharge_valid(r, "%s.returns_VR_INVALIDCOL[%d]" % (case, i), hyps, tm.eq(ex.coerce(s.ret, "I"), tm.num(VR["VR_INVALIDCOL"], "I")))
            ty = tm.select(ex.heap_arr(s, ("f", "type", "I")), pV); vr = tm.select(ex.heap_arr(s, ("f", "vresult", "I")), pV)
            U.discharge_valid(r, "%s.pVAR_is_TT_ERROR/VR_INVALIDCOL[%d]" % (case, i), hyps, tm.and_(tm.eq(ty, tm.num(TT["TT_ERROR"], "I")), tm.eq(vr, tm.num(VR["VR_INVALIDCOL"], "I"))))
        elif proved(tm.and_(tm.not_(row_bad), tm.not_(col_bad))):
            cp = [e for e in evs if e.name == "VarCopy"]
            if len(cp) != 1 or cp[0].args[0] is not pV:
                r.add("in_range.one_VarCopy_into_pVAR[%d]" % i, FAILED, "trace", 0, repr(evs)[:200]); continue
            src = cp[0].args[1]
            if proved(tm.eq(nRow, tm.num(0, "I"))):
                case = "heading_row"
                want = tm.T("+", (h_data, nCol), "P")
                U.discharge_valid(r, "%s.copies_heading_nCol[%d]" % (case, i), hyps, tm.eq(src, want))
            else:
                case = "data_row"
                cdata = tm.select(ex.heap_arr(s, ("f", "#vdata", "P")), col_addr)
                want = tm.T("+", (cdata, tm.sub(nRow, tm.num(1, "I"))), "P")
                U.discharge_valid(r, "%s.copies_cell(nRow-1,nCol)[%d]" % (case, i), hyps, tm.eq(src, want))
            U.discharge_valid(r, "%s.returns_VarCopy_result[%d]" % (case, i), hyps, tm.eq(ex.coerce(s.ret, "I"), ex.coerce(cp[0].result, "I")))
        else:
            r.add("path%d.case_of_contract" % i, FAILED, "z3-5.1", 0, "path decides no case: %r" % (s.pc,)); continue
        cases.add(case)
        r.add("%s.table_unchanged(frame_*pVAR_only)[%d]" % (case, i), DISCHARGED if not fr else FAILED, "trace", 0, repr(fr)[:160], kind="frame")
    # vector accesses in range under WF
    for k, (what, pc, ob) in enumerate(ctx.stl.side):
        # re-instantiate WF for this pc (heap unchanged by pure calls)
        s0 = SX.State(); s0.pc = list(pc)
        a_arr, a_sz, a_data = vec(ex, s0, "m_arrayVar"); h_arr, h_sz, h_data = vec(ex, s0, "m_vecVarHeadings")
        rows = tm.select(ex.heap_arr(s0, ("f", "m_nRowCount", "I")), THIS)
        col_addr = tm.T("+", (a_data, nCol), "P")
        csz = tm.select(ex.heap_arr(s0, ("f", "#vsize", "I")), col_addr)
        WF = [tm.eq(colc, h_sz), tm.eq(a_sz, h_sz), tm.eq(rowc, tm.ite(tm.eq(colc, tm.num(0, "I")), tm.num(0, "I"), tm.add(rows, tm.num(1, "I")))),
              tm.le(tm.num(0, "I"), rows), tm.and_(tm.le(rows, csz), tm.le(csz, tm.add(rows, tm.num(1, "I"))))]
        U.discharge_valid(r, "index_in_range.%d(%s)" % (k, what), list(pc) + WF, ob, kind="safety")
    need = {"row_out_of_range", "col_out_of_range", "heading_row", "data_row", "bad_var"}
    r.add("reach.all_cases", DISCHARGED if need <= cases else UNDECIDED, "symex", 0, "cases %s" % sorted(cases), kind="vacuity")
    r.assumptions += ["representation invariant WF assumed on entry (kept by EndRow / PushBack / Clear: units C05.table.EndRow, C05.table.PushBack)",
                      "::VarClear / ::VarCopy by their contracts (Engine A units C05.Var.*); GetRowCount/GetColCount by unit C05.table.GetRowCount_GetColCount",
                      "data_row: the cell copied must exist: nRow-1 < column size needs nRow <= m_nRowCount which is GetRowCount's bound"]
    return r


def unit_endrow(twin=False):
    """EndRow: iteration contract on the column loop.  With WF before: m_nRowCount' = m_nRowCount + 1 iff there are columns;
    column c: size' = m_nRowCount' (short columns are padded by resize = default-constructed, i.e. TT_EMPTY, cells;
    full columns are untouched); nothing else is written."""
    fn = A.find_function(CSO, "CSelectedOutput::EndRow")
    r = U.new_unit("C05.table.EndRow", CSO, "CSelectedOutput::EndRow", fn)
    ctx = mkctx(); ctx.log_stores = False
    fn, ex, iters, info = U.run_loop_isolated(CSO, "CSelectedOutput::EndRow", 0, ctx=ctx)
    n = 0
    for s in iters:
        if s.status not in ("run", "cont", "brk"):
            continue
        n += 1
        col = U.local_of(info, s, "col")
        a_arr, a_sz, a_data = vec(ex, s, "m_arrayVar")
        rows1 = tm.select(ex.heap_arr(s, ("f", "m_nRowCount", "I")), THIS)     # already incremented before the loop
        caddr = tm.T("+", (a_data, col), "P")
        base = s.iter_entry_arrays.get(("f", "#vsize", "I"))
        size_pre = tm.select(tm.sym("Hiter.#vsize:I", ("A", "P", "I")), caddr) if ("f", "#vsize", "I") in getattr(ex, "iter_written", ()) else tm.select(ex.heap_arr(s, ("f", "#vsize", "I")), caddr)
        size_post = tm.select(s.heap.get(("f", "#vsize", "I"), ex.heap_arr(s, ("f", "#vsize", "I"))), caddr)
        # WF at loop entry for this column, in terms of the incremented counter: size in {rows1-1, rows1}
        WF = [tm.le(tm.sub(rows1, tm.num(1, "I")), size_pre), tm.le(size_pre, rows1), tm.le(tm.num(1, "I"), rows1)]
        hyps = list(s.pc) + WF
        U.discharge_valid(r, "column.size'==m_nRowCount'[path %d]" % n, hyps, tm.eq(size_post, rows1 if not twin else tm.add(rows1, tm.num(1, "I"))))
        rs = [e for e in U.iter_events(s) if e.name == "vector.resize"]
        short = B.z3_prove(hyps, tm.lt(size_pre, rows1))[0] == "proved"
        if short:
            ok = len(rs) == 1 and rs[0].recv is caddr
            r.add("short_column.padded_by_resize(default=TT_EMPTY cells)[path %d]" % n, DISCHARGED if ok else FAILED, "trace", 0, repr(rs)[:120], kind="trace")
        else:
            r.add("full_column.untouched[path %d]" % n, DISCHARGED if not rs and not U.iter_writes(s) else FAILED, "trace", 0, repr(rs)[:120], kind="frame")
        bad = [(k, i) for (k, i, v) in U.iter_writes(s) if not (k[1] == "#vsize" and i[0] is caddr)]
        r.add("frame.only_this_column[path %d]" % n, DISCHARGED if not bad else FAILED, "term-inspection", 0, repr(bad)[:150], kind="frame")
    r.add("reach.paths", DISCHARGED if n >= 2 else UNDECIDED, "symex", 0, "%d" % n, kind="vacuity")
    # the statements before the loop: counter incremented exactly when there are columns; result 0
    ctx2 = mkctx(); ctx2.log_stores = False
    ctx2.loop = lambda ex_, st, node, o: [st]
    ex2 = SX.Exec(ctx2); finals = ex2.run(fn, SX.State())
    rows0 = tm.select(tm.sym("H0.m_nRowCount:I", ("A", "P", "I")), THIS)
    cols = tm.app("call:GetColCount", (THIS,), "I")
    for i, s in enumerate(finals):
        rows = tm.select(ex2.heap_arr(s, ("f", "m_nRowCount", "I")), THIS)
        U.discharge_valid(r, "m_nRowCount'==m_nRowCount+(cols?1:0)[path %d]" % i, list(s.pc), tm.eq(rows, tm.ite(tm.eq(cols, tm.num(0, "I")), rows0, tm.add(rows0, tm.num(1, "I")))))
        U.discharge_valid(r, "returns_0[path %d]" % i, list(s.pc), tm.eq(ex2.coerce(s.ret, "I"), tm.num(0, "I")))
    r.assumptions += ["WF on entry; vector::resize(n) default-constructs new CVar cells (CVar() = VarInit -> TT_EMPTY, unit C05.Var.VarInit)"]
    return r


def units(tier):
    us = []
    def wrap(uid, f):
        def g():
            r = f()
            if not any(o.status == FAILED for o in r.obligations):
                U.must_fail_twin(r, "vacuity.must_fail_twin", lambda: f(twin=True))
            return r
        us.append((uid, g))
    wrap("C05.table.GetRowCount_GetColCount", unit_counts)
    wrap("C05.table.Get", unit_get)
    wrap("C05.table.EndRow", unit_endrow)
    wrap("C05.table.PushBack", unit_pushback)
    wrap("C05.punch.fpunchf_user_overloads", unit_fpunchf_user)
    return us


IPQ = "src/IPhreeqc.cpp"


def unit_switch_lookup(fname, mapname, twin=False):
    """IPhreeqc::get_sel_out_file_on(n) / get_sel_out_string_on(n): the switch stored for USER NUMBER n, default false"""
    fn = A.find_function(IPQ, "IPhreeqc::" + fname)
    r = U.new_unit("C05.switch." + fname, IPQ, "IPhreeqc::" + fname, fn)
    ctx = SX.Ctx(); ctx.stl = STLM.STL(SX)
    ex = SX.Exec(ctx); finals = ex.run(fn, SX.State())
    n = tm.sym("P0_n", "I")
    m = tm.app("fld:" + mapname, (THIS,), "P")
    for i, s in enumerate(finals):
        if s.status != "ret":
            r.add("path%d.returns" % i, FAILED, "symex", 0, s.status); continue
        has = tm.select(ex.heap_arr(s, ("m2", "#mhas", "B", "I")), m, n)
        val = tm.select(ex.heap_arr(s, ("m2", "#mval", "B", "I")), m, n)
        want = tm.ite(has, val, tm.FALSE if not twin else tm.TRUE)
        U.discharge_valid(r, "result==switch_stored_for_n(default_false)", list(s.pc), tm.eq(tm.to_bool(s.ret), want) if i == 0 else tm.eq(tm.to_bool(s.ret), want))
    r.add("reach.two_paths", DISCHARGED if len(finals) == 2 else UNDECIDED, "symex", 0, "%d" % len(finals), kind="vacuity")
    r.assumptions.append("std::map<int,bool> model: find/end/(*it).second")
    return r


def units2(tier):
    us = []
    for fname, mapname in (("get_sel_out_file_on", "SelectedOutputFileOnMap"), ("get_sel_out_string_on", "SelectedOutputStringOn")):
        def g(fname=fname, mapname=mapname):
            r = unit_switch_lookup(fname, mapname)
            if not any(o.status == FAILED for o in r.obligations):
                U.must_fail_twin(r, "vacuity.must_fail_twin", lambda: unit_switch_lookup(fname, mapname, twin=True))
            return r
        us.append(("C05.switch." + fname, g))
    return us


def unit_pushback(twin=False):
    """PushBack(key, var) against WF (+ heading map: has(k) => 0 <= map[k] < |headings|, |map| = |headings|):
    new key -> a column is appended whose first m_nRowCount cells are padding and whose last is var, the map sends key to the
    new column index, WF kept; existing key -> the open row's cell of that column is var (push_back or overwrite), WF kept."""
    fn = A.find_function(CSO, "CSelectedOutput::PushBack")
    r = U.new_unit("C05.table.PushBack", CSO, "CSelectedOutput::PushBack", fn)
    ctx = mkctx(); ctx.log_stores = False
    ex = SX.Exec(ctx); st = SX.State()
    finals = ex.run(fn, st)
    key, var = tm.sym("P0_key", "P"), tm.sym("P1_var", "P")
    k = ex.coerce(key, "S")
    mp = tm.app("fld:m_mapHeadingToCol", (THIS,), "P")
    H0 = lambda nm, so, *ix: tm.select(tm.sym("H0.%s:%s" % (nm, so), ("A", "P", so)), *ix)
    a_arr = tm.app("fld:m_arrayVar", (THIS,), "P"); h_arr = tm.app("fld:m_vecVarHeadings", (THIS,), "P")
    asz0, hsz0, msz0 = H0("#vsize", "I", a_arr), H0("#vsize", "I", h_arr), H0("#msize", "I", mp)
    adata0 = H0("#vdata", "P", a_arr)
    rows = H0("m_nRowCount", "I", THIS)
    has0 = tm.select(tm.sym("H0.#mhas:B[S]", ("A", "P", "S", "B")), mp, k)
    val0 = tm.select(tm.sym("H0.#mval:I[S]", ("A", "P", "S", "I")), mp, k)
    ccol = tm.T("+", (adata0, val0), "P")
    csz0 = H0("#vsize", "I", ccol)
    WF = [tm.eq(asz0, hsz0), tm.eq(msz0, hsz0), tm.le(tm.num(0, "I"), hsz0), tm.le(tm.num(0, "I"), rows),
          tm.implies(has0, tm.and_(tm.le(tm.num(0, "I"), val0), tm.lt(val0, hsz0), tm.le(rows, csz0), tm.le(csz0, tm.add(rows, tm.num(1, "I")))))]
    n_new = n_old = 0
    for i, s in enumerate(finals):
        if s.status != "ret":
            continue
        hyps = list(s.pc) + WF
        if B.z3_sat(hyps) == "unsat":
            continue
        vs = lambda a: tm.select(s.heap.get(("f", "#vsize", "I"), ex.heap_arr(s, ("f", "#vsize", "I"))), a)
        is_new = B.z3_prove(hyps, tm.not_(has0))[0] == "proved"
        is_old = B.z3_prove(hyps, has0)[0] == "proved"
        one = tm.num(1, "I")
        if is_new:
            n_new += 1; tag = "new_key[%d]" % n_new
            newcol = tm.T("+", (adata0, asz0), "P") if not (tm.isnum(asz0) and asz0.args[0] == 0) else adata0
            U.discharge_valid(r, tag + ".headings_grow_by_one", hyps, tm.eq(vs(h_arr), tm.add(hsz0, one)))
            U.discharge_valid(r, tag + ".columns_grow_by_one", hyps, tm.eq(vs(a_arr), tm.add(asz0, one)))
            msz = tm.select(s.heap[("f", "#msize", "I")], mp)
            U.discharge_valid(r, tag + ".map_grows_by_one", hyps, tm.eq(msz, tm.add(msz0, one)))
            mval = tm.select(s.heap[("m2", "#mval", "I", "S")], mp, k)
            U.discharge_valid(r, tag + ".map_sends_key_to_new_column_index", hyps, tm.eq(mval, hsz0 if not twin else tm.add(hsz0, one)))
            U.discharge_valid(r, tag + ".new_column_has_rows+1_cells(WF_kept)", hyps, tm.eq(vs(newcol), tm.add(rows, one)))
            pb = [e for e in s.events if e.name == "vector.push_back" and e.args[-1] is var]
            ok = len(pb) == 1 and B.z3_prove(hyps, tm.eq(pb[0].recv, newcol))[0] == "proved"
            r.add(tag + ".last_cell_of_new_column_is_var", DISCHARGED if ok else FAILED, "trace", 0, repr(pb)[:160], kind="trace")
            hb = [e for e in s.events if e.name == "vector.push_back" and e.recv is h_arr]
            ok = len(hb) == 1 and hb[0].args[-1] is key
            r.add(tag + ".heading_is_CVar(key)", DISCHARGED if ok else FAILED, "trace", 0, repr(hb)[:160], kind="trace")
        elif is_old:
            n_old += 1; tag = "existing_key[%d]" % n_old
            U.discharge_valid(r, tag + ".open_row_cell_present:column_has_rows+1_cells(WF_kept)", hyps, tm.eq(vs(ccol), tm.add(rows, one)))
            U.discharge_valid(r, tag + ".no_column_added", hyps, tm.and_(tm.eq(vs(a_arr), asz0), tm.eq(vs(h_arr), hsz0)))
            wrote = [e for e in s.events if (e.name == "vector.push_back" and e.args[-1] is var and B.z3_prove(hyps, tm.eq(e.recv, ccol))[0] == "proved")
                     or (e.name.endswith("operator=") and var in e.args and B.z3_prove(hyps, tm.eq(e.recv, tm.T("+", (tm.select(ex.heap_arr(s, ("f", "#vdata", "P")), ccol), rows), "P")))[0] == "proved")]
            r.add(tag + ".cell_of_open_row_is_var", DISCHARGED if len(wrote) == 1 else FAILED, "trace", 0, repr(wrote)[:160], kind="trace")
        else:
            r.add("path%d.case" % i, FAILED, "z3-5.1", 0, "path decides neither new nor existing key")
        U.discharge_valid(r, "returns_0[%d]" % i, hyps, tm.eq(ex.coerce(s.ret, "I"), tm.num(0, "I")))
    for kk, (what, pc, ob) in enumerate(ctx.stl.side):
        U.discharge_valid(r, "index_in_range.%d(%s)" % (kk, what), list(pc) + WF, ob, kind="safety")
    r.add("reach.new_and_existing", DISCHARGED if n_new >= 2 and n_old >= 2 else UNDECIDED, "symex", 0, "new=%d existing=%d" % (n_new, n_old), kind="vacuity")
    r.assumptions += ["try body on the no-throw path", "vector growth keeps element identity (addresses data+i abstract); a default-constructed inner vector is empty",
                      "std::map<std::string,size_t> model (find/end/insert/size); std::string(key) is a function of the pointer key"]
    return r


def unit_fpunchf_user(twin=False):
    """Phreeqc::fpunchf_user (double and char* overloads): value i of a USER_PUNCH row goes to the column named by heading i,
    or - when there are fewer headings than values - to the synthesized column 'no_heading_<i - count + 1>'; BOTH overloads
    synthesize the same name for the same index (one column per index), and forward (name, format, value) to PHRQ_io::fpunchf."""
    rel = "src/phreeqcpp/PHRQ_io_output.cpp"
    r = core.UnitResult("C05.punch.fpunchf_user_overloads", file=rel, function="Phreeqc::fpunchf_user (2 overloads)", engine=U.ENGINE)
    idx_terms = {}
    shas = []
    for tag, pt in (("double", ["int", "const char *", "double"]), ("string", ["int", "const char *", "char *"])):
        fn = A.find_function(rel, "Phreeqc::fpunchf_user", param_types=pt)
        shas.append(U.new_unit("x", rel, "f", fn).sha)
        ctx = SX.Ctx(); ctx.stl = STLM.STL(SX)
        ctx.functional.update({"Get_headings", "c_str"})
        ctx.pure.update({"snprintf", "sformatf", "warning_msg", "fpunchf", "malloc_error"})
        ex = SX.Exec(ctx); st = SX.State()
        finals = ex.run(fn, st)
        ui = tm.sym("P0_user_index", "I")
        n_extra = 0
        for i, s in enumerate(finals):
            if s.status not in ("ret", "run"):
                continue
            fp = [e for e in s.events if e.name.endswith("::fpunchf")]
            if not fp:
                continue      # no current user punch
            cnt = U.local_of({"names": {x["name"]: x["id"] for x in A.walk(fn) if x.get("kind") == "VarDecl" and "name" in x}}, s, "user_punch_count_headings")
            sn = [e for e in s.events if e.name == "snprintf"]
            if sn:
                n_extra += 1
                fmt, idx = sn[0].args[2], ex.coerce(sn[0].args[3], "I")
                want = tm.add(tm.sub(ui, cnt), tm.num(1 if not twin else 2, "I"))
                U.discharge_valid(r, "%s.extra_value.synthesized_index==user_index-count+1" % tag, list(s.pc), tm.eq(idx, want))
                okf = fmt.op == "str" and fmt.args[0].strip('"') == "no_heading_%d"
                r.add("%s.extra_value.name_format_is_no_heading_%%d" % tag, DISCHARGED if okf else FAILED, "term-inspection", 0, repr(fmt))
                idx_terms[tag] = (idx, list(s.pc), cnt)
                U.discharge_valid(r, "%s.extra_value.only_when_index>=count" % tag, list(s.pc), tm.le(cnt, ui))
            else:
                U.discharge_valid(r, "%s.headed_value.index<count" % tag, list(s.pc), tm.lt(ui, cnt))
            ok = len(fp) == 1 and fp[0].args[1] is tm.sym("P1_format", "P")
            r.add("%s.forwards_format_and_value_once[path %d]" % (tag, i), DISCHARGED if ok else FAILED, "trace", 0, repr(fp)[:150], kind="trace")
        r.add("%s.reach.extra_value_path" % tag, DISCHARGED if n_extra else UNDECIDED, "symex", 0, "", kind="vacuity")
    if len(idx_terms) == 2:
        a, b = idx_terms["double"], idx_terms["string"]
        # same index expression as a function of (user_index, count): compare after renaming count
        same = tm.substitute(b[0], {b[2]: a[2]})
        U.discharge_valid(r, "both_overloads_synthesize_the_same_column_name_for_an_index", [], tm.eq(a[0], same))
    r.sha = core.sha256_text("".join(shas))
    for k, (what, pc, ob) in enumerate([]):
        pass
    return r
