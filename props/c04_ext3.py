"""C04 (third helper wave): the outcome does not depend on how the input is cut into Run* calls.

 * IPhreeqc::do_run, statements INSIDE the simulation loop that are keyed on the per-call counter (`simulation == 1`, "force headings")
   or are per call in effect (re-opening a selected-output file whose stream the previous call closed): of a SELECTED_OUTPUT definition
   they change the new_def flag (and the stream pointer of the re-opened file) only, of the engine only keycount[KEY_SELECTED_OUTPUT];
   nothing else of the engine depends on the per-call counter.
 * the per-call functions open_output_files / close_output_files / update_errors / update_lines / check_database write no engine state
   (nothing reached through PhreeqcPtr-> except the stream pointers of the selected-output definitions)."""
from props.c14_ext_lib import *

IPQ = "src/IPhreeqc.cpp"
UNITS = []
READ_ONLY = ("begin", "end", "size", "empty", "find", "count", "c_str", "str", "Get_punch_ostream", "Get_n_user", "Get_new_def", "Get_file_name", "Get_have_punch_name", "Get_active",
             "get_istream", "get_input_errors", "Get_bool_any", "Get_append")


def unit(uid):
    def deco(f):
        UNITS.append((uid, f))
        return f
    return deco


def _base(a):
    while a.op == "store":
        a = a.args[0]
    return a


def engine_ptr(x):
    """x is a read of the wrapper's member PhreeqcPtr (in whatever version of the heap)"""
    if not (isinstance(x, tm.T) and x.op == "select"):
        return False
    b = _base(x.args[0])
    return b.op == "sym" and isinstance(b.args[0], str) and b.args[0].split(".", 1)[-1] == "PhreeqcPtr:P"


def reaches_engine(t):
    """the term (an address / object) is formed from the engine pointer: PhreeqcPtr itself, a member, an element of a member container, ..."""
    return isinstance(t, tm.T) and any(engine_ptr(x) for x in [t] + list(tm.subterms(t)))


def reads_counter(t):
    """the term reads the per-call simulation counter of the engine"""
    if not isinstance(t, tm.T):
        return False
    for x in [t] + list(tm.subterms(t)):
        if x.op == "select":
            b = _base(x.args[0])
            if b.op == "sym" and isinstance(b.args[0], str) and b.args[0].split(".", 1)[-1] == "simulation:I" and any(engine_ptr(i) for i in x.args[1] if isinstance(i, tm.T)):
                return True
    return False


def engine_member(t):
    """name of the engine member an address term lies in: fld:X(PhreeqcPtr) somewhere inside t, or '<engine>'"""
    for x in [t] + list(tm.subterms(t)):
        if x.op == "app" and isinstance(x.args[0], str) and x.args[0].startswith("fld:") and len(x.args) > 1 and isinstance(x.args[1], tm.T) and engine_ptr(x.args[1]):
            return x.args[0][4:]
    return "<engine>"


def engine_touches(states, iter_only=False):
    """[(state, event, what)] for every logged store into / call on something reached through the engine pointer, in the given states"""
    out = []
    for s in states:
        evs = U.iter_events(s) if iter_only else s.events
        for e in evs:
            if e.name in ("iter_begin", "loop_passed"):
                continue
            if e.name == "store":
                if reaches_engine(e.recv):
                    fld_ = e.args[0].args[0] if e.args[0].op == "str" else repr(e.args[0])[:30]
                    out.append((s, e, "store %s%s" % (engine_member(e.recv), "" if engine_member(e.recv) == fld_ else "." + str(fld_) if e.args[0].op == "str" else "[%s]" % fld_)))
                continue
            on_engine = e.recv is not None and reaches_engine(e.recv)
            if not on_engine and e.name.startswith("SelectedOutput::"):
                # a method of class SelectedOutput: its objects live in the engine's SelectedOutput_map only (reached here through an iterator)
                out.append((s, e, "call %s on a SELECTED_OUTPUT definition" % sh(e)))
                continue
            by_arg = [a for a in e.args if isinstance(a, tm.T) and a.sort == "P" and reaches_engine(a)]
            if on_engine:
                out.append((s, e, "call %s on %s" % (sh(e), engine_member(e.recv) if not engine_ptr(e.recv) else "<engine>")))
            elif by_arg and sh(e) not in ("snprintf", "strlen", "operator<<"):
                out.append((s, e, "call %s(&%s)" % (sh(e), engine_member(by_arg[0]))))
    return out


def so_definition(t, e=None):
    """t is (the address of) an element of the engine's SelectedOutput_map (or the receiver of a SelectedOutput method reached through an iterator)"""
    if e is not None and e.name.startswith("SelectedOutput::"):
        return True
    return isinstance(t, tm.T) and reaches_engine(t) and engine_member(t) == "SelectedOutput_map"


def _do_run():
    fn = A.find_function(IPQ, "IPhreeqc::do_run")
    tops = [x for x in A.body_of(fn).get("inner", []) if x.get("kind") in ("ForStmt", "WhileStmt", "DoStmt")]
    if len(tops) != 1:
        raise Undecided("do_run: one top-level simulation loop expected, found %d" % len(tops))
    return fn, tops[0]


def _calls_in(node, name):
    return [y for y in A.walk(node) if y.get("kind") in ("CXXMemberCallExpr", "CallExpr") and y.get("inner") and strip(y["inner"][0]).get("name") == name]


@unit("C04.do_run.per_call_blocks_inside_the_simulation_loop_force_headings_and_change_nothing_else_of_the_engine")
def unit_per_call_blocks(twin=False):
    """IPhreeqc::do_run, body of the simulation loop.  (1) Exactly one statement is keyed on the per-call counter; it runs exactly when
    simulation == 1, stands between read_input (which zeroes the keyword counters) and tidy_model (which reads them), raises new_def of
    EVERY definition of the engine's SelectedOutput_map and makes keycount[KEY_SELECTED_OUTPUT] positive when there is a definition - so
    every call writes the heading row - and touches nothing else reached through PhreeqcPtr (any other store / setter there is a frame
    violation); when simulation != 1 it does nothing.  (2) No other branch, loop bound, stored value or call argument of the loop body
    depends on the counter (formatted description text apart).  (3) The block that re-opens a definition's selected-output file (per call
    in effect: close_output_files nulls every stream) hands the definition the stream just opened, raises its new_def and calls tidy_punch,
    and changes nothing else of the engine."""
    fn, sim = _do_run()
    r = U.new_unit("C04.do_run.per_call_blocks_inside_the_simulation_loop_force_headings_and_change_nothing_else_of_the_engine", IPQ, "IPhreeqc::do_run", fn)
    from props.c04_ext2 import K, kw
    stash = LoopStash()
    c = mk_ctx(functional=READ_ONLY, loop=stash, log_stores=True, enums=kw())
    ex = SX.Exec(c)
    st0 = arb_state(ex, fn, c)
    body = ex.loop_parts(sim)[3]
    PP = tm.select(tm.sym("H0.PhreeqcPtr:P", ("A", "P", "P")), THIS)
    SIMV = tm.select(tm.sym("H0.simulation:I", ("A", "P", "I")), PP)
    # ---- which statements are keyed on the counter
    keyed = []
    others = 0
    for x in A.walk(body):
        k = x.get("kind")
        cond = None
        if k in ("IfStmt", "ConditionalOperator") and x.get("inner"):
            cond = x["inner"][0]
        elif k in ("ForStmt", "WhileStmt", "DoStmt"):
            cond = ex.loop_parts(x)[1]
        elif k == "SwitchStmt" and x.get("inner"):
            cond = x["inner"][0]
        if cond is None:
            continue
        try:
            c0 = mk_ctx(functional=READ_ONLY); ex0 = SX.Exec(c0); s0 = arb_state(ex0, fn, c0)
            vals = [v for _s, v in ex0.ev(cond, s0)]
        except Undecided:
            continue
        others += 1
        if any(reads_counter(v) for v in vals):
            keyed.append((x, vals))
    ok(r, "reach.conditions_of_the_loop_body_read", others >= 15, "symex", "%d conditions evaluated" % others, kind="vacuity", undecided=True)
    ok(r, "counter.exactly_one_statement_of_the_loop_body_is_keyed_on_it", len(keyed) == 1 and keyed[0][0].get("kind") == "IfStmt", "symex", "%d statements: %s" % (len(keyed), [x.get("kind") for x, _v in keyed]))
    if len(keyed) != 1 or keyed[0][0].get("kind") != "IfStmt":
        return r
    blk, vals = keyed[0]
    want = tm.eq(SIMV, tm.num(1 if not twin else 0, "I"))
    ok(r, "force_headings.runs_exactly_in_the_first_simulation_of_a_call", len(vals) == 1 and proved([], tm.eq(tm.to_bool(vals[0]), want)), "symex+z3", repr(vals)[:160])
    # position between read_input and tidy_model (direct statements of the loop body)
    direct = body.get("inner", [])
    def pos(pred):
        return [i for i, y in enumerate(direct) if pred(y)]
    p_blk = pos(lambda y: any(z is blk for z in A.walk(y)))
    p_ri = pos(lambda y: bool(_calls_in(y, "read_input")))
    p_tm = pos(lambda y: bool(_calls_in(y, "tidy_model")))
    ok(r, "force_headings.stands_after_read_input_and_before_tidy_model", len(p_blk) == 1 and len(p_ri) == 1 and len(p_tm) == 1 and p_ri[0] < p_blk[0] < p_tm[0], "ast", "read_input %r block %r tidy_model %r" % (p_ri, p_blk, p_tm))
    # ---- execute the block from an arbitrary state
    fin = [s for s in ex.exec(blk, [st0.clone()]) if s.status != "dead" and sat(s.pc)]
    runs = {}
    for n_, e0_, its_ in stash.runs:
        runs[id(n_)] = (n_, e0_, its_)
    seen = set()
    KSO = K("SELECTED_OUTPUT")
    KC = tm.select(tm.sym("H0.#vdata:P", ("A", "P", "P")), fmap("keycount", PP))
    MSZ = lambda s_: tm.select(ex.heap_arr(s_, ("f", "#msize", "I")), fmap("SelectedOutput_map", PP))      # number of definitions
    def classify(touches):
        """split engine touches into the two permitted ones and the rest"""
        nd, kc, rest = [], [], []
        for s, e, what in touches:
            if sh(e) == "Set_new_def" and so_definition(e.recv, e):
                nd.append((s, e))
            elif e.name == "store" and engine_member(e.recv) == "keycount" and proved(s.pc, tm.eq(e.args[0], KSO)):
                kc.append((s, e))
            elif e.name != "store" and sh(e) in READ_ONLY:
                continue
            else:
                rest.append(what)
        return nd, kc, rest
    for j, s in enumerate(fin):
        for hy, first in cases(s.pc, tm.eq(SIMV, tm.num(1, "I"))):
            seen.add(first)
            loops_here = [runs[id(e.node)] for e in s.events if e.name == "loop_passed" and id(e.node) in runs]
            it_states = [t for _n, _e0, its_ in loops_here for t in its_]
            t_top = engine_touches([s]); t_it = engine_touches(it_states, iter_only=True)
            nd, kc, rest = classify(t_top + t_it)
            if not first:
                ok(r, "later_simulation.block_touches_nothing_of_the_engine%s" % ("" if j == 0 else "#%d" % j), not nd and not kc and not rest and not loops_here, "trace", repr([w for _s, _e, w in t_top + t_it])[:200], kind="frame")
                continue
            allowed_kc = kc if not twin else []
            ok(r, "force_headings.frame.nothing_of_the_engine_written_except_new_def_and_keycount[KEY_SELECTED_OUTPUT]", not rest and (allowed_kc or not kc), "trace", "; ".join(sorted(set(rest)))[:300] or "only the two permitted", kind="frame")
            # every definition visited, its flag raised unconditionally
            good = len(loops_here) == 1
            if good:
                n_, e0_, its_ = loops_here[0]
                h = loop_head(ex, n_, e0_, sort="P")
                ok(r, "force_headings.every_definition_of_the_engine's_map_visited", all(walks_whole_set(h, fmap("SelectedOutput_map", PP), e0_.pc)), "symex+z3", "%r | %r | %r" % (h["first"], h["cond"], h["next"]))
                ent = tm.app("fld:second", (tm.app("mnode", (tm.sym("iter_" + h["name"], "P"),), "P"),), "P")
                for i, t in enumerate([t for t in its_ if sat(t.pc)]):
                    evs = U.iter_events(t)
                    mine = [e for e in evs if sh(e) == "Set_new_def"]
                    g = len(mine) == 1 and mine[0].recv is ent and mine[0].args[0] is tm.TRUE and proved(t.pc, mine[0].guard) and t.status in ("run", "cont")
                    ok(r, "force_headings.new_def_of_the_visited_definition_raised_unconditionally[path %d]" % i, g, "trace+z3", repr(mine)[:160])
                    kcs = [e for e in evs if e.name == "store" and engine_member(e.recv) == "keycount"]
                    g2 = any(proved(t.pc, tm.eq(e.args[0], KSO)) and proved(t.pc, tm.lt(tm.num(0, "I"), e.args[1])) and proved(t.pc, e.guard) for e in kcs) or \
                        any(proved(s.pc, tm.eq(e.args[0], KSO)) and proved(s.pc, tm.lt(tm.num(0, "I"), e.args[1])) for _s, e in kc if _s is s) or \
                        proved(list(s.pc) + [tm.le(tm.num(0, "I"), MSZ(s))], tm.eq(MSZ(s), tm.num(0, "I")))
                    ok(r, "force_headings.keycount[KEY_SELECTED_OUTPUT]_made_positive_when_a_definition_exists[path %d]" % i, g2, "trace+z3", repr(kcs)[:160])
            else:
                ok(r, "force_headings.one_loop_over_the_definitions", False, "trace", "%d loops" % len(loops_here))
    ok(r, "reach.first_and_later_simulation", seen == {True, False}, "symex", sorted(seen), kind="vacuity", undecided=True)
    # ---- (2) nothing else of the loop body depends on the counter: data flow
    stash2 = LoopStash()
    c2 = mk_ctx(functional=READ_ONLY + ("Get_advect_in", "Get_trans_in"), loop=stash2, log_stores=True)
    c2.merge_ifs = True
    _f, ex2, fin2 = run(IPQ, "IPhreeqc::do_run", c2)
    allst = [t for n_, _e0, its_ in stash2.runs if n_ is sim or any(z is n_ for z in A.walk(sim)) for t in its_]
    flows = []
    for s in allst:
        for e in s.events:
            if e.name in ("iter_begin", "loop_passed"):
                continue
            tainted = [a for a in e.args if reads_counter(a)] + ([e.recv] if e.recv is not None and reads_counter(e.recv) else [])
            if tainted and sh(e) not in ("snprintf", "sprintf", "sformatf", "operator<<"):
                flows.append("%s(%s)" % (sh(e) if e.name != "store" else "store " + repr(e.args[0])[:30], repr(tainted[0])[:60]))
    ok(r, "counter.flows_only_into_formatted_description_text", not flows, "symex", "; ".join(sorted(set(flows)))[:300], kind="frame")
    ok(r, "reach.loop_body_executed", len(allst) >= 3, "symex", "%d states" % len(allst), kind="vacuity", undecided=True)
    # ---- (3) the re-open block
    _reopen(r, fn, body, twin)
    r.assumptions += ["the block is executed from an arbitrary state; SelectedOutput setters are opaque events on the definition they are called on; std::map / std::vector models",
                      "pfn_pre / pfn_post and the engine steps called in the loop body (read_input ... delete_entities) are under C04.do_run.each_simulation_takes_the_same_steps... and their own units",
                      "IPhreeqc::punch_open (called by the re-open block; it copies the file name into the definition) is not under this contract",
                      "a value that went through memory across an opaque call is not tracked by the data-flow obligation"]
    return r


def _reopen(r, fn, body, twin):
    ifs = [x for x in A.walk(body) if x.get("kind") == "IfStmt" and len(x.get("inner", [])) >= 2 and not _calls_in(x["inner"][0], "punch_open") and any(_calls_in(b, "punch_open") for b in x["inner"][1:])]
    ifs = [x for x in ifs if not any(y is not x and any(z is y for z in A.walk(x)) for y in ifs)]
    if len(ifs) != 1:
        ok(r, "reopen.block_found", False, "ast", "%d candidate statements" % len(ifs), undecided=True); return
    stash = LoopStash()
    c = mk_ctx(functional=READ_ONLY, loop=stash, log_stores=True)
    ex = SX.Exec(c)
    st0 = arb_state(ex, fn, c)
    fin = [s for s in ex.exec(ifs[0], [st0]) if s.status != "dead" and sat(s.pc)]
    allowed = ("Set_punch_ostream", "Set_new_def", "tidy_punch", "warning_msg") if not twin else ("Set_punch_ostream", "Set_new_def", "warning_msg")
    seen = set()
    for j, s in enumerate(fin):
        po = [e for e in s.events if sh(e) == "punch_open"]
        t = engine_touches([s])
        rest = [w for _s, e, w in t if not (e.name != "store" and (sh(e) in allowed or sh(e) in READ_ONLY or sh(e).endswith("operator[]")))]
        ok(r, "reopen.frame.engine_touched_only_through_Set_punch_ostream_Set_new_def_tidy_punch_warning_msg[path %d]" % j, not rest, "trace", "; ".join(sorted(set(rest)))[:300], kind="frame")
        if not po:
            seen.add("skip")
            ok(r, "reopen.not_needed.nothing_of_the_engine_touched[path %d]" % j, not [w for _s, e, w in t if e.name == "store" or not (sh(e) in READ_ONLY or sh(e).endswith("operator[]"))], "trace", repr([w for _s, _e, w in t])[:200], kind="frame")
            continue
        opened = proved(s.pc, tm.to_bool(po[0].result))
        failed = proved(s.pc, tm.not_(tm.to_bool(po[0].result)))
        if failed:
            seen.add("failed")
            ok(r, "reopen.open_failed.warning_and_no_definition_changed[path %d]" % j, any(sh(e) == "warning_msg" for e in s.events) and not [e for _s, e, _w in t if sh(e) in ("Set_punch_ostream", "Set_new_def", "tidy_punch")], "trace", repr([w for _s, _e, w in t])[:200])
        elif opened:
            seen.add("opened")
            sp = [e for e in s.events if sh(e) == "Set_punch_ostream" and so_definition(e.recv, e)]
            nd = [e for e in s.events if sh(e) == "Set_new_def" and so_definition(e.recv, e)]
            tp = [e for e in s.events if sh(e) == "tidy_punch"]
            # the headings are written ONCE behind the loop over the definitions (every tidy_punch call writes the headings of all new definitions to all
            # their sinks: a call per re-opened file puts the heading of a later block twice into its string) - see _reopen_headings_once below
            g = len(sp) == 1 and len(nd) == 1 and len(tp) == 0 and nd[0].args[0] is not tm.FALSE and proved(s.pc, tm.to_bool(nd[0].args[0]))
            ok(r, "reopen.opened.definition_gets_a_stream_and_its_new_def_is_raised(headings_written_behind_the_loop)[path %d]" % j, g, "trace+z3", repr(sp + nd + tp)[:240])
            src = sp[0].args[0] if sp else None
            ok(r, "reopen.opened.the_stream_handed_over_is_the_wrapper's_freshly_opened_one[path %d]" % j, src is not None and not reaches_engine(src) and "punch_ostream" in repr(src), "trace", repr(src)[:120])
        else:
            ok(r, "reopen.path_decides_whether_the_file_was_opened[path %d]" % j, False, "symex", repr(s.pc)[-200:])
    ok(r, "reach.reopen_cases", seen == {"skip", "failed", "opened"}, "symex", sorted(seen), kind="vacuity", undecided=True)
    # headings once: the loop that holds the re-open statement contains no tidy_punch call; directly behind it exactly one tidy_punch call stands under
    # a test of a local flag that is lowered before the loop and raised exactly on the `opened` paths
    loops = [x for x in A.walk(body) if x.get("kind") == "ForStmt" and any(z is ifs[0] for z in A.walk(x))]
    loop = loops[-1] if loops else None
    parent = None
    if loop is not None:
        for x in A.walk(body):
            if x.get("kind") == "CompoundStmt" and any(y is loop for y in x.get("inner", [])):
                parent = x
    good = False; det = "loop / enclosing block not found"
    if parent is not None:
        sib = parent["inner"]; k = [i for i, y in enumerate(sib) if y is loop][0]
        inside = _calls_in(loop, "tidy_punch")
        after = [y for y in sib[k + 1:] if _calls_in(y, "tidy_punch")]
        flag = None
        if len(after) == 1 and after[0].get("kind") == "IfStmt":
            cnd = strip(after[0]["inner"][0])
            if cnd.get("kind") == "DeclRefExpr":
                flag = cnd.get("referencedDecl", {}).get("name")
        vids = [x.get("id") for x in A.walk(body) if x.get("kind") == "VarDecl" and x.get("name") == flag] if flag else []
        def _is_true(v):
            return v is tm.TRUE or (isinstance(v, tm.T) and tm.isnum(v) and v.args[0] == 1)
        raised = [j for j, s in enumerate(fin) if any(_is_true(s.locals.get(v)) for v in vids)]
        opened_paths = [j for j, s in enumerate(fin) if [e for e in s.events if sh(e) == "punch_open"] and proved(s.pc, tm.to_bool([e for e in s.events if sh(e) == "punch_open"][0].result))]
        lowered = any(y.get("kind") == "DeclStmt" and flag and flag in A.squeeze(text_of(IPQ, y)) and "false" in A.squeeze(text_of(IPQ, y)) for y in sib[:k])
        good = (not inside) and len(after) == 1 and flag is not None and lowered and (sorted(raised) == sorted(opened_paths) if not twin else False)
        det = "tidy_punch inside the loop: %s; behind it: %d; flag %s lowered before: %s; raised on paths %s, opened paths %s" % (inside, len(after), flag, lowered, raised, opened_paths)
    ok(r, "reopen.headings_written_once_behind_the_loop_exactly_when_a_file_was_reopened", good, "ast+trace", det)


# ---------------------------------------------------------------------------------------------------- per-call functions: frame
PER_CALL_FUNCS = [("open_output_files", ()), ("close_output_files", ("Set_punch_ostream",)), ("update_errors", ()), ("update_lines", ()), ("check_database", ())]


@unit("C04.per_call_functions.write_nothing_reached_through_the_engine_pointer_except_stream_pointers")
def unit_per_call_frame(twin=False):
    """IPhreeqc::open_output_files / close_output_files / update_errors / update_lines / check_database run once per Run* call, so whatever
    they do to the engine is done once per cut of the input.  On every path that returns they store into nothing reached through
    PhreeqcPtr-> and call no engine function or setter of an engine object, with one exception: close_output_files nulls the stream
    pointer of every selected-output definition (Set_punch_ostream(NULL)).  check_database may set input_error and call error_msg only
    on the path that stops the call (no database loaded)."""
    fn0 = A.find_function(IPQ, "IPhreeqc::close_output_files")
    r = U.new_unit("C04.per_call_functions.write_nothing_reached_through_the_engine_pointer_except_stream_pointers", IPQ, "IPhreeqc::open_output_files / close_output_files / update_errors / update_lines / check_database", fn0)
    for name, setters in PER_CALL_FUNCS:
        stash = LoopStash()
        c = stop_on_error_msg(mk_ctx(functional=READ_ONLY, loop=stash, log_stores=True))
        fnp = A.find_function(IPQ, "IPhreeqc::" + name)
        ex = ExecStatic(c)
        fin_all = ex.run(fnp, SX.State())
        fin = [s for s in fin_all if s.status in ("run", "ret") and sat(s.pc)]
        stops = [s for s in fin_all if s.status == "throw" and sat(s.pc)]
        its = [t for _n, _e0, its_ in stash.runs for t in its_]
        allowed = setters if not (twin and name == "close_output_files") else ()
        t = engine_touches(fin) + engine_touches(its, iter_only=True)
        st_ = sorted({w for _s, e, w in t if e.name == "store"})
        ok(r, "%s.no_store_into_anything_reached_through_PhreeqcPtr" % name, not st_, "trace", "; ".join(st_)[:300], kind="frame")
        calls_ = []
        for _s, e, w in t:
            if e.name == "store" or sh(e) in READ_ONLY:
                continue
            if sh(e) in allowed and so_definition(e.recv, e) and all(a is tm.NULL for a in e.args):
                continue
            calls_.append(w)
        ok(r, "%s.no_engine_function_or_setter_called%s" % (name, "_except_nulling_the_definitions'_stream_pointers" if setters else ""), not calls_, "trace", "; ".join(sorted(set(calls_)))[:300], kind="frame")
        if stops:
            bad = []
            for s in stops:
                for _s, e, w in engine_touches([s]):
                    if not ((e.name == "store" and w.endswith("input_error")) or sh(e) == "error_msg" or sh(e) in READ_ONLY):
                        bad.append(w)
            ok(r, "%s.stopping_path.only_the_error_is_recorded" % name, not bad, "trace", "; ".join(sorted(set(bad)))[:200], kind="frame")
        ok(r, "reach.%s" % name, len(fin) >= 1, "symex", "%d returning paths, %d stopping, %d loop iterations" % (len(fin), len(stops), len(its)), kind="vacuity", undecided=True)
    r.assumptions += ["the wrapper's own methods called from these functions (warning_msg, safe_close, GetSelectedOutputCount, GetNthSelectedOutputUserNumber, get_sel_out_string_on, AddError ...) are opaque calls on `this`: they are not engine calls; those that read the engine are read-only accessors",
                      "writes through an alias that is not formed from PhreeqcPtr inside the function are not seen; which streams are opened / closed is C04.open_output_files... / C04.close_output_files...",
                      "catch arms are not executed"]
    return r
