"""C07 extension units, second batch - the WRITER side of the reset.  C07.reset.Phreeqc_members asks of every data member whether the unload
sequence resets it; the units here start from the code that FILLS the state - the Pitzer / SIT readers and tidy functions, all keyword readers,
the run entry points of IPhreeqc - generate the list of data members those functions write (AST scan: assignments, ++/--, container
mutators, non-reading method calls on record members) and pair every such member with its reset in the unload path (clean_up + its clean-up
callees, init, initialize + its init callees; IPhreeqc::UnLoadDatabase, check_database, update_errors) or with a stated, checked reason why
no reset is needed.  A member that is filled but neither reset nor justified is a violation."""
import re
from props.common import *
from vf.core import FAILED, DISCHARGED, UNDECIDED
from vf.astvc import symex as SX
import props.C07 as C7

PZ = "src/phreeqcpp/pitzer.cpp"
ST = "src/phreeqcpp/sit.cpp"
PZS = "src/phreeqcpp/pitzer_structures.cpp"
READ = "src/phreeqcpp/read.cpp"
RC = "src/phreeqcpp/ReadClass.cxx"
RTR = "src/phreeqcpp/readtr.cpp"
IP = "src/IPhreeqc.cpp"
MUT = {"push_back", "resize", "insert", "clear", "erase", "assign", "operator=", "operator[]", "reserve", "pop_back", "swap", "emplace_back", "append", "operator+="}
READERLIKE = re.compile(r"^(Get_|get_|Is_|is_|size$|begin$|end$|find$|c_str$|empty$|count$|rbegin$|rend$|at$|str$|length$|front$|back$|lower_bound$|upper_bound$|dump_|Dump|Find|Check|check_|print|Print)")


def base_member(n, fields):
    """the data member (of the class whose `this` the function runs on) at the root of an lvalue; writes through a pointer member do not count"""
    n = strip(n); k = n.get("kind")
    if k == "MemberExpr":
        inner = strip(n["inner"][0]) if n.get("inner") else {}
        if inner.get("kind") == "CXXThisExpr":
            return n.get("name")
        if n.get("isArrow"):
            return None
        return base_member(inner, fields)
    if k == "ArraySubscriptExpr":
        bm = base_member(strip(n["inner"][0]), fields)
        return bm if bm and fields.get(bm, "").strip().endswith("]") else None
    if k == "CXXOperatorCallExpr" and n.get("inner") and strip(n["inner"][0]).get("referencedDecl", {}).get("name") == "operator[]":
        return base_member(n["inner"][1], fields)
    return None


def written_members(fn, fields):
    """{member: set of the ways it is written} for one function definition"""
    out = {}
    for x in A.walk(fn):
        k = x.get("kind"); tgt = how = None
        if k in ("BinaryOperator", "CompoundAssignOperator") and x.get("opcode", "").endswith("=") and x.get("opcode") not in ("==", "!=", "<=", ">="):
            tgt = x["inner"][0]; how = x.get("opcode")
        elif k == "UnaryOperator" and x.get("opcode") in ("++", "--"):
            tgt = x["inner"][0]; how = x.get("opcode")
        elif k == "CXXMemberCallExpr" and x.get("inner"):
            me = strip(x["inner"][0])
            if me.get("kind") == "MemberExpr" and me.get("inner"):
                nm = me.get("name") or ""
                if nm in MUT:
                    tgt = me["inner"][0]; how = nm
                else:
                    recv = strip(me["inner"][0])
                    if recv.get("kind") == "MemberExpr" and recv.get("inner") and strip(recv["inner"][0]).get("kind") == "CXXThisExpr":
                        bm = recv.get("name")
                        if bm in fields and not fields[bm].startswith("std::") and not C7.is_scalar_type(fields[bm]) and not READERLIKE.match(nm):
                            out.setdefault(bm, set()).add("." + nm + "()")
        elif k == "CXXOperatorCallExpr" and x.get("inner") and strip(x["inner"][0]).get("referencedDecl", {}).get("name") in ("operator=", "operator+=") and len(x["inner"]) > 1:
            tgt = x["inner"][1]; how = strip(x["inner"][0])["referencedDecl"]["name"]
        if tgt is not None:
            m = base_member(tgt, fields)
            if m in fields:
                out.setdefault(m, set()).add(how)
    return out


def reset_status(name, typ, states):
    """None when every path of the unload sequence leaves member `name` with a value that does not depend on the state before the load
    (scalars / pointers: assigned such a value; containers: cleared or reassigned; plain records and arrays: written with such values)"""
    base = tm.app("fld:" + name, (THIS,), "P")
    n_paths = len(states)
    for pi, s in enumerate(states):
        if C7.is_scalar_type(typ):
            arr = s.heap.get(("f", name, SX.sort_of(typ)))
            val = tm.select(arr, THIS) if arr is not None else None
            if val is None or (val.op == "select" and val.args[0].op == "sym"):
                alt = [k for k in s.heap if k[0] == "f" and k[1] == name and tm.select(s.heap[k], THIS).op != "select"]
                if alt:
                    val = tm.select(s.heap[alt[0]], THIS)
                else:
                    return "never assigned in the unload sequence (path %d of %d)" % (pi, n_paths)
            deps = C7.pre_state_syms(val)
            if deps:
                return "assigned a value that depends on the state before the load: %s" % ", ".join(deps[:3])
        else:
            touched = any(e.recv is not None and isinstance(e.recv, tm.T) and C7.inside(e.recv, base) and e.name.split("::")[-1] in C7.RESET_METHODS and e.guard is tm.TRUE for e in s.events if hasattr(e, "recv"))
            if not touched:
                touched = any(e.name.split("::")[-1] in C7.RESET_BY_ADDRESS and e.guard is tm.TRUE and any(isinstance(a, tm.T) and a is base for a in e.args) for e in s.events if hasattr(e, "recv"))
            if not touched:
                touched = C7.resized_and_fully_rewritten(s, base)
            if not touched and not C7.is_container_type(typ):
                ws = [(k, idx, v) for (k, idx, v) in C7.stores_by_base(s) if C7.inside(idx[0], base)]
                touched = bool(ws) and not any(C7.pre_state_syms(v) for _, _, v in ws)
            if not touched:
                return "neither cleared / reassigned nor written anywhere in the unload sequence"
    return None


_SEQ = {}


def unload_states():
    if "s" not in _SEQ:
        _SEQ["s"] = C7.run_sequence()
    return _SEQ["s"]


def _callees(fn):
    ex = SX.Exec(SX.Ctx())
    return {ex.callee_name(x["inner"][0]).split("::")[-1] for x in A.walk(fn) if x.get("kind") in ("CXXMemberCallExpr", "CallExpr") and x.get("inner")}


def _find(rels, name):
    for rel in rels:
        try:
            return rel, A.find_function(rel, "Phreeqc::" + name)
        except Exception:
            continue
    return None, None


def cleared_first_by(fn, rel, member):
    """does the function empty / reassign `member` unconditionally (a top-level statement of its body) before any loop or branch?"""
    for st in A.body_of(fn).get("inner", []):
        if st.get("kind") in ("ForStmt", "WhileStmt", "DoStmt", "IfStmt", "SwitchStmt"):
            return False
        t = text_of(rel, st)
        if t.startswith(member + ".clear()") or t.startswith("this->" + member + ".clear()") or t.startswith(member + ".init()"):
            return True
    return False


def unit_model_fill(which, twin=False):
    """Every data member of the engine that the Pitzer (resp. SIT) part of a database fills - written by read_pitzer / pitzer_tidy /
    pitzer_make_lists (read_sit / sit_tidy / sit_make_lists) or by the parameter-store helpers they call - is reset by the unload path
    (pitzer_clean_up / pitzer_init, sit_clean_up / sit_init, clean_up, init), or is a work list that its only writer empties first on every
    call.  So after LoadDatabase no parameter, flag, species list or cached temperature of the previous activity model is left."""
    rel = {"pitzer": PZ, "sit": ST}[which]
    fillers = {"pitzer": ["read_pitzer", "pitzer_tidy", "pitzer_make_lists"], "sit": ["read_sit", "sit_tidy", "sit_make_lists"]}[which]
    fn0 = A.find_function(rel, "Phreeqc::" + fillers[0])
    r = U.new_unit("C07.%s.every_member_the_model_readers_fill_is_reset_by_the_unload_path" % which, rel, "Phreeqc::" + "; ".join(fillers) + " (+ parameter-store helpers) vs clean_up / init", fn0, kind="structural")
    fields = dict(A.class_fields("Phreeqc.h", "Phreeqc"))
    states, skipped, shas, calls = unload_states()
    filled = {}
    helpers = set()
    for f in fillers:
        fn = A.find_function(rel, "Phreeqc::" + f)
        for m, how in written_members(fn, fields).items():
            filled.setdefault(m, {}).setdefault(f, set()).update(how)
        helpers |= _callees(fn)
    n_help = 0
    for h in sorted(helpers):
        hrel, hfn = _find([PZ, ST, PZS], h)
        if hfn is None or h in fillers:
            continue
        n_help += 1
        for m, how in written_members(hfn, fields).items():
            filled.setdefault(m, {}).setdefault(h, set()).update(how)
    if twin:
        fields["verif_twin_member_filled_never_reset"] = "int"; filled["verif_twin_member_filled_never_reset"] = {fillers[0]: {"="}}
    worklists = 0
    for m in sorted(filled):
        who = ",".join(sorted(filled[m]))
        bad = reset_status(m, fields[m], states)
        if bad:
            # a work list: every writer empties it first
            writers = [f for f in filled[m]]
            okw = all(cleared_first_by(A.find_function(rel, "Phreeqc::" + f), rel, m) for f in writers if f in fillers) and all(f in fillers for f in writers)
            if okw:
                worklists += 1
                r.add("member.%s(filled_by_%s).emptied_first_by_its_only_writers_on_every_call" % (m, who), DISCHARGED, "ast-scan", 0, fields[m], kind="reset"); continue
        r.add("member.%s(filled_by_%s).reset_by_the_unload_path" % (m, who), FAILED if bad else DISCHARGED, "term-inspection", 0, "%s%s" % (fields[m], (" : " + bad) if bad else ""), kind="reset")
    for callee, caller in (("%s_clean_up" % which, "clean_up"), ("%s_init" % which, "initialize")):
        ok = callee in calls.get(caller, ())
        r.add("sequence.%s_is_called_from_%s" % (callee, caller), DISCHARGED if ok else FAILED, "ast-scan", 0, "", kind="structure")
    core_ = {"pitzer": {"pitz_params", "pitz_param_map", "theta_params", "pitzer_model", "spec", "IPRSNT", "M", "LGAMMA", "OTEMP", "ICON", "use_etheta"},
             "sit": {"sit_params", "sit_param_map", "sit_model", "spec", "sit_IPRSNT", "sit_M", "sit_LGAMMA", "OTEMP"}}[which]
    miss = core_ - set(filled)
    r.add("reach.the_scan_sees_the_model's_core_state(%d_members,%d_helpers,%d_work_lists)" % (len(filled), n_help, worklists), DISCHARGED if not miss and len(filled) >= 15 else UNDECIDED, "ast-scan", 0, "missing %r" % sorted(miss), kind="vacuity")
    r.assumptions += ["writes are found syntactically: assignments, ++/--, container mutators and non-reading method calls whose target is rooted at a data member of the engine (writes through pointer members - species, parameter records - are heap objects freed by the clean-up loops, not members)",
                      "reset = value independent of the pre-load state after clean_up + clean-up callees, init, initialize + init callees, executed symbolically from an arbitrary state (as in C07.reset.Phreeqc_members); calls other than the inlined callees are credited with nothing",
                      "work lists (cation_list ...) are read only after pitzer_make_lists / sit_make_lists rebuilt them (unit C07.pitzer_sit.work_lists_rebuilt_from_empty_by_their_only_writer)"]
    return r


def unit_readers(twin=False):
    """Every data member of the engine that a keyword reader (Phreeqc::read_* in read.cpp, ReadClass.cxx, readtr.cpp) fills is reset by the
    unload path, or - checked per member - is rebuilt before any use: emptied / re-initialised unconditionally at the top of read_input
    (the Rxn_new_* lists, `use`), assigned as a whole from a freshly constructed record by its reader (run_info), withdrawn completely at
    the end of the function that executes it, which every simulation - also the one LoadDatabase runs - reaches (delete_info), or assigned
    under the very switch that guards its only use (dump_file_name_cpp / dump_in)."""
    fn0 = A.find_function(READ, "Phreeqc::read_input")
    r = U.new_unit("C07.readers.every_member_a_keyword_reader_fills_is_reset_by_the_unload_path_or_rebuilt_before_use", READ, "Phreeqc::read_* (read.cpp, ReadClass.cxx, readtr.cpp) vs clean_up / init", fn0, kind="structural")
    fields = dict(A.class_fields("Phreeqc.h", "Phreeqc"))
    states, skipped, shas, calls = unload_states()
    filled = {}
    nfn = 0
    for rel in (READ, RC, RTR):
        names = sorted(set(re.findall(r"^(read_[a-z_A-Z0-9]+)\(", src(rel).decode("latin1"), re.M)))
        for f in names:
            try:
                fn = A.find_function(rel, "Phreeqc::" + f)
            except Exception:
                continue
            nfn += 1
            for m, how in written_members(fn, fields).items():
                if how - {"clear"}:
                    filled.setdefault(m, {}).setdefault(f, set()).update(how)
    if twin:
        fields["verif_twin_member_filled_never_reset"] = "int"; filled["verif_twin_member_filled_never_reset"] = {"read_solution": {"="}}
    ri_rel, ri = READ, fn0
    pre = []
    for st in A.body_of(ri).get("inner", []):
        if st.get("kind") in ("WhileStmt", "DoStmt") or (st.get("kind") == "ForStmt" and text_of(ri_rel, st).startswith("for(;;)")):
            break                                     # the first line of input is read here: everything before is unconditional initialisation
        if st.get("kind") not in ("ForStmt", "IfStmt", "SwitchStmt"):
            pre.append(text_of(ri_rel, st))
    n_just = 0
    for m in sorted(filled):
        who = ",".join(sorted(filled[m])[:3]) + ("..." if len(filled[m]) > 3 else "")
        bad = reset_status(m, fields[m], states)
        if not bad:
            r.add("member.%s(filled_by_%s).reset_by_the_unload_path" % (m, who), DISCHARGED, "term-inspection", 0, fields[m], kind="reset"); continue
        why = None
        if any(t.startswith(m + ".clear()") or t.startswith(m + ".init()") for t in pre):
            why = "emptied / re-initialised unconditionally at the top of read_input, before any keyword is read"
        elif m == "run_info":
            frel, f = _find([RC], "read_run_cells")
            t = text_of(frel, A.body_of(f)) if f else ""
            if re.search(r"runner(\w+)\(parser,phrq_io\);", t) and re.search(r"run_info=(\w+);", t) and re.search(r"runner(\w+)\(", t).group(1) == re.search(r"run_info=(\w+);", t).group(1):
                why = "assigned as a whole from a record freshly constructed from the RUN_CELLS block (read_run_cells)"
        elif m == "delete_info":
            frel, f = _find([RC], "delete_entities")
            last = [text_of(frel, st) for st in A.body_of(f).get("inner", [])][-3:] if f else []
            if any(t.startswith("delete_info.SetAll(false)") for t in last):
                why = "withdrawn completely (SetAll(false)) by the last statements of delete_entities, which every simulation runs"
        elif m == "dump_file_name_cpp":
            frel, f = _find([RTR], "read_transport")
            t = text_of(frel, A.body_of(f)) if f else ""
            if "if(dump_in==TRUE){dump_file_name_cpp.clear();dump_file_name_cpp.append(file_name);}" in t and reset_status("dump_in", fields["dump_in"], states) is None:
                why = "assigned by read_transport whenever it switches dump_in on; used only under dump_in, which init() resets"
        if why:
            n_just += 1
            r.add("member.%s(filled_by_%s).rebuilt_before_use" % (m, who), DISCHARGED, "ast-scan", 0, "%s : %s" % (fields[m], why), kind="reset")
        else:
            r.add("member.%s(filled_by_%s).reset_by_the_unload_path" % (m, who), FAILED, "term-inspection", 0, "%s : %s" % (fields[m], bad), kind="reset")
    r.add("reach.readers_scanned(%d_functions,%d_members_filled,%d_justified_otherwise)" % (nfn, len(filled), n_just), DISCHARGED if nfn >= 50 and len(filled) >= 80 else UNDECIDED, "ast-scan", 0, "", kind="vacuity")
    r.assumptions += ["writes are found syntactically (see C07.pitzer.*); a method call on a record member counts as a write unless its name reads (Get_..., size, find, dump_...)", "members that a reader only clears are not `filled` by it",
                      "reset as in C07.reset.Phreeqc_members (symbolic execution of the unload sequence from an arbitrary state)", "the four `rebuilt before use` reasons are checked on the text of read_input / read_run_cells / delete_entities / read_transport (text anchors)",
                      "the keyword readers only: functions that fill state during a calculation are covered member by member in C07.reset.Phreeqc_members"]
    return r


def unit_iphreeqc_fill(twin=False):
    """Every data member of IPhreeqc that one of its methods writes is - by the property - a survivor of a load (instance id, global output
    switches, user-set file names, the owned engine / reporter objects), or is reset by UnLoadDatabase, or is emptied by check_database /
    rebuilt by update_errors, which the run LoadDatabase itself performs calls before it returns."""
    fn0 = A.find_function(IP, "IPhreeqc::UnLoadDatabase")
    r = U.new_unit("C07.IPhreeqc.every_member_the_entry_points_fill_is_a_survivor_or_reset_on_load", IP, "IPhreeqc::* vs UnLoadDatabase / check_database / update_errors", fn0, kind="structural")
    fields = dict(A.class_fields("IPhreeqc.hpp", "IPhreeqc"))
    names = sorted(set(re.findall(r"^(?:[\w:<>\*& ]+\s+)?IPhreeqc::(\w+)\(", src(IP).decode("latin1"), re.M)))
    filled = {}
    for f in names:
        if f in ("IPhreeqc", "UnLoadDatabase"):
            continue
        try:
            fn = A.find_function(IP, "IPhreeqc::" + f)
        except Exception:
            continue
        for m, how in written_members(fn, fields).items():
            filled.setdefault(m, {}).setdefault(f, set()).update(how)
    if twin:
        fields["VerifTwinCache"] = "std::map<int, bool>"; filled["VerifTwinCache"] = {"do_run": {"insert"}}
    def run(q):
        c = SX.Ctx(); c.merge_ifs = True; c.pure = C7.AllPure()
        c.loop = lambda ex, st, node, ordinal: [st]
        return SX.Exec(c).run(A.find_function(IP, q), SX.State())
    un = run("IPhreeqc::UnLoadDatabase"); cd = run("IPhreeqc::check_database"); ue = run("IPhreeqc::update_errors")
    def survivor(name, typ):
        if name == "Index": return "instance id"
        if typ == "bool" and name.endswith("On"): return "global output switch"
        if name.endswith("FileName") and "string" in typ: return "user-set file name"
        if name == "SelectedOutputFileNameMap": return "user-set file names (per user number)"
        if name in ("PhreeqcPtr", "ErrorReporter", "WarningReporter"): return "owned object"
        return None
    def cleared_in(finals, name, typ):
        base = tm.app("fld:" + name, (THIS,), "P")
        for s in finals:
            if s.status == "throw":
                continue
            if C7.is_scalar_type(typ):
                arr = s.heap.get(("f", name, SX.sort_of(typ)))
                val = tm.select(arr, THIS) if arr is not None else None
                if val is None or (val.op == "select" and val.args[0].op == "sym") or C7.pre_state_syms(val):
                    return False
            else:
                ok = any(e.recv is not None and isinstance(e.recv, tm.T) and e.recv is base and e.name.split("::")[-1] in ("clear", "operator=", "erase") and e.guard is tm.TRUE for e in s.events)
                if not ok and name == "StringInput":
                    ok = any(e.name.endswith("ClearAccumulatedLines") and e.guard is tm.TRUE for e in s.events)
                if not ok:
                    return False
        return True
    n = {}
    for m in sorted(filled):
        typ = fields[m]; who = ",".join(sorted(filled[m])[:3])
        sv = survivor(m, typ)
        if sv:
            r.add("member.%s(written_by_%s).survives_a_load_by_the_property(%s)" % (m, who, sv.split(" (")[0].replace(" ", "_")), DISCHARGED, "classification", 0, typ, kind="frame"); n["surv"] = 1; continue
        if cleared_in(un, m, typ):
            r.add("member.%s(written_by_%s).reset_by_UnLoadDatabase" % (m, who), DISCHARGED, "term-inspection", 0, typ, kind="reset"); n["un"] = 1; continue
        if cleared_in(cd, m, typ):
            r.add("member.%s(written_by_%s).emptied_by_check_database_at_the_start_of_the_load's_own_run" % (m, who), DISCHARGED, "term-inspection", 0, typ, kind="reset"); n["cd"] = 1; continue
        if cleared_in(ue, m, typ):
            r.add("member.%s(written_by_%s).rebuilt_by_update_errors_at_the_end_of_the_load's_own_run" % (m, who), DISCHARGED, "term-inspection", 0, typ, kind="reset"); n["ue"] = 1; continue
        if m in ("input_file", "database_file") and all(h <= {"="} for h in filled[m].values()) and set(filled[m]) == {"close_input_files"}:
            t = text_of(IP, A.body_of(A.find_function(IP, "IPhreeqc::close_input_files")))
            if re.search(r"(this->)?input_file=(this->)?database_file=NULL;", t) or re.search(r"(this->)?%s=NULL;" % m, t):
                r.add("member.%s.only_ever_set_to_NULL" % m, DISCHARGED, "ast-scan", 0, typ, kind="reset"); continue
        r.add("member.%s(written_by_%s).reset_on_load" % (m, who), FAILED, "term-inspection", 0, "%s : not a survivor named by the property, not reset by UnLoadDatabase, check_database or update_errors" % typ, kind="reset")
    # the load's own run really goes through check_database and update_errors
    t = text_of(IP, A.body_of(A.find_function(IP, "IPhreeqc::test_db")))
    t2 = text_of(IP, A.body_of(A.find_function(IP, "IPhreeqc::RunString")))
    ok = "RunString(" in t and "check_database(" in t2 and "update_errors()" in t2
    r.add("sequence.the_run_LoadDatabase_performs(test_db->RunString)_calls_check_database_and_update_errors", DISCHARGED if ok else FAILED, "ast-scan", 0, "", kind="structure")
    r.add("reach.all_kinds_of_answer_occur(%d_members)" % len(filled), DISCHARGED if {"surv", "un", "cd", "ue"} <= set(n) and len(filled) >= 30 else UNDECIDED, "ast-scan", 0, repr(sorted(n)), kind="vacuity")
    r.assumptions += ["writes found syntactically in every IPhreeqc method except the constructor and UnLoadDatabase", "survivors are classified by name / type exactly as in C07.reset.IPhreeqc_UnLoadDatabase (which also shows that UnLoadDatabase does not write them)",
                      "a survivor may also be written from input: do_run copies the DUMP block's -file name into DumpFileName, punch_open the SELECTED_OUTPUT -file name into SelectedOutputFileNameMap (see the report: the DUMP request record of the engine is not reset by a load)",
                      "LoadDatabase returns 0 only after test_db() ran (unit C07.load_db.old_state_discarded_before_the_new_database_is_read)"]
    return r


UNITS = [
    ("C07.pitzer.every_member_the_model_readers_fill_is_reset_by_the_unload_path", lambda twin=False: unit_model_fill("pitzer", twin)),
    ("C07.sit.every_member_the_model_readers_fill_is_reset_by_the_unload_path", lambda twin=False: unit_model_fill("sit", twin)),
    ("C07.readers.every_member_a_keyword_reader_fills_is_reset_by_the_unload_path_or_rebuilt_before_use", unit_readers),
    ("C07.IPhreeqc.every_member_the_entry_points_fill_is_a_survivor_or_reset_on_load", unit_iphreeqc_fill),
]
