"""C08 (third helper wave), "no crash / invalid memory access / undefined behaviour for ANY input text": heap blocks are released at most once
and are not used after their release, in the keyword readers that duplicate a line or a token (string_duplicate, PHRQ_malloc, string_to_spread_row,
new[]) and release it again (free_check_null, PHRQ_free, spread_row_free, delete[]).

Contract (per function, decided on every path of the real function / of one arbitrary iteration of the real loop):

  ghost state: one "released" flag per allocation EVENT of the region executed (the result of an allocating call is a fresh block), and one per
  pointer value that enters the region from outside and is handed to a releasing call (assumed live and owned when it enters);
  * release(p): p is NULL on the path (free_check_null / PHRQ_free / delete of NULL do nothing), or the block of p is not released yet;
  * use(p) = `p->member`, `*p`, `p[i]`, p or a pointer derived from p (p + k, a scan pointer that was initialised from p) handed to ANY call:
    no released block is used;
  * a pointer variable that is still needed after the iteration (it is read by the next iteration before it is assigned, or after the loop)
    does not hold a released block when the iteration ends; a released block is not returned;
  * a block allocated in the region and neither released, stored away nor returned when the path ends normally is a LEAK: reported as a note.

`break` inside a `switch` leaves only the switch, `continue` leaves the iteration: the executor follows the C++ rules, so a `break` where a
`continue` is needed (the statement behind the switch releases the block once more) is a second release on that path."""
from props.common import *
from vf.core import FAILED, DISCHARGED, UNDECIDED
from vf import core as _core
from vf.astvc.symex import is_record_type, sort_of

ALLOC = {"string_duplicate", "_string_duplicate", "PHRQ_malloc", "PHRQ_calloc", "string_to_spread_row", "copy_row", "malloc", "calloc", "strdup"}
RELEASE = {"free_check_null", "PHRQ_free", "spread_row_free", "free"}
REALLOC = {"PHRQ_realloc", "realloc"}
NULLP = tm.num(0, "P")


class HeapExec(SX.Exec):
    """the executor of vf/astvc plus 'use' events: memory reached through a pointer value (p->m, *p, p[i])"""
    def _use(self, s, p, n):
        if isinstance(p, tm.T) and p.sort == "P" and not tm.isnum(p):
            s.events.append(SX.Event("use", None, [p], tm.num(0, "I"), node=n))

    def lv_MemberExpr(self, n, st):
        out = SX.Exec.lv_MemberExpr(self, n, st)
        if n.get("isArrow") and n.get("name"):
            for s, l in out:
                if l[0] == "field":
                    self._use(s, l[2], n)
        return out

    def lv_ArraySubscriptExpr(self, n, st):
        out = SX.Exec.lv_ArraySubscriptExpr(self, n, st)
        for s, l in out:
            self._use(s, l[1], n)
        return out

    def lv_UnaryOperator(self, n, st):
        if n["opcode"] == "*":
            out = []
            for s, p in self.ev(n["inner"][0], st):
                self._use(s, p, n)
                out.append((s, self.deref(s, p)))
            return out
        return SX.Exec.lv_UnaryOperator(self, n, st)

    def ev_UnaryOperator(self, n, st):
        if n["opcode"] == "*":
            so = sort_of(self.qt(n))
            out = []
            for s, p in self.ev(n["inner"][0], st):
                self._use(s, p, n)
                out.append((s, self.load(s, self.deref(s, p), so)))
            return out
        return SX.Exec.ev_UnaryOperator(self, n, st)


def _addr_of_pointer_var(a):
    """`&v` with v a pointer variable: the callee reaches the block v points into"""
    while a.get("kind") in ("ImplicitCastExpr", "ParenExpr", "CStyleCastExpr") and a.get("inner"):
        a = a["inner"][0]
    if a.get("kind") == "UnaryOperator" and a.get("opcode") == "&":
        v = a["inner"][0]
        while v.get("kind") == "ParenExpr":
            v = v["inner"][0]
        qt = (v.get("type") or {}).get("qualType", "")
        if v.get("kind") == "DeclRefExpr" and qt.strip().endswith("*"):
            return v
    return None


def _apply_call(self, n, st, name, recv, args, arg_nodes=()):
    for a in arg_nodes or ():
        v = _addr_of_pointer_var(a)
        if v is not None:
            try:
                for s2, val in SX.Exec.ev_DeclRefExpr(self, v, st):
                    self._use(s2, val, n)
            except Undecided:
                pass
    return SX.Exec.apply_call(self, n, st, name, recv, args, arg_nodes)


HeapExec.apply_call = _apply_call


def heap_ctx(extra_alloc=(), extra_release=()):
    c = ctx(functional=("c_str",))
    stop_on_error_msg(c)
    def release(ex_, st, n, name, recv, args):
        st.events.append(SX.Event(name, recv, args, NULLP, n))
        return [(st, NULLP)]
    for nm in set(RELEASE) | set(extra_release):
        if nm in ("free_check_null",):
            c.handlers[nm] = release             # returns NULL: `p = (T *) free_check_null(p)` leaves p NULL
    def malloc_error(ex_, st, n, name, recv, args):
        st.events.append(SX.Event(name, recv, args, tm.num(0, "I"), n))
        st.status = "throw"                      # malloc_error() reports and stops the run: it does not return
        return [(st, tm.num(0, "I"))]
    c.handlers["malloc_error"] = malloc_error
    for nm in ("errormsg", "snerr", "tmerr", "badsubscr"):            # the BASIC interpreter's error routines raise PBasicStop
        c.handlers["PBasic::" + nm] = malloc_error
    c.allocs = set(ALLOC) | set(extra_alloc)
    c.releases = set(RELEASE) | set(extra_release)
    return c


def short(e):
    return (getattr(e, "name", "") or "").split("::")[-1]


def run_loop(rel, q, ordinal, c, inner="iter"):
    """U.run_loop_isolated with the HeapExec executor (same protocol): one arbitrary iteration of loop `ordinal` from an arbitrary state"""
    fn = A.find_function(rel, q)
    loops = [x for x in A.walk(fn) if x.get("kind") in ("ForStmt", "WhileStmt", "DoStmt")]
    if ordinal >= len(loops):
        raise Undecided("function has %d loops, contract names loop %d" % (len(loops), ordinal))
    node = loops[ordinal]
    inner_iters = {}
    def loop(ex, st, n, o):
        if inner == "iter":
            inner_iters.setdefault(o, []).extend(ex.iterate_loop(n, st.clone()))
        return ex.havoc_loop(n, st)
    c.loop = loop
    ex = HeapExec(c)
    ex.local_ids = set(); ex.addr_taken = set(); ex.loop_ids = {}
    names = {}
    st = SX.State()
    for x in A.walk(fn):
        k = x.get("kind")
        if k in ("ForStmt", "WhileStmt", "DoStmt"):
            ex.loop_ids[x.get("id")] = len(ex.loop_ids)
        if k == "UnaryOperator" and x.get("opcode") == "&":
            y = x["inner"][0]
            while y.get("kind") == "ParenExpr":
                y = y["inner"][0]
            if y.get("kind") == "DeclRefExpr" and y["referencedDecl"].get("kind") in ("VarDecl", "ParmVarDecl"):
                ex.addr_taken.add(y["referencedDecl"]["id"])
    declare_record_types(fn, c)
    for x in A.walk(fn):
        if x.get("kind") in ("VarDecl", "ParmVarDecl") and "id" in x:
            ex.local_ids.add(x["id"])
            nm = x.get("name", "_")
            names.setdefault(nm, x["id"])
            qt = x["type"].get("desugaredQualType") or x["type"]["qualType"]
            if qt.strip().endswith("&"):
                st.locals[x["id"]] = ("ref", ("elem", tm.sym("L_%s_ref" % nm, "P"), tm.num(0, "I")))
            elif is_record_type(qt, c) or qt.strip().endswith("]") or x["id"] in ex.addr_taken:
                st.locals[x["id"]] = ("obj", tm.sym("&L_%s" % nm, "P"))
            else:
                st.locals[x["id"]] = tm.sym("L_%s" % nm, sort_of(qt))
    res = ex.iterate_loop(node, st)
    return fn, ex, res, {"names": names, "node": node, "inner_iters": inner_iters}


def declare_record_types(fn, c):
    """class-type locals constructed in the function are objects (the stock executor learns this only when it executes the declaration)"""
    for x in A.walk(fn):
        if x.get("kind") == "VarDecl" and x.get("init") and x.get("inner"):
            qt = x["type"].get("desugaredQualType") or x["type"]["qualType"]
            ik = x["inner"][0]
            while ik.get("kind") in ("ExprWithCleanups", "CXXBindTemporaryExpr", "MaterializeTemporaryExpr") and ik.get("inner"):
                ik = ik["inner"][0]
            if ik.get("kind") in ("CXXConstructExpr", "CXXTemporaryObjectExpr") and not qt.strip().endswith(("&", "*")):
                c.record_types.add(SX.strip_type(qt))


def run_whole(rel, q, c, find_kw=None):
    """whole function from its entry; a loop that allocates / releases is summarised by one arbitrary pass and left through the end states of
    that pass (props/c08_ext3_util.py), every other loop by one arbitrary pass plus havoc of what it assigns"""
    from props.c08_ext3_util import exact_exit_loop
    fn = A.find_function(rel, q, **(find_kw or {}))
    declare_record_types(fn, c)
    info = {"iter": {}, "entry": {}}
    def touches_heap(node):
        if sum(1 for _ in A.walk(node)) > 800:
            return False                 # a whole reader loop: one arbitrary pass, stock summary behind it
        for y in A.walk(node):
            k = y.get("kind")
            if k in ("CXXNewExpr", "CXXDeleteExpr") or (k in ("CallExpr", "CXXMemberCallExpr") and _callee(y) in (c.allocs | c.releases | REALLOC)):
                return True
        return False
    c.loop = exact_exit_loop(info["iter"], only=touches_heap)
    ex = HeapExec(c)
    finals = ex.run(fn, SX.State())
    return fn, ex, finals, info


# ---------------------------------------------------------------------------------------------------------------- the ghost automaton
def _ptr_subterms(t):
    """the pointer values t is DERIVED from (t itself, p in p + k, the arms of a conditional): a value LOADED through p (select) or computed by a
    call from p is not a pointer into p's block"""
    out, stack = [], [t]
    while stack:
        x = stack.pop()
        if not isinstance(x, tm.T):
            continue
        if x.sort == "P":
            out.append(x)
        if x.op in ("+", "-", "ite"):
            stack.extend(a for a in x.args if isinstance(a, tm.T))
    return out


class Verdicts(object):
    """obligation name -> worst status over all paths"""
    def __init__(self):
        self.v = {}; self.why = {}
    def put(self, key, ok, why=""):
        if ok:
            self.v.setdefault(key, True)
        else:
            if self.v.get(key, True):
                self.why[key] = why
            self.v[key] = False


def site(rel, e):
    n = e.node
    if n is None:
        return "?"
    t = text_of(rel, n)
    return re.sub(r"[^A-Za-z0-9_>\-\[\]\.\(\)\*,&+]", "", t)[:60]


def analyse_path(rel, c, s, V, twin=False, notes=None, tag="", own_only=False):
    """walk the events of one path through the ghost automaton; verdicts are recorded per source site"""
    pc = list(s.pc)
    feas = []
    def feasible():
        if not feas:
            feas.append(B.z3_sat(pc) != "unsat")          # decided only when a path is about to fail an obligation
        return feas[0]
    V_ = V
    class _V(object):
        def put(self, key, ok, why=""):
            V_.put(key, ok or not feasible(), why)
    class _Mute(object):
        def put(self, key, ok, why=""):
            pass
    V = _V()
    evs = list(s.events)
    allocated = {}            # block term -> allocating event
    released = {}             # block term -> releasing event
    released_own = {}         # ... released by an event of the pass under contract (not by the code in front of it)
    nullcache = {}
    def surely_null(p):
        if p is NULLP or (tm.isnum(p) and p.args[0] == 0):
            return True
        if p not in nullcache:
            nullcache[p] = B.z3_prove(pc, tm.eq(p, NULLP))[0] == "proved"
        return nullcache[p]
    def released_in(t):
        for x in _ptr_subterms(t):
            if x in released and not surely_null(x):
                return x
        return None
    nrel = 0
    k0 = max([i for i, e in enumerate(evs) if short(e) == "iter_begin"] or [-1]) if own_only else -1
    for idx, e in enumerate(evs):
        V = _V() if idx > k0 else _Mute()
        nm = short(e)
        if nm in ("iter_begin", "deref", "store"):
            continue
        if nm == "use":
            b = released_in(e.args[0])
            V.put("%s`%s`.memory_is_not_reached_through_a_released_block" % (tag, site(rel, e)), b is None,
                  "the block released by `%s` is dereferenced" % (site(rel, released[b]) if b is not None else ""))
            continue
        is_release = nm in c.releases or nm == "delete"
        is_realloc = nm in REALLOC
        if is_release or is_realloc:
            p = e.args[0] if e.args else None
            if p is None or p is NULLP or (tm.isnum(p) and p.args[0] == 0):
                if is_realloc and e.result is not None:
                    allocated[e.result] = e
                continue
            nrel += 1
            again = (p in released or twin) and not surely_null(p)
            V.put("%s`%s`.block_is_not_released_a_second_time" % (tag, site(rel, e)), not again,
                  "on a path on which `%s` has released the same block already" % (site(rel, released[p]) if p in released else "(twin) the allocation"))
            # releasing through an interior / derived pointer of a released block
            b = None if again else next((x for x in _ptr_subterms(p) if x is not p and x in released and not surely_null(x)), None)
            if b is not None:
                V.put("%s`%s`.block_is_not_released_a_second_time" % (tag, site(rel, e)), False, "pointer derived from a released block")
            released[p] = e
            if idx > k0:
                released_own[p] = e
            if is_realloc and e.result is not None:
                allocated[e.result] = e
            continue
        if nm in c.allocs or nm.startswith("new "):
            if e.result is not None:
                allocated[e.result] = e
            # the arguments of an allocating call are uses (string_duplicate(p) reads p)
        # any other call: its receiver and arguments are uses
        for a in ([e.recv] if e.recv is not None else []) + list(e.args):
            if not isinstance(a, tm.T):
                continue
            b = released_in(a)
            if b is not None:
                V.put("%s`%s`.no_released_block_is_handed_to_a_call" % (tag, site(rel, e)), False,
                      "argument %r points into the block released by `%s`" % (a, site(rel, released[b])))
                break
        else:
            if nm not in ("throw",) and e.node is not None and any(isinstance(a, tm.T) and a.sort == "P" for a in e.args):
                V.put("%s`%s`.no_released_block_is_handed_to_a_call" % (tag, site(rel, e)), True)
    V = _V()
    # what is returned
    if s.status == "ret" and isinstance(s.ret, tm.T) and s.ret.sort == "P":
        b = released_in(s.ret)
        V.put("%sreturn.no_released_block_is_returned" % tag, b is None, "the block released by `%s` is returned" % (site(rel, released[b]) if b is not None else ""))
    # no memory cell is left holding a released block when the path ends normally
    if s.status in ("run", "cont", "ret", "brk") and released and not own_only:
        def key_of(arr):
            b = arr
            while b.op == "store":
                b = b.args[0]
            if b.op != "sym":
                return None
            nm = str(b.args[0]).split(".", 1)[-1]
            for key in s.heap:
                kn = ("%s:%s" % (key[1], key[2])) if key[0] == "f" else ("mem:%s" % key[1] if key[0] == "m" else None)
                if kn == nm:
                    return key
            return None
        for blk, e in released.items():
            if surely_null(blk):
                continue
            cells = []
            if blk.op == "select" and len(blk.args) == 2:
                key = key_of(blk.args[0])
                if key is not None and s.heap.get(key) is not None:
                    idx = blk.args[1] if isinstance(blk.args[1], tuple) else (blk.args[1],)
                    cells.append((key, idx))
            for key, arr in s.heap.items():
                if arr is None or key[-1] != "P" and not (key[0] == "f" and key[2] == "P"):
                    continue
                a = arr
                while a.op == "store":
                    if isinstance(a.args[2], tm.T) and blk in _ptr_subterms(a.args[2]):
                        cells.append((key, a.args[1] if isinstance(a.args[1], tuple) else (a.args[1],)))
                    a = a.args[0]
            for key, idx in cells:
                cur = tm.select(s.heap[key], *idx)
                left = isinstance(cur, tm.T) and blk in _ptr_subterms(cur)
                obj = idx[0]
                if left and isinstance(obj, tm.T) and obj.op == "sym" and str(obj.args[0]).startswith("&"):
                    continue                         # a local object of this function (its lifetime ends with the path)
                owner = obj
                while isinstance(owner, tm.T) and owner.op == "app" and str(owner.args[0]).startswith("fld:"):
                    owner = owner.args[1]
                if left and isinstance(owner, tm.T) and any(x in released for x in _ptr_subterms(owner)):
                    continue                         # the cell lies in a block that is released itself on this path
                V.put("%s`%s`.no_memory_cell_is_left_pointing_to_the_released_block" % (tag, site(rel, e)), not left,
                      "the cell %s[%s] still holds the pointer released by `%s` when the path ends" % (key[1], ", ".join(repr(i)[:60] for i in idx), site(rel, e)))
    if notes is not None and s.status in ("run", "cont", "ret", "brk"):
        for blk, e in allocated.items():
            if blk in released:
                continue
            stored = any(blk in tm.subterms(v) for key, arr in s.heap.items() if arr is not None for _, v in writes(s, key))
            held = any(isinstance(v, tm.T) and blk in tm.subterms(v) for v in s.locals.values())
            if s.status == "ret" and isinstance(s.ret, tm.T) and blk in tm.subterms(s.ret):
                continue
            if not stored and (s.status == "ret" or not held):
                notes.add("leak (note, not a violation): the block of `%s` is neither released, stored nor returned on a path ending with status %s" % (site(rel, e), s.status))
    s._released = released
    s._released_own = released_own
    s._allocated = allocated
    return nrel


def carried_locals_check(rel, fn, ex, info, states, V, tag=""):
    """a pointer variable assigned in the loop that holds a released block when the iteration ends must be dead: not read by a later iteration
    before it is assigned (its entry value iter_<x> occurs in no event of any path) and not read after the loop"""
    node = info["node"]
    ids, _ = ex.assigned_locals(node)
    lb, le_ = A.src_range_text(node)
    src_b = src(rel)
    used_entry = set()
    for s in states:
        for e in U.iter_events(s):
            for a in ([e.recv] if e.recv is not None else []) + list(e.args):
                if isinstance(a, tm.T):
                    for y in tm.subterms(a):
                        if isinstance(y, tm.T) and y.op == "sym" and str(y.args[0]).startswith("iter_"):
                            used_entry.add(str(y.args[0])[5:].split("@")[0])
    # reads after the loop (a DeclRefExpr that is not the left side of a plain assignment)
    assigned_lhs = set()
    for x in A.walk(fn):
        if x.get("kind") == "BinaryOperator" and x.get("opcode") == "=":
            l = strip(x["inner"][0])
            if l.get("kind") == "DeclRefExpr":
                assigned_lhs.add(id(l))
    read_after = set()
    first_ref = {}
    for x in A.walk(fn):
        if x.get("kind") == "DeclRefExpr":
            b_, e_ = A.src_range_text(x)
            if b_ is not None and le_ is not None and b_ >= le_:
                did = x["referencedDecl"].get("id")
                if did not in first_ref or b_ < first_ref[did][0]:
                    first_ref[did] = (b_, id(x) in assigned_lhs)
    for did, (b_, is_lhs) in first_ref.items():
        if not is_lhs:
            read_after.add(did)           # the first reference behind the loop (in source order) reads the variable
    n = 0
    for s in states:
        if s.status not in ("run", "cont"):
            continue
        rel_ = getattr(s, "_released", {})
        for did, (name, qt) in ids.items():
            v = s.locals.get(did)
            if not isinstance(v, tm.T) or v.sort != "P" or not qt.strip().endswith("*"):
                continue
            b = next((x for x in _ptr_subterms(v) if x in rel_), None)
            live = (name in used_entry) or (did in read_after)
            if live:
                n += 1
                if b is not None and B.z3_sat(list(s.pc)) == "unsat":
                    continue
                V.put("%svariable_%s.holds_no_released_block_when_the_iteration_ends" % (tag, name), b is None,
                      "`%s` still points to the block released by `%s`; it is read %s" % (name, site(rel, rel_[b]) if b is not None else "",
                                                                                        "by a later iteration" if name in used_entry else "after the loop"))
    return n


# ---------------------------------------------------------------------------------------------------------------- units
def _callee(n):
    c = n["inner"][0] if n.get("inner") else {}
    while c.get("kind") in ("ImplicitCastExpr", "ParenExpr") and c.get("inner"):
        c = c["inner"][0]
    return c.get("name") or c.get("referencedDecl", {}).get("name") or ""


def heap_loops(fn, c):
    """ordinals of the innermost loops that contain an allocating / releasing call"""
    loops = [x for x in A.walk(fn) if x.get("kind") in ("ForStmt", "WhileStmt", "DoStmt")]
    def has(n):
        for y in A.walk(n):
            k = y.get("kind")
            if k in ("CXXNewExpr", "CXXDeleteExpr"):
                return True
            if k in ("CallExpr", "CXXMemberCallExpr") and _callee(y) in (c.allocs | c.releases | REALLOC):
                return True
        return False
    out = []
    for k, lp in enumerate(loops):
        if not has(lp):
            continue
        inner = [o for o in loops if o is not lp and any(y is o for y in A.walk(lp)) and has(o)]
        if not inner:
            out.append(k)
    return out


_LOOPVARS = {}


def still_reachable_by_next_pass(p, s, ex, node):
    """a block released by a pass that is followed by another pass: can the next pass reach it again?  (a) p was read from a memory cell and the
    cell still holds p when the pass ends; (b) a local that the loop never assigns holds (a pointer derived from) p and the loop refers to it.
    (locals the loop assigns are judged by the carried-variable obligation)  -> reason text or None"""
    if p.op == "select" and len(p.args) == 2:
        b = p.args[0]
        while b.op == "store":
            b = b.args[0]
        if b.op == "sym":
            nm = str(b.args[0]).split(".", 1)[-1]
            for key, cur in s.heap.items():
                if cur is None:
                    continue
                kn = ("%s:%s" % (key[1], key[2])) if key[0] == "f" else ("mem:%s" % key[1] if key[0] == "m" else None)
                if kn == nm:
                    idx = p.args[1] if isinstance(p.args[1], tuple) else (p.args[1],)
                    if tm.select(cur, *idx) is p:
                        # not when the next pass reads another cell (the address depends on what the pass assigns), nor when the cell lies
                        # in a block that this pass releases as well
                        moving = any(y.op == "sym" and str(y.args[0]).startswith(("iter_", "Hiter.")) and "@" not in str(y.args[0]).split(".")[0]
                                     for i_ in idx if isinstance(i_, tm.T) for y in tm.subterms(i_))
                        owner = idx[0]
                        while isinstance(owner, tm.T) and owner.op == "app" and str(owner.args[0]).startswith("fld:"):
                            owner = owner.args[1]
                        rel_ = getattr(s, "_released", {})
                        inside = isinstance(owner, tm.T) and any(x in rel_ for x in _ptr_subterms(owner))
                        if not moving and not inside:
                            return "the memory cell it was read from (%s) still holds it when the pass ends" % nm
    ck = (id(node), _core.REPO)
    if ck not in _LOOPVARS:
        ids, _ = ex.assigned_locals(node)
        ids = set(ids) | set(x["id"] for x in A.walk(node) if x.get("kind") == "VarDecl" and "id" in x)        # declared in the loop: a new object every pass
        refs = set(x["referencedDecl"].get("id") for x in A.walk(node) if x.get("kind") == "DeclRefExpr" and x.get("referencedDecl"))
        _LOOPVARS[ck] = (ids, refs, node)
    ids, refs, _n = _LOOPVARS[ck]
    for did, v in s.locals.items():
        if did in ids or did not in refs or not isinstance(v, tm.T) or v.sort != "P":
            continue
        if p in _ptr_subterms(v):
            return "a variable the loop never assigns still points to it and the loop uses that variable"
    return None


_GROUPS = {}


def unit_release_once(uid, rel, q, mode="loops", twin=False, find_kw=None, extra_alloc=(), extra_release=(), want_sites=1, assumptions=()):
    fn = A.find_function(rel, q, **(find_kw or {}))
    r = U.new_unit(uid, rel, q, fn)
    c = heap_ctx(extra_alloc, extra_release)
    V = Verdicts(); notes = set()
    groups = _GROUPS.get((_core.REPO, uid))
    if groups is not None:
        c = groups[0][4]
    if groups is None and mode == "whole":
        f, ex, fin, info = run_whole(rel, q, c, find_kw)
        loops = [x for x in A.walk(fn) if x.get("kind") in ("ForStmt", "WhileStmt", "DoStmt")]
        groups = [("", fin, None, ex, c)]
        for o, sts in info["iter"].items():
            groups.append(("loop%d." % o, sts, {"node": loops[o]}, ex, c))
    elif groups is None:
        groups = []
        ks = heap_loops(fn, c)
        if not ks:
            raise Undecided("%s: no loop with an allocating / releasing call found" % q)
        for k in ks:
            c = heap_ctx(extra_alloc, extra_release)
            f, ex, res, info = run_loop(rel, q, k, c)
            groups.append(("loop%d." % k, res, info, ex, c))
            for o, sts in info["inner_iters"].items():
                loops = [x for x in A.walk(fn) if x.get("kind") in ("ForStmt", "WhileStmt", "DoStmt")]
                groups.append(("loop%d." % o, sts, {"node": loops[o]}, ex, c))
    _GROUPS[(_core.REPO, uid)] = groups           # the must-fail twin re-reads the same paths with the perturbed ghost state
    nrel = ncar = 0
    for tag, states, linfo, ex, c in groups:
        states = [s for s in states if s.status != "dead"]
        for s in states:
            nrel += analyse_path(rel, c, s, V, twin=twin, notes=notes, tag=tag, own_only=linfo is not None)
        if linfo is not None:
            ncar += carried_locals_check(rel, fn, ex, linfo, states, V, tag=tag)
            # a block that does not change from pass to pass must not be released by a pass that is followed by another one
            for s in states:
                if s.status not in ("run", "cont"):
                    continue
                for p, e in getattr(s, "_released_own", {}).items():
                    why_ = still_reachable_by_next_pass(p, s, ex, linfo["node"])
                    if why_ is not None and B.z3_sat(list(s.pc)) == "unsat":
                        continue
                    V.put("%s`%s`.block_released_by_a_pass_cannot_be_reached_by_the_next_pass" % (tag, site(rel, e)), why_ is None, why_ or "")
    # only the sites that can touch a tracked block are reported (a block allocated or released somewhere in the region)
    keep = {}
    for key, okv in V.v.items():
        if okv and (".no_released_block_is_handed_to_a_call" in key or ".memory_is_not_reached" in key):
            continue
        keep[key] = okv
    tracked_sites = 0
    for key, okv in sorted(keep.items()):
        tracked_sites += 1
        r.add(key, DISCHARGED if okv else FAILED, "symex+ghost", 0, "" if okv else V.why.get(key, ""), kind="safety")
    nuse = sum(1 for k_, v_ in V.v.items() if v_ and k_ not in keep)
    r.add("uses_checked.every_pointer_use_on_every_path_is_outside_the_released_blocks", DISCHARGED if nuse else UNDECIDED, "symex+ghost", 0,
          "%d call / dereference sites, none reaches a released block" % nuse, kind="safety")
    r.add("reach.release_events", DISCHARGED if nrel >= want_sites else UNDECIDED, "symex", 0, "%d release events on the explored paths" % nrel, kind="vacuity")
    for n_ in sorted(notes):
        r.notes.append(n_)
    r.assumptions += ["every allocating call (%s, new) returns a block distinct from every other block; callees do not keep or release the pointers handed to them, "
                      "except the releasing calls (%s, delete) and PHRQ_realloc (releases its argument, returns a new block)" % (", ".join(sorted(c.allocs)), ", ".join(sorted(c.releases))),
                      "free_check_null(p) returns NULL; releasing NULL does nothing; error_msg(.., STOP) and malloc_error() do not return",
                      "callees do not write the pointer variables of this function (a scan pointer handed by address still points into the same block)",
                      "loops as iteration contracts: one arbitrary pass from an arbitrary state; pointer values that enter a pass from outside are live and owned when first released",
                      "the rest of the function is not under this contract" if mode != "whole" else "whole function: loops summarised by one arbitrary pass plus havoc of what they assign"]
    r.assumptions += list(assumptions)
    _core.PENDING.heads = []
    return r
