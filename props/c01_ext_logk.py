"""C01 ext: LK_SPECIES / LK_NAMED / LK_PHASE (calc_logk_s, calc_logk_n, calc_logk_p): the value returned is k_calc (unit C01.k_calc: the
database's analytic expression) of the log K coefficients OF THE NAMED ITEM — its own expression (select_log_k_expression), plus its
-add_logk named expressions (add_other_logk, unit C01.add_other_logk), with the pressure term refreshed from the item's reaction — at the
CURRENT temperature tk_x and pressure patm_x (in Pa).  An unknown name gives the sentinel."""
from props.c01_ext_util import *

BS = "src/phreeqcpp/basicsubs.cpp"
FUN = ("s_search", "phase_bsearch", "logk_search", "k_calc", "calc_delta_v")


def _run(q):
    c = ctx(functional=FUN, enums_from="global_structures.h", enums=("MAX_LOG_K_INDICES", "delta_v", "vm0"))
    fn, ex, fin, info = U.run_function(BS, q, default="iter", ctx=c)
    return c, fn, ex, lives(fin, ("ret",)), info


def _order(s, names):
    """indices of the first event of each short name, or None"""
    out = []
    for n in names:
        ix = [k for k, e in enumerate(s.events) if e.name.split("::")[-1] == n]
        out.append(ix[0] if ix else None)
    return out


def _common(r, c, ex, s, info, work, lookup_ev, twin):
    """checks shared by the three: look-up of the copied name; zeroed work array; k_calc at (tk_x, patm_x in Pa); result"""
    hy = list(s.pc)
    cp = [e for e in s.events if e.name.split("::")[-1] == "strcpy_safe"]
    put(r, "found.name_copied_then_looked_up", len(cp) == 1 and cp[0].args[2] is tm.sym("P0_name", "P") and lookup_ev.args[0] is cp[0].args[0], repr([e.args for e in cp]), kind="trace")
    kc = [e for e in s.events if e.name.split("::")[-1] == "k_calc"]
    if not put(r, "found.one_k_calc", len(kc) == 1, "%d" % len(kc), kind="trace"):
        return None
    e = kc[0]
    put(r, "found.k_calc_on_the_work_array", e.args[0] is work, repr(e.args[0]), kind="trace")
    eqr(r, "found.temperature_is_the_current_tk_x", hy, e.args[1], fld(ex, s, "tk_x" if not twin else "tc_x", "R"))
    eqr(r, "found.pressure_is_patm_x_in_pascal", hy, e.args[2], fld(ex, s, "patm_x", "R") * tm.num(101325))
    put(r, "found.returns_that_k_calc", s.ret is e.result, repr(s.ret))
    # work array zeroed over all coefficients before anything is added
    z = 0
    for k, sts in info["iter"].items():
        for t in lives(sts, ("run", "cont")):
            ws = [(ix, v) for key, ix, v in U.iter_writes(t) if key == ("m", "R") and ix[0] is work]
            if ws:
                z += 1
                ix, v = ws[0]
                put(r, "work_array.zeroed", tm.isnum(v) and v.args[0] == 0 and ix[1].op == "sym", repr(ws), kind="establishment") if z == 1 else None
                bound = [p for p in t.pc if ix[1] in tm.subterms(p)]
                if z == 1:
                    valid(r, "work_array.all_coefficients_zeroed", [], tm.eq(tm.to_bool(bound[0]) if len(bound) == 1 else tm.FALSE, tm.lt(ix[1], I(c.enum_values["MAX_LOG_K_INDICES"]))), kind="establishment")
                # position: before the first addition into the work array
                ent = info["entry"].get(k, [])
                before = all(not [e2 for e2 in t0.events if e2.name.split("::")[-1] in ("select_log_k_expression", "add_other_logk", "k_calc")] for t0 in ent)
                put(r, "work_array.zeroed_before_anything_is_added", before, "", kind="establishment") if z == 1 else None
    if z == 0:
        ms = [e2 for e2 in s.events if e2.name.split("::")[-1] == "memset" and e2.args and e2.args[0] is work and tm.isnum(e2.args[1]) and e2.args[1].args[0] == 0]
        put(r, "work_array.zeroed", bool(ms), "no loop and no memset zeroes the work array before the expression is added into it", kind="establishment")
    return e


def unit_logk_s(twin=False):
    q = "Phreeqc::calc_logk_s"
    c, fn, ex, fin, info = _run(q)
    r = U.new_unit("C01.calc_logk_s.logK_of_the_named_species_at_current_T_P", BS, q, fn)
    nf = nn = 0
    for s in fin:
        hy = list(s.pc)
        lk = [e for e in s.events if e.name.split("::")[-1] == "s_search"]
        if len(lk) != 1:
            put(r, "one_species_lookup", False, "%d" % len(lk), kind="trace"); continue
        sp = lk[0].result
        for hyc, found in cases(hy, nonnull(sp)):
            if not found:
                nn += 1
                valid(r, "absent.returns_the_sentinel(-999.99)", hyc, tm.eq(s.ret, tm.Q("-999.99"))) if not tm.isnum(s.ret) else put(r, "absent.returns_the_sentinel(-999.99)", s.ret is tm.Q("-999.99"), repr(s.ret))
                continue
            nf += 1
            sel = [e for e in s.events if e.name.split("::")[-1] == "select_log_k_expression"]
            ao = [e for e in s.events if e.name.split("::")[-1] == "add_other_logk"]
            if not put(r, "found.expression_selected_and_named_expressions_added_once_each", len(sel) == 1 and len(ao) == 1, "%d/%d" % (len(sel), len(ao)), kind="trace"):
                continue
            work = sel[0].args[1]
            put(r, "found.own_expression_of_THE_species_found", sel[0].args[0] is tm.app("fld:logk", (sp,), "P"), repr(sel[0].args[0]), kind="trace")
            put(r, "found.add_logk_list_of_THE_species_into_the_same_array", ao[0].args[0] is work and ao[0].args[1] is tm.app("fld:add_logk", (sp,), "P"), repr(ao[0].args), kind="trace")
            _common(r, c, ex, s, info, work, lk[0], twin)
            o = _order(s, ("select_log_k_expression", "add_other_logk", "k_calc"))
            put(r, "found.order(select, add, evaluate)", None not in o and o == sorted(o), repr(o), kind="trace")
            # pressure term of the species' expression refreshed from its own reaction
            dv = [e for e in s.events if e.name.split("::")[-1] == "calc_delta_v"]
            okdv = len(dv) == 1 and dv[0].args[0] is fld0(ex, s, "rxn", "I", sp)
            put(r, "found.delta_v_from_the_species'_own_reaction", okdv, repr([e.args for e in dv]), kind="trace")
            if okdv:
                wrote = False
                for k, ent in info["entry"].items():
                    for t0 in ent:
                        for ix, v in writes(t0, ("m", "R")):
                            if ix == (tm.app("fld:logk", (sp,), "P"), I(c.enum_values["delta_v"])):
                                wrote = v is dv[0].result
                put(r, "found.delta_v_stored_in_the_species'_coefficients_before_selection", wrote, "", kind="establishment")
    put(r, "reach.found_and_absent", nf >= 1 and nn >= 1, "%d/%d" % (nf, nn), kind="vacuity", undecided=True)
    r.assumptions += ["s_search is a pure look-up by name; strcpy_safe copies the name", "select_log_k_expression(src, dst) copies the species' own T-dependence into dst (not under contract)",
                      "add_other_logk: C01.add_other_logk; k_calc: C01.k_calc; calc_delta_v (molar volumes) not under contract", "PASCAL_PER_ATM == 101325"]
    return r


def unit_logk_p(twin=False):
    q = "Phreeqc::calc_logk_p"
    c, fn, ex, fin, info = _run(q)
    r = U.new_unit("C01.calc_logk_p.logK_of_the_named_phase_at_current_T_P", BS, q, fn)
    nf = nn = 0
    for s in fin:
        hy = list(s.pc)
        lk = [e for e in s.events if e.name.split("::")[-1] == "phase_bsearch"]
        if len(lk) != 1:
            put(r, "one_phase_lookup", False, "%d" % len(lk), kind="trace"); continue
        ph = lk[0].result
        for hyc, found in cases(hy, nonnull(ph)):
            if not found:
                nn += 1
                put(r, "absent.returns_the_sentinel(-999.9)", s.ret is tm.Q("-999.9"), repr(s.ret))
                continue
            nf += 1
            sel = [e for e in s.events if e.name.split("::")[-1] == "select_log_k_expression"]
            ao = [e for e in s.events if e.name.split("::")[-1] == "add_other_logk"]
            dv = [e for e in s.events if e.name.split("::")[-1] == "calc_delta_v"]
            if not put(r, "found.expression_selected_and_named_expressions_added_once_each", len(sel) == 1 and len(ao) == 1 and len(dv) == 1, "%d/%d/%d" % (len(sel), len(ao), len(dv)), kind="trace"):
                continue
            work = sel[0].args[1]
            for hc2, repl in cases(hyc, tm.not_(tm.eq(fld0(ex, s, "replaced", "I", ph), I(0)))):
                form = "rxn_s" if repl else "rxn"
                tag = "replaced" if repl else "as_defined"
                base = tm.app("fld:logk", (tm.app("fld:" + form, (ph,), "P"),), "P")
                valid(r, "found.%s.expression_of_the_form_in_use(%s)" % (tag, form), hc2, tm.eq(sel[0].args[0], base), kind="trace")
                valid(r, "found.%s.delta_v_from_the_same_form" % tag, hc2, tm.eq(rec_addr(dv[0].args[0]), tm.app("fld:" + form, (ph,), "P")), kind="trace")
                n0 = 0
                for k, ent in info["entry"].items():
                    for t0 in ent:
                        h0 = hc2 + list(t0.pc)
                        if not sat(h0):
                            continue
                        n0 += 1
                        cur = tm.select(ex.heap_arr(t0, ("m", "R")), base, I(c.enum_values["delta_v"]))
                        vm0 = tm.select(entry_arr(ex, s, ("m", "R")), tm.app("fld:logk", (ph,), "P"), I(c.enum_values["vm0"]))
                        valid(r, "found.%s.delta_v_of_that_form==reaction_volume-molar_volume_of_the_phase_before_selection" % tag, h0, tm.eq(cur, dv[0].result - vm0), kind="establishment")
                put(r, "reach.%s.state_before_zeroing" % tag, n0 >= 1, "%d" % n0, kind="vacuity", undecided=True)
            put(r, "found.add_logk_list_of_THE_phase_into_the_same_array", ao[0].args[0] is work and ao[0].args[1] is tm.app("fld:add_logk", (ph,), "P"), repr(ao[0].args), kind="trace")
            _common(r, c, ex, s, info, work, lk[0], twin)
            o = _order(s, ("select_log_k_expression", "add_other_logk", "k_calc"))
            put(r, "found.order(select, add, evaluate)", None not in o and o == sorted(o), repr(o), kind="trace")
    put(r, "reach.found_and_absent", nf >= 2 and nn >= 1, "%d/%d" % (nf, nn), kind="vacuity", undecided=True)
    r.assumptions += ["phase_bsearch is a pure look-up by name", "select_log_k_expression / calc_delta_v not under contract; add_other_logk: C01.add_other_logk; k_calc: C01.k_calc", "PASCAL_PER_ATM == 101325"]
    return r


def unit_logk_n(twin=False):
    q = "Phreeqc::calc_logk_n"
    c, fn, ex, fin, info = _run(q)
    r = U.new_unit("C01.calc_logk_n.named_expression_at_current_T_P", BS, q, fn)
    nf = nn = 0
    for s in fin:
        hy = list(s.pc)
        lk = [e for e in s.events if e.name.split("::")[-1] == "logk_search"]
        if len(lk) != 1:
            put(r, "one_lookup", False, "%d" % len(lk), kind="trace"); continue
        lp = lk[0].result
        for hyc, found in cases(hy, nonnull(lp)):
            if not found:
                nn += 1
                put(r, "absent.returns_the_sentinel(-999.99)", s.ret is tm.Q("-999.99"), repr(s.ret))
                continue
            nf += 1
            ao = [e for e in s.events if e.name.split("::")[-1] == "add_other_logk"]
            pb = [e for e in s.events if e.name == "vector.push_back"]
            if not put(r, "found.one_named_expression_added", len(ao) == 1 and len(pb) == 1, "%d/%d" % (len(ao), len(pb)), kind="trace"):
                continue
            work, lst = ao[0].args
            rec = pb[0].args[1]
            nm = [v for ix, v in writes(s, ("f", "name", "P")) if ix == (rec,)]
            cf = [v for ix, v in writes(s, ("f", "coef", "R")) if ix == (rec,)]
            put(r, "found.list_holds_the_looked_up_name", len(nm) == 1 and nm[0] is lk[0].args[0], repr(nm), kind="trace")
            put(r, "found.with_coefficient_one", len(cf) == 1 and tm.isnum(cf[0]) and cf[0].args[0] == 1, repr(cf), kind="trace")
            _common(r, c, ex, s, info, work, lk[0], twin)
            o = _order(s, ("add_other_logk", "k_calc"))
            put(r, "found.order(add, evaluate)", None not in o and o == sorted(o), repr(o), kind="trace")
    put(r, "reach.found_and_absent", nf >= 1 and nn >= 1, "%d/%d" % (nf, nn), kind="vacuity", undecided=True)
    r.assumptions += ["logk_search is a pure look-up by name", "add_other_logk: C01.add_other_logk; k_calc: C01.k_calc", "PASCAL_PER_ATM == 101325"]
    return r


UNITS = [
    ("C01.calc_logk_s.logK_of_the_named_species_at_current_T_P", unit_logk_s),
    ("C01.calc_logk_p.logK_of_the_named_phase_at_current_T_P", unit_logk_p),
    ("C01.calc_logk_n.named_expression_at_current_T_P", unit_logk_n),
]
