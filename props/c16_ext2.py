"""C16 (activity-coefficient models), the parameter side: the keyword readers that decide WHICH model parameter a database line becomes
(read_pitzer, read_sit, pitz_param_read, pitz_param_store / sit_param_store), the tidy step that turns names into the indices the sums of
pitzer() / sit() use (pitzer_tidy, ISPEC), the work lists (pitzer_make_lists / sit_make_lists), the neutral-species terms of pitzer()
whose species may coincide (LAMBDA, MU) with their Gibbs-Duhem partner, and the options of SOLUTION_SPECIES / EXCHANGE_SPECIES /
LLNL_AQUEOUS_MODEL_PARAMETERS that select the ion-association model of a species (gflag, dha, dhb; the LLNL temperature grid).
Every unit executes the real function / loop body / region from an arbitrary symbolic state (Engine B)."""
import re
from props.common import *
from vf.core import FAILED, DISCHARGED, UNDECIDED
from vf.astvc import hdr

PITZ = "src/phreeqcpp/pitzer.cpp"
SITF = "src/phreeqcpp/sit.cpp"
PSTR = "src/phreeqcpp/pitzer_structures.cpp"
READ = "src/phreeqcpp/read.cpp"
GS = "src/phreeqcpp/global_structures.h"

PZ_TYPES = ["TYPE_B0", "TYPE_B1", "TYPE_B2", "TYPE_C0", "TYPE_THETA", "TYPE_LAMBDA", "TYPE_ZETA", "TYPE_PSI", "TYPE_ETHETA", "TYPE_ALPHAS", "TYPE_MU",
            "TYPE_ETA", "TYPE_Other", "TYPE_SIT_EPSILON", "TYPE_SIT_EPSILON_MU", "TYPE_APHI"]
MISC_ENUMS = ["TRUE", "FALSE", "OK", "ERROR", "STOP", "CONTINUE", "EX", "SURF", "SURF_PSI", "AQ", "HPLUS", "H2O", "EMINUS", "SOLID", "KEYWORD", "EMPTY", "UPPER", "LOWER", "DIGIT", "UNKNOWN"]
_EV = {}


def enum_vals():
    if not _EV:
        _EV.update(A.enum_values_compiled("Phreeqc.h", PZ_TYPES + MISC_ENUMS))
        for nm in ("OPTION_EOF", "OPTION_KEYWORD", "OPTION_ERROR", "OPTION_DEFAULT"):
            _EV[nm] = int(hdr.define_value(GS, nm))
        _EV["EOF"] = -1
    return _EV


def mkctx(functional=(), stop=True):
    c = ctx(functional=functional, enums_from="Phreeqc.h", enums=PZ_TYPES + MISC_ENUMS)
    if stop:
        stop_on_error_msg(c)
    return c


def numval(hyps, t):
    """the integer a term is pinned to: a literal, or the k of an equation `t == k` among the hypotheses (None when it is not pinned)"""
    if tm.isnum(t):
        return int(t.args[0])
    r_ = repr(t)
    if r_.startswith("E."):
        return enum_vals().get(r_[2:])
    for c_ in hyps:
        if c_.op == "==" and c_.args[0] is t and tm.isnum(c_.args[1]):
            return int(c_.args[1].args[0])
        if c_.op == "==" and c_.args[1] is t and tm.isnum(c_.args[0]):
            return int(c_.args[0].args[0])
    return None


def is_val(t, k):
    """term t is the integer / enumerator value k"""
    return numval((), t) == k


def opt_table(fn, name="opt_list", count="count_opt_list"):
    """the option names of a keyword reader, by index, and the declared count"""
    names, cnt = None, None
    for x in A.walk(fn):
        if x.get("kind") == "VarDecl" and x.get("name") == name:
            names = [y.get("value", "").strip('"') for y in A.walk(x) if y.get("kind") == "StringLiteral"]
        if x.get("kind") == "VarDecl" and x.get("name") == count:
            v = [y.get("value") for y in A.walk(x) if y.get("kind") == "IntegerLiteral"]
            cnt = int(v[0]) if v else None
    if not names or cnt is None:
        raise Undecided("option table %s / %s not found" % (name, count))
    return names, cnt


def loc(info, s, name):
    try:
        return local(info, s, name)
    except KeyError:
        raise Undecided("local `%s` of the function not found (renamed?)" % name)


def the_for_ever_loop(fn):
    """ordinal of the option loop `for (;;)` of a keyword reader: the loop whose body calls get_option"""
    loops = [x for x in A.walk(fn) if x.get("kind") in ("ForStmt", "WhileStmt", "DoStmt")]
    hits = [k for k, lp in enumerate(loops) if any(y.get("kind") == "CXXMemberCallExpr" and "get_option" in repr(y.get("inner", [{}])[0].get("name", "")) for y in A.walk(lp))]
    if not hits:
        raise Undecided("option loop (the loop that calls get_option) not found")
    return hits[0]


def option_paths(rel, q, c, optvar="opt"):
    """one pass of the option loop of a keyword reader from an arbitrary state.  Returns [(state, k, continued)]: k = the option index the
    switch saw (get_option's result, or the remembered opt_save when get_option answered OPTION_DEFAULT: continued = True)"""
    fn = A.find_function(rel, q)
    o = the_for_ever_loop(fn)
    f, ex, its, info = U.run_loop_isolated(rel, q, o, ctx=c)
    ev = enum_vals()
    out = []
    for s in live(its, ("run", "cont", "brk", "ret")):
        g = [e for e in U.iter_events(s) if e.name.endswith("get_option")]
        if len(g) != 1:
            raise Undecided("%s: a pass of the option loop calls get_option %d times" % (q, len(g)))
        res = g[0].result
        k0 = numval(s.pc, res)
        cont = (k0 == ev["OPTION_DEFAULT"])
        k = numval(s.pc, loc(info, s, optvar))
        out.append((s, k, cont))
    return fn, ex, info, out


# ------------------------------------------------------------------------------------------------------------------------------------
# 1. PITZER / SIT keyword readers: which parameter type and how many species names a block stores
# ------------------------------------------------------------------------------------------------------------------------------------

PITZER_BLOCKS = {"b0": ("TYPE_B0", 2), "b1": ("TYPE_B1", 2), "b2": ("TYPE_B2", 2), "c0": ("TYPE_C0", 2), "theta": ("TYPE_THETA", 2), "lamda": ("TYPE_LAMBDA", 2),
                 "lambda": ("TYPE_LAMBDA", 2), "zeta": ("TYPE_ZETA", 3), "psi": ("TYPE_PSI", 3), "mu": ("TYPE_MU", 3), "eta": ("TYPE_ETA", 3),
                 "alphas": ("TYPE_ALPHAS", 2), "aphi": ("TYPE_APHI", 0)}
PITZER_FLAGS = {"macinnes": "ICON", "macinnis": "ICON", "mac": "ICON", "redox": "pitzer_pe", "pe": "pitzer_pe", "etheta": "use_etheta", "use_etheta": "use_etheta"}
SIT_BLOCKS = {"epsilon": ("TYPE_SIT_EPSILON", 2), "epsilon1": ("TYPE_SIT_EPSILON_MU", 2)}


def unit_block_reader(which, twin=False):
    """read_pitzer / read_sit: a block header (-B0, -B1, -B2, -C0, -THETA, -LAMDA/-LAMBDA, -ZETA, -PSI, -MU, -ETA, -ALPHAS, -APHI; -epsilon,
    -epsilon1) selects the parameter TYPE named by the option and the number of species names of that type (2; 3 for ZETA, PSI, MU, ETA;
    0 for APHI) and makes the following lines data lines; a data line is read with THAT count, gets THAT type and is handed to the store of
    the model (pitz_param_store / sit_param_store; APHI replaces the single aphi record) exactly once, and leaves the block open (type, count
    and continuation unchanged) so that every line of the block is stored; the switches (-MacInnes, -redox, -use_etheta) set their own flag
    from the text after the option and nothing else; end of file / next keyword end the reader with that return value and mark the model
    as present (pitzer_model / sit_model)."""
    rel, q, blocks, flags, store, model = {"pitzer": (PITZ, "Phreeqc::read_pitzer", PITZER_BLOCKS, PITZER_FLAGS, "pitz_param_store", "pitzer_model"),
                                           "sit": (SITF, "Phreeqc::read_sit", SIT_BLOCKS, {}, "sit_param_store", "sit_model")}[which]
    ev = enum_vals()
    fn, ex, info, paths = option_paths(rel, q, mkctx())
    r = U.new_unit("C16.read_%s.block_header_selects_parameter_type_and_species_count_data_lines_stored_with_them" % which, rel, q, fn)
    names, cnt = opt_table(fn)
    r.add("options.every_listed_option_is_offered(count_opt_list==len(opt_list))", DISCHARGED if cnt == len(names) else FAILED, "syntactic", 0, "%d / %d" % (cnt, len(names)), kind="structural")
    missing = sorted(set(blocks) | set(flags) - set(names)) if False else sorted((set(blocks) | set(flags)) - set(names))
    r.add("options.every_block_of_the_model_has_an_option", DISCHARGED if not missing else FAILED, "syntactic", 0, repr(missing), kind="structural")
    seen = set()
    it = lambda nm, so="I": tm.sym("iter_" + nm, so)
    for s, k, cont in paths:
        pt, n_, osv, rv = (loc(info, s, nm) for nm in ("pzp_type", "n", "opt_save", "return_value"))
        wr = U.iter_writes(s)
        evs = [e for e in U.iter_events(s) if not e.name.endswith("get_option")]
        tag = None
        if k is None:
            # the path on which no case of the switch matched: no index get_option can return may end up here
            o_ = loc(info, s, "opt")
            dead = B.z3_prove(list(s.pc), tm.not_(tm.and_(tm.le(tm.num(ev["OPTION_DEFAULT"], "I"), o_), tm.lt(o_, tm.num(cnt, "I")))))[0] == "proved"
            r.add("switch.every_option_index_has_a_case#%d" % len(r.obligations), DISCHARGED if dead and not wr and not evs else FAILED, "z3", 0, "" if dead else "an index in [OPTION_DEFAULT, count_opt_list) reaches no case")
            continue
        if not (osv is it("opt_save") or is_val(osv, ev["OPTION_DEFAULT"]) or is_val(osv, ev["OPTION_ERROR"])):
            r.add("switch.only_OPTION_DEFAULT_or_OPTION_ERROR_is_remembered_for_the_next_line", FAILED, "symex", 0, repr(osv))
        if k == ev["OPTION_EOF"] or k == ev["OPTION_KEYWORD"]:
            tag = "end_of_file" if k == ev["OPTION_EOF"] else "next_keyword"
            want = ev["EOF"] if k == ev["OPTION_EOF"] else ev["KEYWORD"]
            ok = is_val(rv, want) and s.status == "brk" and not wr and not evs
            r.add("%s.reader_ends_with_that_return_value_and_stores_nothing" % tag, DISCHARGED if ok else FAILED, "symex", 0, "%r %s %r" % (rv, s.status, wr)[:200])
        elif k == ev["OPTION_DEFAULT"]:
            tag = "data_line"
            rd = [e for e in evs if e.name.endswith("pitz_param_read")]
            if len(rd) != 1:
                r.add("data_line.read_once_by_pitz_param_read", FAILED, "symex", 0, repr([e.name for e in evs])[:200]); continue
            okr = rd[0].args[0] is fld0(ex, s, "line", "P") and rd[0].args[1] is it("n")
            r.add("data_line.read_from_the_current_line_with_the_species_count_of_the_open_block", DISCHARGED if okr else FAILED, "symex", 0, repr(rd[0].args)[:200])
            p = rd[0].result
            keep = pt is it("pzp_type") and n_ is it("n") and osv is it("opt_save")
            r.add("data_line.block_stays_open(type,count,continuation_unchanged)#%d" % len(r.obligations), DISCHARGED if keep else FAILED, "symex", 0, "%r %r %r" % (pt, n_, osv), kind="frame")
            st_ = [e for e in evs if e.name.endswith(store)]
            other = [e for e in evs if e not in rd and e not in st_ and e.name != "delete"]
            for hy, got in cases(list(s.pc), tm.not_(tm.eq(p, tm.num(0, "P")))):
                if not got:
                    r.add("data_line.unreadable_line_stores_nothing#%d" % len(r.obligations), DISCHARGED if not wr and not st_ else FAILED, "symex", 0, repr(wr)[:200])
                    continue
                tyw = [v for kk, ix, v in wr if kk == ("f", "type", "I") and ix[0] is p]
                okt = len(tyw) == 1 and tyw[0] is it("pzp_type")
                if twin:
                    okt = len(tyw) == 1 and tyw[0] is it("n")
                r.add("data_line.parameter_gets_the_type_of_the_open_block#%d" % len(r.obligations), DISCHARGED if okt else FAILED, "symex", 0, repr(tyw)[:200])
                aph = [(ix, v) for kk, ix, v in wr if kk == ("f", "aphi", "P")]
                if which == "pitzer":
                    for hy2, is_aphi in cases(hy, tm.eq(it("pzp_type"), tm.num(ev["TYPE_APHI"], "I"))):
                        if is_aphi:
                            dl = [e for e in evs if e.name == "delete"]
                            ok = len(aph) == 1 and aph[0][1] is p and not st_ and len(dl) == 1 and dl[0].args[0] is fld0(ex, s, "aphi", "P")
                            r.add("data_line.APHI_replaces_the_single_aphi_record(old_one_freed)", DISCHARGED if ok else FAILED, "symex", 0, repr(aph)[:200]); seen.add("aphi")
                        else:
                            ok = len(st_) == 1 and st_[0].args[0] is p and not aph
                            r.add("data_line.handed_to_%s_exactly_once#%d" % (store, len(r.obligations)), DISCHARGED if ok else FAILED, "symex", 0, repr(st_)[:200]); seen.add("store")
                else:
                    ok = len(st_) == 1 and st_[0].args[0] is p
                    r.add("data_line.handed_to_%s_exactly_once#%d" % (store, len(r.obligations)), DISCHARGED if ok else FAILED, "symex", 0, repr(st_)[:200]); seen.add("store")
                stray = [(kk, ix) for kk, ix, v in wr if kk not in (("f", "type", "I"), ("f", "aphi", "P"))]
                r.add("data_line.frame#%d" % len(r.obligations), DISCHARGED if not stray and not other else FAILED, "symex", 0, repr(stray + other)[:200], kind="frame")
        elif k == ev["OPTION_ERROR"]:
            tag = "unknown_input"
            ok = any(e.name.endswith("error_msg") for e in evs) and pt is it("pzp_type") and n_ is it("n") and all(kk == ("f", "input_error", "I") for kk, ix, v in wr) and wr
            r.add("unknown_input.reported_as_input_error_nothing_stored", DISCHARGED if ok else FAILED, "symex", 0, repr(wr)[:200])
        elif 0 <= k < len(names):
            nm = names[k]
            tag = nm
            if cont:
                continue                  # an option index remembered in opt_save: the readers only remember OPTION_DEFAULT / OPTION_ERROR (checked below)
            if nm in blocks:
                ty, cnt_ = blocks[nm]
                ok = is_val(pt, ev[ty]) and is_val(n_, cnt_) and is_val(osv, ev["OPTION_DEFAULT"])
                r.add("-%s.selects_%s_with_%d_species_names_and_opens_the_block" % (nm, ty, cnt_), DISCHARGED if ok else FAILED, "symex", 0, "type=%r n=%r opt_save=%r" % (pt, n_, osv))
                r.add("-%s.frame_nothing_stored_by_the_header" % nm, DISCHARGED if not wr and not evs else FAILED, "symex", 0, repr(wr)[:200], kind="frame")
            elif nm in flags:
                fl = flags[nm]
                gt = [e for e in evs if e.name.endswith("get_true_false")]
                w = [(kk, ix, v) for kk, ix, v in wr]
                ok = len(gt) == 1 and is_val(gt[0].args[1], ev["TRUE"]) and len(w) == 1 and w[0][0] == ("f", fl, "I") and w[0][1][0] is THIS and w[0][2] is gt[0].result
                r.add("-%s.sets_%s_from_the_text_after_the_option(default_true)_and_nothing_else" % (nm, fl), DISCHARGED if ok else FAILED, "symex", 0, repr(w)[:200])
                okc = is_val(osv, ev["OPTION_ERROR"]) and pt is it("pzp_type") and n_ is it("n")
                r.add("-%s.a_data_line_after_the_switch_is_not_silently_taken_as_a_parameter" % nm, DISCHARGED if okc else FAILED, "symex", 0, repr(osv))
            else:
                r.add("-%s.option_known_to_the_contract" % nm, FAILED, "symex", 0, "option not in the model's table")
        else:
            continue                      # an index outside the table: not produced by get_option
        if tag:
            seen.add(tag)
        if not (k == ev["OPTION_EOF"] or k == ev["OPTION_KEYWORD"]):
            okb = s.status != "brk" or B.z3_prove(list(s.pc), tm.or_(tm.eq(it("return_value"), tm.num(ev["EOF"], "I")), tm.eq(it("return_value"), tm.num(ev["KEYWORD"], "I"))))[0] == "proved"
            if not okb:
                r.add("%s.reader_goes_on_to_the_next_line" % tag, FAILED, "symex", 0, s.status)
    need = set(blocks) | set(flags) | {"data_line", "end_of_file", "next_keyword", "store"} | ({"aphi"} if which == "pitzer" else set())
    r.add("reach.every_option_and_the_data_line", DISCHARGED if need <= seen else UNDECIDED, "symex", 0, repr(sorted(need - seen)), kind="vacuity")
    # the tail: model marked as present, the loop's return value returned
    c2 = mkctx()
    f2, ex2, fin2, info2 = U.run_function(rel, q, ctx=c2)
    nt = 0
    for s in live(fin2, ("ret",)):
        nt += 1
        okm = is_val(fld(ex2, s, model, "I"), ev["TRUE"])
        r.add("tail.%s=TRUE#%d" % (model, nt), DISCHARGED if okm else FAILED, "symex", 0, repr(fld(ex2, s, model, "I")))
        r.add("tail.returns_the_value_set_by_the_loop#%d" % nt, DISCHARGED if s.ret is loc(info2, s, "return_value") else FAILED, "symex", 0, repr(s.ret)[:80])
    for k_, s0 in enumerate(info2["entry"].get(the_for_ever_loop(fn), [])[:1]):
        ok0 = is_val(loc(info2, s0, "opt_save"), ev["OPTION_ERROR"]) and is_val(loc(info2, s0, "pzp_type"), ev["TYPE_Other"])
        r.add("start.a_data_line_before_any_block_header_is_an_error_not_a_parameter(opt_save=OPTION_ERROR,type=TYPE_Other)", DISCHARGED if ok0 else FAILED, "symex", 0,
              "%r %r" % (loc(info2, s0, "opt_save"), loc(info2, s0, "pzp_type")))
        nt += 1
    r.add("reach.tail", DISCHARGED if nt >= 2 else UNDECIDED, "symex", 0, "%d" % nt, kind="vacuity")
    r.assumptions += ["get_option returns the index of the option named on the line (first entry of opt_list of which the text is a prefix), OPTION_DEFAULT for a line that does not start with an option, OPTION_EOF / OPTION_KEYWORD at the end of the block",
                      "the expected (type, species count) per option name is the model's definition: B0 B1 B2 C0 THETA LAMBDA ALPHAS and the SIT epsilons are pair parameters, ZETA PSI MU ETA triplets, APHI has no species",
                      "pitz_param_read / %s: separate units" % store, "locals read by name: pzp_type, n, opt_save, return_value, opt"]
    return r


# ------------------------------------------------------------------------------------------------------------------------------------
# 2. pitz_param_read: one parameter line = n species names, then up to six temperature coefficients a[0..5] in order
# ------------------------------------------------------------------------------------------------------------------------------------

def addr_val(ex, s, name, sort="P"):
    """value of an address-taken local (it lives in the heap)"""
    return tm.select(ex.heap_arr(s, ("m", sort)), tm.sym(name, "P"), tm.num(0, "I"))


def obj_of(info, s, name):
    v = s.locals.get(info["names"].get(name))
    if not (isinstance(v, tuple) and v[0] == "obj"):
        raise Undecided("local object `%s` not found" % name)
    return v[1]


def range_in_context(r, label, ex, info, node, o, var, first, cond_of, hyp=()):
    """like check_loop_range of props/common.py for a loop run as an iteration contract inside run_function: the induction variable
    starts at `first` (initialiser executed on the state in which the loop is reached) and the condition assumed by the iteration is
    equivalent to cond_of(var)"""
    v = tm.sym("iter_" + var, "I")
    conds = []
    for s_ in info["iter"].get(o, []):
        for c_ in s_.pc:
            if v in tm.subterms(c_):
                conds.append(c_); break
    if not conds or not info["entry"].get(o):
        r.add(label + ".range", UNDECIDED, "symex", 0, "loop condition not read"); return
    want = cond_of(v)
    okc = B.z3_prove(list(hyp) + [want], conds[0])[0] == "proved" and B.z3_prove(list(hyp) + [conds[0]], want)[0] == "proved"
    r.add(label + ".runs_while_%s" % re.sub(r"\s+", "", repr(want))[:60], DISCHARGED if okc else FAILED, "z3", 0, "loop condition %r" % (conds[0],))
    init = ex.loop_parts(node)[0]
    v0 = None
    if init is not None:
        try:
            for s0 in ex.exec(init, [info["entry"][o][0].clone()]):
                v0 = local(info, s0, var)
        except Exception:
            v0 = None
    okv = v0 is not None and not isinstance(v0, tuple) and (v0 is first or B.z3_prove(list(hyp), tm.eq(v0, first))[0] == "proved")
    r.add(label + ".starts_at_%s" % re.sub(r"\s+", "", repr(first))[:40], DISCHARGED if okv else FAILED, "z3", 0, "initial value %r" % (v0,))


def copy_token_advances(c):
    """copy_token(token, &cptr, &l): returns the class of the next token and ADVANCES *cptr past it (the position is a fresh value afterwards)"""
    def h(ex_, st, n, name, recv, args):
        res = SX.fresh("ret_copy_token", "I")
        if len(args) >= 2:
            ex_.store(st, ("elem", args[1], tm.num(0, "I")), SX.fresh("pos_after_token", "P"), "P")
        st.events.append(SX.Event(name, recv, list(args), res, n))
        return [(st, res)]
    c.handlers["copy_token"] = h
    c.handlers["Phreeqc::copy_token"] = h
    return c


def unit_pitz_param_read(twin=False):
    """pitz_param_read(line, n): the first n tokens of the line are the species names, stored IN ORDER in species[0..n-1] (interned by
    string_hsave); the following tokens are the temperature coefficients, token number i (0-based, at most six) scanned into a[i]; reading
    stops at the first missing / non-numeric token, the coefficients not given stay at the constructor's 0; the line yields a parameter
    (a fresh record holding exactly what was read) iff n is 0, 2 or 3, the line is not empty, all n names are there and at least one
    coefficient was read - otherwise NULL and nothing is created."""
    q = "Phreeqc::pitz_param_read"
    ev = enum_vals()
    c = copy_token_advances(mkctx())
    fn, ex, fin, info = U.run_function(PSTR, q, modes={0: "iter", 1: "iter"}, ctx=c)
    r = U.new_unit("C16.pitz_param_read.species_names_then_coefficients_a0_to_a5_in_order", PSTR, q, fn)
    ps = A.params_of(fn)
    line, n = tm.sym("P0_%s" % ps[0]["name"], "P"), tm.sym("P1_%s" % ps[1]["name"], "I")
    seen = set()
    # the record being filled, the token buffer and the running position: identified by their use (copied into the result; arguments of copy_token)
    cps = [e for s in live(fin, ("ret",)) for e in s.events if e.name.endswith("operator=")]
    cts = [e for s in live(fin, ("ret",)) for e in s.events if e.name.endswith("copy_token")]
    if not cps or not cts:
        raise Undecided("pitz_param_read: the copy of the local record into the result / the first copy_token call was not found")
    PZP, TOK, CPTR = cps[0].args[0], cts[0].args[0], cts[0].args[1]
    obj_of = lambda info_, s_, name: {"pzp": PZP, "token": TOK, "cptr": CPTR}[name]
    # names
    for s0 in info["entry"].get(0, [])[:1]:
        pzp, cptr = obj_of(info, s0, "pzp"), obj_of(info, s0, "cptr")
        start = tm.select(ex.heap_arr(s0, ("m", "P")), cptr, tm.num(0, "I"))
        r.add("names.reading_starts_at_the_beginning_of_the_line", DISCHARGED if start is line else FAILED, "symex", 0, repr(start)[:100])
    for s in live(info["iter"].get(0, []), ("run", "cont", "ret", "brk")):
        pzp, cptr, tok = obj_of(info, s, "pzp"), obj_of(info, s, "cptr"), obj_of(info, s, "token")
        i = tm.sym("iter_i", "I")
        ct = [e for e in U.iter_events(s) if e.name.endswith("copy_token")]
        okc = len(ct) == 1 and ct[0].args[0] is tok and ct[0].args[1] is cptr
        if not okc:
            r.add("names.next_token_taken_from_the_running_position", FAILED, "symex", 0, repr(ct)[:200]); continue
        wr = [(k, ix, v) for k, ix, v in U.iter_writes(s) if k != ("f", "input_error", "I") and not (k == ("m", "P") and ix[0] is cptr)]
        for hy, empty in cases(list(s.pc), tm.eq(ct[0].result, tm.num(ev["EMPTY"], "I"))):
            if empty:
                ok = s.status == "ret" and tm.isnum(s.ret) and s.ret.args[0] == 0 and not wr
                r.add("names.a_missing_species_name_yields_no_parameter#%d" % len(r.obligations), DISCHARGED if ok else FAILED, "symex", 0, "%s %r" % (s.status, s.ret)); seen.add("short")
            else:
                hs = [e for e in U.iter_events(s) if e.name.endswith("string_hsave")]
                slot = (tm.app("fld:species", (pzp,), "P"), i if not twin else i + tm.num(1, "I"))
                ok = s.status in ("run", "cont") and len(hs) == 1 and hs[0].args[0] is tok and len(wr) == 1 and wr[0][0] == ("m", "P") and tuple(wr[0][1]) == slot and wr[0][2] is hs[0].result
                r.add("names.token_i_becomes_species[i](interned)#%d" % len(r.obligations), DISCHARGED if ok else FAILED, "symex", 0, repr(wr)[:200]); seen.add("name")
    lp = [x for x in A.walk(fn) if x.get("kind") in ("ForStmt", "WhileStmt", "DoStmt")]
    if len(lp) != 2:
        raise Undecided("pitz_param_read: two loops expected, %d found" % len(lp))
    for o, bound, label in ((0, n, "names"), (1, tm.num(6, "I"), "coefficients")):
        range_in_context(r, label + ".loop", ex, info, lp[o], o, "i", tm.num(0, "I"), lambda v, b=bound: tm.lt(v, b))
    # coefficients
    for s in live(info["iter"].get(1, []), ("run", "cont", "ret", "brk")):
        pzp, cptr, tok = obj_of(info, s, "pzp"), obj_of(info, s, "cptr"), obj_of(info, s, "token")
        i = tm.sym("iter_i", "I")
        ct = [e for e in U.iter_events(s) if e.name.endswith("copy_token")]
        sc = [e for e in U.iter_events(s) if e.name.endswith("sscanf")]
        k1, k0 = loc(info, s, "k"), tm.sym("iter_k", "I")
        if not (len(ct) == 1 and ct[0].args[0] is tok and ct[0].args[1] is cptr):
            r.add("coefficients.next_token_taken_from_the_running_position", FAILED, "symex", 0, repr(ct)[:200]); continue
        for hy, empty in cases(list(s.pc), tm.eq(ct[0].result, tm.num(ev["EMPTY"], "I"))):
            if empty:
                ok = s.status == "brk" and not sc and k1 is k0
                r.add("coefficients.end_of_line_ends_the_list#%d" % len(r.obligations), DISCHARGED if ok else FAILED, "symex", 0, s.status); seen.add("eol")
                continue
            want = tm.app("fld:a", (pzp,), "P") + (i if not twin else tm.num(0, "I"))
            oks = len(sc) == 1 and sc[0].args[0] is tok and len(sc[0].args) == 3 and (sc[0].args[2] is want or B.z3_prove([], tm.eq(sc[0].args[2], want))[0] == "proved")
            r.add("coefficients.token_i_is_scanned_into_a[i]#%d" % len(r.obligations), DISCHARGED if oks else FAILED, "symex", 0, repr(sc and sc[0].args)[:200])
            if not sc:
                continue
            for hy2, got in cases(hy, tm.lt(tm.num(0, "I"), sc[0].result)):
                if got:
                    ok = s.status in ("run", "cont") and B.z3_prove(hy2, tm.eq(k1, k0 + tm.num(1, "I")))[0] == "proved"
                    r.add("coefficients.a_number_read_is_counted_and_reading_goes_on#%d" % len(r.obligations), DISCHARGED if ok else FAILED, "symex", 0, "%s %r" % (s.status, k1)); seen.add("num")
                else:
                    ok = s.status == "brk" and k1 is k0
                    r.add("coefficients.a_non_number_ends_the_list#%d" % len(r.obligations), DISCHARGED if ok else FAILED, "symex", 0, s.status); seen.add("nan")
        stray = [(k, ix) for k, ix, v in U.iter_writes(s) if not (k == ("m", "P") and ix[0] is cptr)]
        r.add("coefficients.frame_nothing_else_written#%d" % len(r.obligations), DISCHARGED if not stray else FAILED, "symex", 0, repr(stray)[:200], kind="frame")
    for s0 in info["entry"].get(1, [])[:1]:
        k_in = loc(info, s0, "k")
        r.add("coefficients.count_starts_at_0", DISCHARGED if tm.isnum(k_in) and k_in.args[0] == 0 else FAILED, "symex", 0, repr(k_in))
        pos = tm.select(ex.heap_arr(s0, ("m", "P")), obj_of(info, s0, "cptr"), tm.num(0, "I"))
        r.add("coefficients.follow_the_names_on_the_line(position_not_reset)", DISCHARGED if pos is not line and line not in tm.subterms(pos) else FAILED, "symex", 0, repr(pos)[:120])
    # result
    valid_n = tm.or_(tm.eq(n, tm.num(2, "I")), tm.eq(n, tm.num(3, "I")), tm.eq(n, tm.num(0, "I")))
    for s in live(fin, ("ret",)):
        isnull = tm.isnum(s.ret) and s.ret.args[0] == 0
        news = [e for e in s.events if e.name.startswith("new ")]
        cp = [e for e in s.events if e.name.endswith("operator=")]
        if isnull:
            r.add("result.NULL_creates_nothing#%d" % len(r.obligations), DISCHARGED if not news else FAILED, "symex", 0, ""); seen.add("null")
            kk = loc(info, s, "k")
            first = [e for e in s.events if e.name.endswith("copy_token")]
            reasons = [tm.not_(valid_n), tm.eq(line, tm.num(0, "P"))]
            if first:
                reasons.append(tm.eq(first[0].result, tm.num(ev["EMPTY"], "I")))
            if not (isinstance(kk, tuple)) and kk.op == "sym" and kk.args[0].startswith("havoc"):
                reasons.append(tm.le(kk, tm.num(0, "I")))
            U.discharge_valid(r, "result.NULL_only_for_bad_count_empty_line_or_no_coefficient#%d" % len(r.obligations), list(s.pc), tm.or_(*reasons))
        else:
            pzp = obj_of(info, s, "pzp")
            ok = len(news) == 1 and s.ret is news[0].result and len(cp) == 1 and cp[0].recv is s.ret and cp[0].args[0] is pzp
            r.add("result.fresh_record_holding_what_was_read", DISCHARGED if ok else FAILED, "symex", 0, repr(cp)[:200]); seen.add("made")
            U.discharge_valid(r, "result.parameter_only_for_n_in{0,2,3},non-empty_line,at_least_one_coefficient", list(s.pc),
                              tm.and_(valid_n, tm.not_(tm.eq(line, tm.num(0, "P"))), tm.lt(tm.num(0, "I"), loc(info, s, "k"))))
    # the constructor leaves what is not read at 0 / NULL / -1 / TYPE_Other
    fc, exc, finc, infoc = U.run_function(PSTR, "pitz_param::pitz_param", default="unroll", ctx=mkctx())
    for s in live(finc, ("run", "ret")):
        w = {}
        for k, ix, v in U.iter_writes(s):
            w[(k[1] if k[0] == "f" else repr(ix[0]).split("(")[0].replace("fld:", ""), int(ix[1].args[0]) if len(ix) > 1 and tm.isnum(ix[1]) else None)] = v
        z = lambda key, val: key in w and tm.isnum(w[key]) and w[key].args[0] == val
        ok = all(z(("a", j), 0) for j in range(6)) and all(z(("species", j), 0) and z(("ispec", j), -1) and z(("ln_coef", j), 0) for j in range(3)) \
            and z(("type", None), ev["TYPE_Other"]) and z(("alpha", None), 0) and z(("os_coef", None), 0) and z(("thetas", None), 0) and z(("p", None), 0)
        r.add("constructor.coefficients_not_given_are_0_names_NULL_indices_-1_type_Other", DISCHARGED if ok else FAILED, "symex", 0, repr(sorted(w, key=repr))[:300]); seen.add("ctor")
    need = {"short", "name", "eol", "num", "nan", "null", "made", "ctor"}
    r.add("reach.all_parts", DISCHARGED if need <= seen else UNDECIDED, "symex", 0, repr(sorted(need - seen)), kind="vacuity")
    r.assumptions += ["copy_token(token, &cptr, &l) copies the next blank-separated token and advances cptr; sscanf(token, \"%lf\", p) stores the number it reads at p and returns the number of conversions",
                      "string_hsave interns the name (pointer equality of names = equality of names, used by ISPEC)", "*pzp_ptr = pzp copies every member (compiler-generated assignment)",
                      "locals read by name: k (count of coefficients read), i (induction variable)", "the warning for a name that does not start with an upper-case letter or '(' is not part of the contract"]
    return r


# ------------------------------------------------------------------------------------------------------------------------------------
# 3. pitz_param_store / sit_param_store and the re-keying of the tidy step: one entry per (type, set of species names)
# ------------------------------------------------------------------------------------------------------------------------------------

def loops_doing(fn, rel, what):
    """ordinals (outermost first) of the loops whose body text contains every string of `what`"""
    what = (what,) if isinstance(what, str) else what
    loops = [x for x in A.walk(fn) if x.get("kind") in ("ForStmt", "WhileStmt", "DoStmt")]
    hits = [k for k, lp in enumerate(loops) if all(w in text_of(rel, lp["inner"][-1]) for w in what)]
    if not hits:
        raise Undecided("loop whose body contains %r not found" % (what,))
    return hits


def loops_inside(fn, ordinal):
    loops = [x for x in A.walk(fn) if x.get("kind") in ("ForStmt", "WhileStmt", "DoStmt")]
    return [k for k, lp in enumerate(loops) if k != ordinal and any(y is lp for y in A.walk(loops[ordinal]))]


def key_recipe(ex, s, events, P):
    """how a look-up key is put together on one path: ('null pattern of the three names', [normalised steps]) - the names put into the
    (sorted, duplicate-free) std::set, what is streamed into the key before them.  P is the parameter record the key is made for."""
    memP = None
    steps = []
    pz = tm.sym("PZ", "P")
    for e in events:
        nm = e.name.split("::")[-1]
        if nm in ("insert", "operator<<", "str"):
            steps.append((nm,) + tuple(repr(tm.substitute(a, {P: pz}))[:160] for a in e.args))
        if nm == "str":
            break
    return steps


def null_pattern(hyps, ex, s, P):
    pat = []
    for k in range(3):
        sp = tm.select(base_arr(ex, s, ("m", "P")), tm.app("fld:species", (P,), "P"), tm.num(k, "I"))
        isn = tm.eq(sp, tm.num(0, "P"))
        if B.z3_prove(list(hyps), isn)[0] == "proved":
            pat.append(True)
        elif B.z3_prove(list(hyps), tm.not_(isn))[0] == "proved":
            pat.append(False)
        else:
            pat.append(None)
    return tuple(pat)


def base_arr(ex, s, key):
    """the memory component as the function / iteration found it"""
    a = entry_arr(ex, s, key)
    return a


def const_bound(rel, lp):
    """a counting loop with a literal bound (for (i = 0; i < 3; i++)): it can be unrolled"""
    return lp.get("kind") == "ForStmt" and re.search(r"(<|<=)\d+$", text_of(rel, lp["inner"][2]) or "") is not None


def store_paths(rel, q):
    fn = A.find_function(rel, q)
    o_it = loops_doing(fn, rel, "<<*it")[0] if False else None
    loops = [x for x in A.walk(fn) if x.get("kind") in ("ForStmt", "WhileStmt", "DoStmt")]
    modes = {}
    for k, lp in enumerate(loops):
        modes[k] = "unroll" if const_bound(rel, lp) else "iter"
    f, ex, fin, info = U.run_function(rel, q, modes=modes, ctx=mkctx())
    return f, ex, fin, info, modes


def unit_param_store(which, twin=False):
    """pitz_param_store / sit_param_store(p): the store of the model holds ONE entry per key = (parameter type, SET of the species names of
    the line - sorted and duplicate-free, so the order in which a database line names the species does not matter).  A parameter whose key
    is already known REPLACES the old record in place (same index, old record freed, number of entries unchanged - a redefinition never adds
    a second entry that the sums would count twice); a new key appends the record and remembers its index under that key; NULL and untyped
    (TYPE_Other) records are ignored.  The tidy step re-keys the whole store after it has added / removed entries with the SAME recipe, each
    record under its own index."""
    rel2, qt, fnm, vec, mp = {"pitzer": (PITZ, "Phreeqc::pitzer_tidy", "pitz_param_store", "pitz_params", "pitz_param_map"),
                              "sit": (SITF, "Phreeqc::sit_tidy", "sit_param_store", "sit_params", "sit_param_map")}[which]
    q = "Phreeqc::" + fnm
    ev = enum_vals()
    fn, ex, fin, info, modes = store_paths(PSTR, q)
    r = U.new_unit("C16.%s.one_entry_per_type_and_species_set_redefinition_replaces" % fnm, PSTR, q, fn)
    P = tm.sym("P0_%s" % A.params_of(fn)[0]["name"], "P")
    V, MAP = tm.app("fld:" + vec, (THIS,), "P"), tm.app("fld:" + mp, (THIS,), "P")
    seen = set(); recipes = {}
    for s in live(fin, ("ret", "run")):
        wr = [(k, ix, v) for k, ix, v in U.iter_writes(s) if k != ("f", "error_string", "P")]
        ins = [e for e in s.events if e.name.endswith("::insert")]
        if not ins and not [e for e in s.events if e.name.endswith("::str")]:
            ign = tm.or_(tm.eq(P, tm.num(0, "P")), tm.eq(fld0(ex, s, "type", "I", P), tm.num(ev["TYPE_Other"], "I")))
            U.discharge_valid(r, "ignored.only_NULL_or_untyped_records#%d" % len(r.obligations), list(s.pc), ign)
            r.add("ignored.nothing_written#%d" % len(r.obligations), DISCHARGED if not wr else FAILED, "symex", 0, repr(wr)[:200], kind="frame"); seen.add("ign")
            continue
        U.discharge_valid(r, "stored.record_is_typed#%d" % len(r.obligations), list(s.pc), tm.and_(tm.not_(tm.eq(P, tm.num(0, "P"))), tm.not_(tm.eq(fld0(ex, s, "type", "I", P), tm.num(ev["TYPE_Other"], "I")))))
        pat = null_pattern(s.pc, ex, s, P)
        want = [repr(tm.app("string_of", (tm.select(base_arr(ex, s, ("m", "P")), tm.app("fld:species", (P,), "P"), tm.num(k, "I")),), "S")) for k in range(3) if pat[k] is False]
        got = [repr(e.args[0]) for e in ins]
        okn = None not in pat and sorted(got) == sorted(want)
        r.add("key.names_in_the_set_are_exactly_the_names_given%s#%d" % (repr(pat).replace(" ", ""), len(r.obligations)), DISCHARGED if okn else FAILED, "symex", 0, repr(got)[:200])
        steps = key_recipe(ex, s, s.events, P)
        st = [x for x in steps if x[0] == "operator<<"]
        okt = bool(st) and st[0][1] == repr(tm.select(base_arr(ex, s, ("f", "type", "I")), tm.sym("PZ", "P")))
        if twin:
            okt = bool(st) and st[0][1] == repr(tm.select(base_arr(ex, s, ("f", "p", "R")), tm.sym("PZ", "P")))
        r.add("key.starts_with_the_parameter_type#%d" % len(r.obligations), DISCHARGED if okt else FAILED, "symex", 0, repr(st)[:200])
        recipes.setdefault(pat, steps)
        strs = [e for e in s.events if e.name.endswith("::str")]
        key = tm.app("string_of", (tm.app("c_str", (strs[0].result,), "P"),), "S") if strs else None
        has = tm.select(base_arr(ex, s, ("m2", "#mhas", "B", "S")), MAP, key) if key is not None else None
        n0 = tm.select(base_arr(ex, s, ("f", "#vsize", "I")), V)
        data = tm.select(base_arr(ex, s, ("f", "#vdata", "P")), V)
        vw = [(ix, v) for k, ix, v in wr if k == ("m", "P")]
        mw = [(k, ix, v) for k, ix, v in wr if k[0] == "m2"]
        sz = [(ix, v) for k, ix, v in wr if k == ("f", "#vsize", "I") and ix[0] is V]
        dl = [e for e in s.events if e.name == "delete"]
        for hy, known in cases(list(s.pc), has):
            if known:
                idx = tm.select(base_arr(ex, s, ("m2", "#mval", "I", "S")), MAP, key)
                old = tm.select(base_arr(ex, s, ("m", "P")), data, idx)
                ok = len(vw) == 1 and vw[0][0][0] is data and (vw[0][0][1] is idx or B.z3_prove(hy, tm.eq(vw[0][0][1], idx))[0] == "proved") and vw[0][1] is P and not sz and not mw
                r.add("redefinition.replaces_the_record_at_the_index_of_its_key_no_new_entry#%d" % len(r.obligations), DISCHARGED if ok else FAILED, "symex", 0, repr(vw + sz + mw)[:200]); seen.add("redef")
                okd = len(dl) == 1 and (dl[0].args[0] is old or B.z3_prove(hy, tm.eq(dl[0].args[0], old))[0] == "proved")
                r.add("redefinition.old_record_freed#%d" % len(r.obligations), DISCHARGED if okd else FAILED, "symex", 0, repr(dl)[:200])
            else:
                ok = len(vw) == 1 and vw[0][0][0] is data and B.z3_prove(hy, tm.eq(vw[0][0][1], n0))[0] == "proved" and vw[0][1] is P and len(sz) == 1 and B.z3_prove(hy, tm.eq(sz[0][1], n0 + tm.num(1, "I")))[0] == "proved"
                r.add("new_key.record_appended(size+1,last=record)#%d" % len(r.obligations), DISCHARGED if ok else FAILED, "symex", 0, repr(vw + sz)[:200]); seen.add("new")
                mv = [(ix, v) for k, ix, v in mw if k[1] == "#mval"]
                okm = len(mv) == 1 and mv[0][0][0] is MAP and mv[0][0][1] is key and B.z3_prove(hy, tm.eq(mv[0][1], n0))[0] == "proved" and not dl
                r.add("new_key.index_remembered_under_the_same_key#%d" % len(r.obligations), DISCHARGED if okm else FAILED, "symex", 0, repr(mv)[:200])
        other = [(k, ix) for k, ix, v in wr if not (k == ("m", "P") or k[0] == "m2" or k in (("f", "#vsize", "I"), ("f", "#msize", "I")))]
        r.add("frame.only_the_store_and_its_key_map#%d" % len(r.obligations), DISCHARGED if not other else FAILED, "symex", 0, repr(other)[:200], kind="frame")
    # iteration over the set: every name of the set goes into the key
    o_it = [k for k, m_ in modes.items() if m_ == "iter"]
    ni = 0
    for s in live(info["iter"].get(o_it[0], []) if o_it else [], ("run", "cont")):
        sh = [e for e in U.iter_events(s) if e.name.endswith("operator<<")]
        ok = len(sh) == 2 and "mnode(iter_it)" in repr(sh[0].args[0]) and repr(sh[1].args[0]) == '" "'
        ni += 1
        if ni <= 1 or not ok:
            r.add("key.every_name_of_the_set_is_appended_with_a_separator", DISCHARGED if ok else FAILED, "symex", 0, repr(sh)[:200])
    # pairing with the tidy step
    ft = A.find_function(rel2, qt)
    o_t = loops_doing(ft, rel2, "%s[key]=" % mp)[0]
    inner = loops_inside(ft, o_t)
    loops_t = [x for x in A.walk(ft) if x.get("kind") in ("ForStmt", "WhileStmt", "DoStmt")]
    im = {k: ("unroll" if const_bound(rel2, loops_t[k]) else "iter") for k in inner}
    f2, ex2, its2, info2 = U.run_loop_isolated(rel2, qt, o_t, ctx=mkctx(), inner_modes=im)
    npair = 0
    for s in live(its2, ("run", "cont")):
        j = tm.sym("iter_j", "I")
        Pj = tm.select(base_arr(ex2, s, ("m", "P")), tm.select(base_arr(ex2, s, ("f", "#vdata", "P")), V), j)
        pat = null_pattern(s.pc, ex2, s, Pj)
        steps = key_recipe(ex2, s, U.iter_events(s), Pj)
        if pat in recipes:
            npair += 1
            same = steps == recipes[pat]
            r.add("tidy.re-keys_with_the_recipe_of_the_store%s" % repr(pat).replace(" ", ""), DISCHARGED if same else FAILED, "trace", 0, "" if same else "%r  vs  %r" % (steps, recipes[pat]))
        strs = [e for e in U.iter_events(s) if e.name.endswith("::str")]
        key = tm.app("string_of", (tm.app("c_str", (strs[0].result,), "P"),), "S") if strs else None
        mv = [(ix, v) for k, ix, v in U.iter_writes(s) if k[0] == "m2" and k[1] == "#mval"]
        okm = key is not None and len(mv) == 1 and mv[0][0][0] is MAP and mv[0][0][1] is key and mv[0][1] is j
        if not okm or npair <= 1:
            r.add("tidy.record_j_is_remembered_under_its_own_key_as_index_j#%d" % len(r.obligations), DISCHARGED if okm else FAILED, "symex", 0, repr(mv)[:200])
    for o_ in inner:
        if im[o_] == "iter":
            for s in live(info2["inner_iters"].get(o_, []), ("run", "cont"))[:1]:
                sh = [e for e in U.iter_events(s) if e.name.endswith("operator<<")]
                ok = len(sh) == 2 and "mnode(iter_it)" in repr(sh[0].args[0]) and repr(sh[1].args[0]) == '" "'
                r.add("tidy.every_name_of_the_set_is_appended_with_a_separator", DISCHARGED if ok else FAILED, "symex", 0, repr(sh)[:200]); seen.add("tidy_it")
    check_loop_range(r, "tidy.re-keying", ex2, None, info2, its2, "j", tm.num(0, "I"), lambda v: tm.lt(v, tm.select(tm.sym("H0.#vsize:I", ("A", "P", "I")), V)))
    # the map is emptied before it is rebuilt
    par = [x for x in A.walk(ft) if x.get("kind") == "CompoundStmt" and any(y is loops_t[o_t] for y in x.get("inner", []))]
    okc = False
    if par:
        sib = par[0]["inner"]
        okc = any(text_of(rel2, y) == "%s.clear()" % mp for y in sib[:[i for i, y in enumerate(sib) if y is loops_t[o_t]][0]])
    r.add("tidy.key_map_emptied_before_it_is_rebuilt", DISCHARGED if okc else FAILED, "syntactic", 0, "", kind="structural")
    need = {"ign", "redef", "new", "tidy_it"}
    r.add("reach.all_cases", DISCHARGED if need <= seen and npair >= 4 and ni >= 1 else UNDECIDED, "symex", 0, "%r pairs=%d" % (sorted(need - seen), npair), kind="vacuity")
    r.assumptions += ["STL model: std::map find / operator[] / size, std::vector resize; std::set<std::string> keeps its elements sorted and unique (the calls are recorded, the container is libstdc++'s)",
                      "the key text is what the recorded stream insertions produce (type, blank, every name of the set followed by a blank)", "tidy: the statement that empties the map is located as text (which statement exists)",
                      "species names are interned strings"]
    return r


# ------------------------------------------------------------------------------------------------------------------------------------
# 4. tidy step: species sorted into the cation / neutral / anion blocks of `spec`, names resolved to the indices the sums use
# ------------------------------------------------------------------------------------------------------------------------------------

def vdata(ex, s, name, entry=True):
    a = entry_arr(ex, s, ("f", "#vdata", "P")) if entry else ex.heap_arr(s, ("f", "#vdata", "P"))
    return tm.select(a, tm.app("fld:" + name, (THIS,), "P"))


def vsize0(name):
    return tm.select(tm.sym("H0.#vsize:I", ("A", "P", "I")), tm.app("fld:" + name, (THIS,), "P"))


def unit_tidy_blocks(which, twin=False):
    """pitzer_tidy / sit_tidy, the index structure every sum of pitzer() / sit() relies on: `spec` has three blocks of s.size() slots -
    cations from 0, neutral species from s.size(), anions from 2*s.size() - with their counts reset; every species of the database except
    e-, H2O and exchange / surface species is appended to exactly one block, chosen by its charge (positive: cations, negative: anions,
    zero: neutrals), and the count of that block grows by one; ISPEC(name) is the slot of `spec` that holds the species of that (interned)
    name, -1 when there is none, searched over all three blocks; every species name of a parameter is resolved with it into ispec[j] of
    the same j, and a parameter whose first or second species does not exist is an input error (tidy fails), never a silent index -1."""
    rel, q, pre, vec = {"pitzer": (PITZ, "Phreeqc::pitzer_tidy", "", "pitz_params"), "sit": (SITF, "Phreeqc::sit_tidy", "sit_", "sit_params")}[which]
    ev = enum_vals()
    fn = A.find_function(rel, q)
    r = U.new_unit("C16.%s_tidy.species_blocks_of_spec_and_parameter_names_resolved_to_their_slots" % which, rel, q, fn)
    seen = set()
    cnt = {"c": pre + "count_cations", "n": pre + "count_neutrals", "a": pre + "count_anions"}
    blk = {"c": "cations", "n": "neutrals", "a": "anions"}
    # (a) layout
    o = loops_doing(fn, rel, ("cations[", "anions[", "neutrals["))[0]
    body = A.body_of(fn)["inner"]
    lpn = [x for x in A.walk(fn) if x.get("kind") in ("ForStmt", "WhileStmt", "DoStmt")][o]
    if not any(y is lpn for y in body):
        raise Undecided("the loop that sorts the species is not a top-level statement of %s" % q)
    sts = [y for y in body[:[k for k, y in enumerate(body) if y is lpn][0]] if y.get("kind") != "DeclStmt"]
    f, ex, fin, info = region(rel, q, sts, mkctx())
    S = vsize0("s")
    for s in live(fin)[:1]:
        rs = [e for e in s.events if e.name == "vector.resize"]
        d = vdata(ex, s, "spec", entry=False)
        for key, off in (("c", tm.num(0, "I")), ("n", S), ("a", tm.num(2, "I") * S if not twin else S)):
            got = fld(ex, s, blk[key], "P")
            ok = B.z3_prove(list(s.pc), tm.eq(got, d + off))[0] == "proved" or got is d
            r.add("layout.%s_block_starts_at_%s" % (blk[key], {"c": "0", "n": "s.size()", "a": "2*s.size()"}[key]), DISCHARGED if ok else FAILED, "z3", 0, repr(got)[:160])
            r.add("layout.%s_reset_to_0" % cnt[key], DISCHARGED if is_val(fld(ex, s, cnt[key], "I"), 0) else FAILED, "symex", 0, repr(fld(ex, s, cnt[key], "I")))
        ot, op_ = fld(ex, s, "OTEMP", "R"), fld(ex, s, "OPRESS", "R")
        okt = tm.isnum(ot) and ot.args[0] < 0 and tm.isnum(op_) and op_.args[0] < 0
        r.add("layout.remembered_temperature_and_pressure_invalidated(new_parameters_are_evaluated)", DISCHARGED if okt else FAILED, "symex", 0, "%r %r" % (ot, op_))
        newsize = fld(ex, s, "#vsize", "I", tm.app("fld:spec", (THIS,), "P"))
        oks = B.z3_prove(list(s.pc), tm.eq(newsize, tm.num(3, "I") * S))[0] == "proved"
        r.add("layout.spec_has_3*s.size()_slots", DISCHARGED if oks else FAILED, "z3", 0, repr(newsize)[:120]); seen.add("layout")
    # (b) classification loop
    f, ex, its, info = U.run_loop_isolated(rel, q, o, ctx=mkctx())
    i = tm.sym("iter_i", "I")
    for s in live(its, ("run", "cont")):
        sp = tm.select(entry_arr(ex, s, ("m", "P")), vdata(ex, s, "s"), i)
        z = fld0(ex, s, "z", "R", sp); ty = fld0(ex, s, "type", "I", sp)
        skip = tm.or_(tm.eq(sp, fld0(ex, s, "s_eminus", "P")), tm.eq(sp, fld0(ex, s, "s_h2o", "P")), tm.eq(ty, tm.num(ev["EX"], "I")), tm.eq(ty, tm.num(ev["SURF"], "I")))
        wr = U.iter_writes(s)
        for hy, sk in cases(list(s.pc), skip):
            if sk:
                r.add("classify.e-,H2O,exchange_and_surface_species_enter_no_block#%d" % len(r.obligations), DISCHARGED if not wr else FAILED, "symex", 0, repr(wr)[:200]); seen.add("skip")
                continue
            hit = [key for key in "cna" if any(k == ("f", cnt[key], "I") for k, ix, v in wr)]
            if len(hit) != 1 or len(wr) != 2:
                r.add("classify.exactly_one_block_receives_the_species#%d" % len(r.obligations), FAILED, "symex", 0, repr(wr)[:200]); continue
            key = hit[0]
            c0 = fld0(ex, s, cnt[key], "I")
            okc = all((k == ("f", cnt[key], "I") and B.z3_prove(hy, tm.eq(v, c0 + tm.num(1, "I")))[0] == "proved") or
                      (k == ("m", "P") and ix[0] is fld0(ex, s, blk[key], "P") and ix[1] is c0 and v is sp) for k, ix, v in wr)
            r.add("classify.species_appended_at_the_end_of_one_block_and_counted(%s)" % blk[key], DISCHARGED if okc else FAILED, "symex", 0, repr(wr)[:200]); seen.add(key)
            half = tm.Q("1/2")
            want = {"c": tm.le(half, z), "a": tm.le(z, tm.neg(half)), "n": tm.eq(z, tm.num(0))}
            for k2 in "cna":
                # a species of charge >= 1/2, <= -1/2, == 0 must be in the cation, anion, neutral block (the code's tolerance 0.001 lies inside)
                if k2 != key:
                    U.discharge_valid(r, "classify.%s_block_receives_no_species_of_%s_charge" % (blk[key], {"c": "positive", "a": "negative", "n": "zero"}[k2]), hy, tm.not_(want[k2 if not twin else key]))
    check_loop_range(r, "classify.every_species_of_the_database", ex, None, info, its, "i", tm.num(0, "I"), lambda v: tm.lt(v, S))
    # (c) ISPEC
    qi = "Phreeqc::%sISPEC" % pre
    c = mkctx()
    fi, exi, fini, infoi = U.run_function(rel, qi, modes={0: "iter"}, ctx=c)
    nm = tm.sym("P0_%s" % A.params_of(fi)[0]["name"], "P")
    for s in live(infoi["iter"].get(0, []), ("run", "cont", "ret")):
        slot = tm.select(entry_arr(exi, s, ("m", "P")), vdata(exi, s, "spec"), i)
        match = tm.and_(tm.not_(tm.eq(slot, tm.num(0, "P"))), tm.eq(nm, fld0(exi, s, "name", "P", slot)))
        for hy, m_ in cases(list(s.pc), match):
            if m_:
                ok = s.status == "ret" and s.ret is i
                r.add("ISPEC.returns_the_slot_that_holds_the_species_of_that_name", DISCHARGED if ok else FAILED, "symex", 0, "%s %r" % (s.status, s.ret)); seen.add("hit")
            else:
                r.add("ISPEC.other_slots_are_passed_over#%d" % len(r.obligations), DISCHARGED if s.status in ("run", "cont") else FAILED, "symex", 0, s.status); seen.add("miss")
    range_in_context(r, "ISPEC.search", exi, infoi, [x for x in A.walk(fi) if x.get("kind") == "ForStmt"][0], 0, "i", tm.num(0, "I"), lambda v: tm.lt(v, tm.num(3, "I") * S))
    for s in live(fini, ("ret",)):
        r.add("ISPEC.no_such_species:-1", DISCHARGED if is_val(s.ret, -1) else FAILED, "symex", 0, repr(s.ret)); seen.add("none")
    # (d) names of the parameters resolved
    o2 = loops_doing(fn, rel, "ispec[j]=")[0]
    inner = loops_inside(fn, o2)
    f, ex, its, info = U.run_loop_isolated(rel, q, o2, ctx=mkctx(functional=("ISPEC", "sit_ISPEC")), inner_modes={k: "unroll" for k in inner})
    for s in live(its, ("run", "cont", "ret")):
        Pz = tm.select(entry_arr(ex, s, ("m", "P")), vdata(ex, s, vec), i)
        wr = [(k, ix, v) for k, ix, v in U.iter_writes(s) if k == ("m", "I")]
        bad = None
        for j in range(3):
            spj = tm.select(entry_arr(ex, s, ("m", "P")), tm.app("fld:species", (Pz,), "P"), tm.num(j, "I"))
            wj = [v for k, ix, v in wr if ix[0] is tm.app("fld:ispec", (Pz,), "P") and is_val(ix[1], j)]
            dec = B.z3_prove(list(s.pc), tm.eq(spj, tm.num(0, "P")))[0] == "proved"
            given = B.z3_prove(list(s.pc), tm.not_(tm.eq(spj, tm.num(0, "P"))))[0] == "proved"
            if dec:
                if wj: bad = "ispec[%d] written for a missing name" % j
            elif given:
                okj = len(wj) == 1 and wj[0].op == "app" and wj[0].args[0].endswith("ISPEC") and wj[0].args[-1] is spj
                if s.status == "ret" and not wj:
                    continue              # tidy already failed at an earlier name
                if not okj: bad = "ispec[%d] is not ISPEC(species[%d]): %r" % (j, j, wj)
                if okj and j < 2:
                    # a first / second species that does not exist must be signalled as an input error (pitzer_tidy stops there; sit_tidy counts it and fails at its end)
                    for hy, missing in cases(list(s.pc), tm.eq(wj[0], tm.num(-1, "I"))):
                        if missing:
                            sig = any(k == ("f", "input_error", "I") for k, ix, v in U.iter_writes(s)) and (which == "sit" or (s.status == "ret" and is_val(s.ret, ev["ERROR"])))
                            seen.add("err")
                            if not sig:
                                bad = "tidy goes on although species[%d] was not found" % j
        r.add("resolve.ispec[j]==ISPEC(species[j])_for_every_name_given#%d" % len(r.obligations), DISCHARGED if bad is None else FAILED, "symex", 0, bad or ""); seen.add("res")
        stray = [(k, ix) for k, ix, v in U.iter_writes(s) if not (k == ("m", "I") and ix[0] is tm.app("fld:ispec", (Pz,), "P")) and k not in (("f", "error_string", "P"), ("f", "input_error", "I"))]
        if stray:
            r.add("resolve.frame#%d" % len(r.obligations), FAILED, "symex", 0, repr(stray)[:200], kind="frame")
    check_loop_range(r, "resolve.every_parameter", ex, None, info, its, "i", tm.num(0, "I"), lambda v: tm.lt(v, vsize0(vec)))
    if which == "sit":
        # the counted errors make sit_tidy fail at its end
        ft, ext, fint, infot = U.run_function(rel, q, ctx=mkctx())
        for s in live(fint, ("ret",)):
            g = [e for e in s.events if e.name.endswith("get_input_errors")]
            if not g:
                r.add("resolve.sit_tidy_asks_for_the_error_count_before_it_returns", FAILED, "symex", 0, ""); continue
            for hy, anyerr in cases(list(s.pc), tm.lt(tm.num(0, "I"), g[-1].result)):
                r.add("resolve.sit_tidy_%s#%d" % ("fails_when_input_errors_were_counted" if anyerr else "succeeds_otherwise", len(r.obligations)),
                      DISCHARGED if is_val(s.ret, ev["ERROR"] if anyerr else ev["OK"]) else FAILED, "symex", 0, repr(s.ret)); seen.add("tail")
    need = {"layout", "skip", "c", "n", "a", "hit", "miss", "none", "res", "err"} | ({"tail"} if which == "sit" else set())
    r.add("reach.all_parts", DISCHARGED if need <= seen else UNDECIDED, "symex", 0, repr(sorted(need - seen)), kind="vacuity")
    r.assumptions += ["species names are interned (string_hsave): ISPEC compares pointers", "charges of aqueous species are 0 or at least 1/2 in magnitude: the code's tolerance 0.001 decides nothing for them",
                      "the layout is what the statements before the sorting loop leave behind; loops are located by what their body does"]
    if which == "sit":
        r.assumptions += ["sit_tidy reports an unknown species through input_error and fails at its end (get_input_errors() > 0), not at the name"]
    return r


# ------------------------------------------------------------------------------------------------------------------------------------
# 5. tidy step: the higher-order electrostatic (ETHETA) terms - one per pair of like-charged ions, sharing one record per charge pair
# ------------------------------------------------------------------------------------------------------------------------------------

def loop_at(fn, o):
    return [x for x in A.walk(fn) if x.get("kind") in ("ForStmt", "WhileStmt", "DoStmt")][o]


def parent_loop(fn, o):
    loops = [x for x in A.walk(fn) if x.get("kind") in ("ForStmt", "WhileStmt", "DoStmt")]
    anc = [k for k, lp in enumerate(loops) if k != o and any(y is loops[o] for y in A.walk(lp))]
    return anc[-1] if anc else None


def unit_tidy_etheta(twin=False):
    """pitzer_tidy: the unsymmetrical-mixing term E-theta exists for EVERY pair of different cations and every pair of different anions,
    once per pair (i < j over the block), whether or not a theta parameter was given: stale ETHETA entries of an earlier tidy are dropped
    (all other parameters kept, once each), then one entry of type ETHETA is appended per pair, named by the two species of the pair; each
    ETHETA entry points to the one shared record (theta_params, rebuilt from empty) of its charge pair {z_i, z_j} - found by
    theta_param_search in either order, created with exactly these charges when new; pitzer() evaluates ETHETAS(zj, zk, I) once per record
    and stores both results in THAT record (only when use_etheta is on)."""
    q = "Phreeqc::pitzer_tidy"
    ev = enum_vals()
    fn = A.find_function(PITZ, q)
    r = U.new_unit("C16.pitzer_tidy.one_ETHETA_term_per_pair_of_like_charged_ions_sharing_one_record_per_charge_pair", PITZ, q, fn)
    seen = set()
    S = vsize0("s")
    ET = tm.num(ev["TYPE_ETHETA"], "I")
    # (a) stale entries dropped
    o1 = loops_doing(fn, PITZ, "pitz_params_temp[")[0]
    f, ex, its, info = U.run_loop_isolated(PITZ, q, o1, ctx=mkctx())
    i = tm.sym("iter_i", "I")
    for s in live(its, ("run", "cont")):
        dl = [e for e in U.iter_events(s) if e.name == "delete"]
        pb = [e for e in U.iter_events(s) if e.name == "vector.push_back"]
        elem = (dl[0].args[0] if dl else (pb[0].args[-1] if pb else None))
        if elem is None or len(dl) + len(pb) != 1:
            r.add("stale.each_old_entry_is_either_dropped_or_kept_once", FAILED, "symex", 0, repr(dl + pb)[:200]); continue
        src_ = tm.select(entry_arr(ex, s, ("m", "P")), tm.select(entry_arr(ex, s, ("f", "#vdata", "P")), obj_local(info, s, "pitz_params_temp")), i)
        src_addr = tm.select(entry_arr(ex, s, ("f", "#vdata", "P")), obj_local(info, s, "pitz_params_temp")) + i
        oke = elem is src_ or elem is src_addr or B.z3_prove(list(s.pc), tm.or_(tm.eq(elem, src_), tm.eq(elem, src_addr)))[0] == "proved"
        if pb:
            oke = oke and pb[0].recv is tm.app("fld:pitz_params", (THIS,), "P")
        ty = fld0(ex, s, "type", "I", src_)
        for hy, stale in cases(list(s.pc), tm.eq(ty, ET if not twin else tm.num(ev["TYPE_THETA"], "I"))):
            ok = oke and (bool(dl) if stale else bool(pb))
            r.add("stale.%s#%d" % ("old_ETHETA_entry_dropped" if stale else "every_other_parameter_kept_once", len(r.obligations)), DISCHARGED if ok else FAILED, "symex", 0, repr(dl + pb)[:200])
            seen.add("drop" if stale else "keep")
    lp1 = loop_at(fn, o1)
    body = A.body_of(fn)["inner"]
    k1 = [k for k, y in enumerate(body) if y is lp1]
    before = [text_of(PITZ, y) for y in body[:k1[0]]] if k1 else []
    okb = any(t.startswith("std::vector<pitz_param*>pitz_params_temp=pitz_params") for t in before) and "pitz_params.clear()" in before[-3:]
    r.add("stale.the_store_is_rebuilt_from_a_copy(copy_taken,store_emptied)", DISCHARGED if okb else FAILED, "syntactic", 0, repr(before[-3:])[:200], kind="structural")
    check_loop_range(r, "stale.every_old_entry", ex, None, info, its, "i", tm.num(0, "I"),
                     lambda v: tm.lt(v, tm.select(entry_arr(ex, its[0], ("f", "#vsize", "I")), tm.sym("&L_pitz_params_temp", "P"))))
    # (b) one entry per pair
    inner = [o for o in loops_doing(fn, PITZ, ("pitz_param_read(line,2)", "TYPE_ETHETA")) if parent_loop(fn, o) is not None and "pitz_param_read" in text_of(PITZ, loop_at(fn, o)["inner"][-1])]
    inner = [o for o in inner if not any(o2 != o and o2 in inner and any(y is loop_at(fn, o2) for y in A.walk(loop_at(fn, o))) for o2 in inner)]
    if len(inner) != 2:
        raise Undecided("the two pair loops (cations, anions) that create ETHETA entries were not found (%d)" % len(inner))
    for o_in, (label, first, cntf) in zip(inner, (("cations", tm.num(0, "I"), "count_cations"), ("anions", tm.num(2, "I") * S, "count_anions"))):
        o_out = parent_loop(fn, o_in)
        cN = tm.select(tm.sym("H0.%s:I" % cntf, ("A", "P", "I")), THIS)
        f, ex, its, info = U.run_loop_isolated(PITZ, q, o_in, ctx=mkctx())
        Li = tm.sym("L_i", "I"); j = tm.sym("iter_j", "I")
        Sx = tm.select(entry_arr(ex, its[0], ("f", "#vsize", "I")), tm.app("fld:s", (THIS,), "P"))
        first_x = first if label == "cations" else tm.num(2, "I") * Sx
        check_loop_range(r, "pairs.%s.partner_j" % label, ex, None, info, its, "j", Li + tm.num(1, "I"), lambda v: tm.lt(v, first_x + cN))
        for s in live(its, ("run", "cont")):
            evs = U.iter_events(s)
            sn = [e for e in evs if e.name.endswith("snprintf")]
            rd = [e for e in evs if e.name.endswith("pitz_param_read")]
            nm = lambda k_: fld0(ex, s, "name", "P", tm.select(entry_arr(ex, s, ("m", "P")), vdata(ex, s, "spec"), k_))
            okn = len(sn) == 1 and len(sn[0].args) == 5 and repr(sn[0].args[2]) == '"%s %s 1"' and sn[0].args[3] is nm(Li) and sn[0].args[4] is nm(j if not twin else Li) and sn[0].args[0] is fld0(ex, s, "line", "P")
            r.add("pairs.%s.entry_is_named_by_the_two_species_of_the_pair(i,j)" % label, DISCHARGED if okn else FAILED, "symex", 0, repr(sn and sn[0].args[2:])[:200])
            okr = len(rd) == 1 and rd[0].args[0] is fld0(ex, s, "line", "P") and is_val(rd[0].args[1], 2) and sn and evs.index(sn[0]) < evs.index(rd[0])
            r.add("pairs.%s.read_as_a_two_species_parameter_from_that_text" % label, DISCHARGED if okr else FAILED, "symex", 0, repr(rd)[:200])
            if not rd:
                continue
            p_ = rd[0].result
            wr = U.iter_writes(s)
            n0 = tm.select(entry_arr(ex, s, ("f", "#vsize", "I")), tm.app("fld:pitz_params", (THIS,), "P"))
            tyw = [v for k, ix, v in wr if k == ("f", "type", "I") and ix[0] is p_]
            vw = [(ix, v) for k, ix, v in wr if k == ("m", "P")]
            sz = [v for k, ix, v in wr if k == ("f", "#vsize", "I") and ix[0] is tm.app("fld:pitz_params", (THIS,), "P")]
            ok = len(tyw) == 1 and is_val(tyw[0], ev["TYPE_ETHETA"]) and len(vw) == 1 and vw[0][0][0] is vdata(ex, s, "pitz_params") and B.z3_prove(list(s.pc), tm.eq(vw[0][0][1], n0))[0] == "proved" \
                and vw[0][1] is p_ and len(sz) == 1 and B.z3_prove(list(s.pc), tm.eq(sz[0], n0 + tm.num(1, "I")))[0] == "proved"
            r.add("pairs.%s.one_entry_of_type_ETHETA_appended_per_pair" % label, DISCHARGED if ok else FAILED, "symex", 0, repr(tyw + vw + sz)[:200]); seen.add(label)
        f, ex, its, info = U.run_loop_isolated(PITZ, q, o_out, ctx=mkctx())
        Sx = tm.select(entry_arr(ex, its[0], ("f", "#vsize", "I")), tm.app("fld:s", (THIS,), "P"))
        first_x = first if label == "cations" else tm.num(2, "I") * Sx
        check_loop_range(r, "pairs.%s.first_i" % label, ex, None, info, its, "i", first if label == "cations" else tm.num(2, "I") * tm.select(tm.sym("H0.#vsize:I", ("A", "P", "I")), tm.app("fld:s", (THIS,), "P")),
                         lambda v: tm.lt(v, first_x + cN - tm.num(1, "I")))
        r.head_exempt = getattr(r, "head_exempt", {})
    # (c) shared record per charge pair
    o14 = loops_doing(fn, PITZ, ("theta_param_search", "->thetas="))[0]
    f, ex, its, info = U.run_loop_isolated(PITZ, q, o14, ctx=mkctx(functional=("theta_param_search",)))
    for s in live(its, ("run", "cont")):
        Pz = tm.select(entry_arr(ex, s, ("m", "P")), vdata(ex, s, "pitz_params"), i)
        zq = lambda k_: fld0(ex, s, "z", "R", tm.select(entry_arr(ex, s, ("m", "P")), vdata(ex, s, "spec"), tm.select(entry_arr(ex, s, ("m", "I")), tm.app("fld:ispec", (Pz,), "P"), tm.num(k_, "I"))))
        wr = U.iter_writes(s)
        for hy, isE in cases(list(s.pc), tm.eq(fld0(ex, s, "type", "I", Pz), ET)):
            if not isE:
                r.add("record.other_parameter_types_untouched#%d" % len(r.obligations), DISCHARGED if not wr else FAILED, "symex", 0, repr(wr)[:200], kind="frame"); seen.add("other")
                continue
            se = [e for e in U.iter_events(s) if e.name.endswith("theta_param_search")]
            oks = len(se) == 1 and {se[0].args[0], se[0].args[1]} == {zq(0), zq(1)}
            r.add("record.looked_up_by_the_charges_of_the_two_species#%d" % len(r.obligations), DISCHARGED if oks else FAILED, "symex", 0, repr(se)[:200])
            if not se:
                continue
            th = [v for k, ix, v in wr if k == ("f", "thetas", "P") and ix[0] is Pz]
            for hy2, found in cases(hy, tm.not_(tm.eq(se[0].result, tm.num(0, "P")))):
                if found:
                    ok = len(th) == 1 and th[0] is se[0].result and len(wr) == 1
                    r.add("record.an_existing_record_of_that_charge_pair_is_shared", DISCHARGED if ok else FAILED, "symex", 0, repr(wr)[:200]); seen.add("share")
                else:
                    nw = [e for e in U.iter_events(s) if e.name.startswith("new ")]
                    okn = len(nw) == 1 and len(th) == 1 and th[0] is nw[0].result
                    zj = [v for k, ix, v in wr if k == ("f", "zj", "R") and nw and ix[0] is nw[0].result]
                    zk = [v for k, ix, v in wr if k == ("f", "zk", "R") and nw and ix[0] is nw[0].result]
                    okz = len(zj) == 1 and len(zk) == 1 and {zj[0], zk[0]} == {zq(0), zq(1)}
                    n0 = tm.select(entry_arr(ex, s, ("f", "#vsize", "I")), tm.app("fld:theta_params", (THIS,), "P"))
                    vw = [(ix, v) for k, ix, v in wr if k == ("m", "P")]
                    oka = len(vw) == 1 and vw[0][0][0] is vdata(ex, s, "theta_params") and nw and vw[0][1] is nw[0].result and B.z3_prove(hy2, tm.eq(vw[0][0][1], n0))[0] == "proved"
                    r.add("record.a_new_record_carries_exactly_these_two_charges_and_joins_the_list", DISCHARGED if okn and okz and oka else FAILED, "symex", 0, repr(wr)[:300]); seen.add("new")
    lp14 = loop_at(fn, o14)
    k14 = [k for k, y in enumerate(body) if y is lp14]
    before = [text_of(PITZ, y) for y in body[:k14[0]]] if k14 else []
    r.add("record.list_rebuilt_from_empty", DISCHARGED if before and before[-1] == "theta_params.clear()" else FAILED, "syntactic", 0, repr(before[-1:]), kind="structural")
    check_loop_range(r, "record.every_parameter", ex, None, info, its, "i", tm.num(0, "I"), lambda v: tm.lt(v, tm.select(tm.sym("Hiter.#vsize:I", ("A", "P", "I")), tm.app("fld:pitz_params", (THIS,), "P"))))
    # (d) theta_param_search
    qs = "Phreeqc::theta_param_search"
    fs, exs, fins, infos = U.run_function(PSTR, qs, modes={0: "iter"}, ctx=mkctx())
    a_, b_ = (tm.sym("P%d_%s" % (k, p_["name"]), "R") for k, p_ in enumerate(A.params_of(fs)))
    for s in live(infos["iter"].get(0, []), ("run", "cont", "ret")):
        rec = tm.select(entry_arr(exs, s, ("m", "P")), vdata(exs, s, "theta_params"), i)
        zj, zk = fld0(exs, s, "zj", "R", rec), fld0(exs, s, "zk", "R", rec)
        match = tm.or_(tm.and_(tm.eq(zj, a_), tm.eq(zk, b_)), tm.and_(tm.eq(zj, b_), tm.eq(zk, a_)))
        for hy, m_ in cases(list(s.pc), match):
            ok = (s.status == "ret" and s.ret is rec) if m_ else s.status in ("run", "cont")
            r.add("search.%s#%d" % ("record_of_that_charge_pair_in_either_order_is_returned" if m_ else "other_records_are_passed_over", len(r.obligations)), DISCHARGED if ok else FAILED, "symex", 0, "%s %r" % (s.status, s.ret)[:100])
            seen.add("found" if m_ else "pass")
    for s in live(fins, ("ret",)):
        r.add("search.none:NULL", DISCHARGED if is_val(s.ret, 0) else FAILED, "symex", 0, repr(s.ret))
    range_in_context(r, "search.whole_list", exs, infos, [x for x in A.walk(fs) if x.get("kind") == "ForStmt"][0], 0, "i", tm.num(0, "I"), lambda v: tm.lt(v, vsize0("theta_params")))
    # (e) pitzer(): one evaluation per record, results kept in that record
    qp = "Phreeqc::pitzer"
    fp = A.find_function(PITZ, qp)
    oe = loops_doing(fp, PITZ, "ETHETAS(")[0]
    c = mkctx()
    def ethetas(ex_, st, n, name, recv, args):
        res = SX.fresh("ret_ETHETAS", "I")
        outs = []
        for a in args[3:5]:
            v = SX.fresh("etheta_out", "R"); outs.append(v)
            ex_.store(st, ("elem", a, tm.num(0, "I")), v, "R")
        st.events.append(SX.Event(name, recv, list(args), res, n)); st.events[-1].snap = {"outs": outs}
        return [(st, res)]
    c.handlers["Phreeqc::ETHETAS"] = ethetas
    f, ex, its, info = U.run_loop_isolated(PITZ, qp, oe, ctx=c)
    for s in live(its, ("run", "cont")):
        rec = tm.select(entry_arr(ex, s, ("m", "P")), vdata(ex, s, "theta_params"), i)
        ce = [e for e in U.iter_events(s) if e.name.endswith("ETHETAS")]
        okc = len(ce) == 1 and ce[0].args[0] is fld0(ex, s, "zj", "R", rec) and ce[0].args[1] is fld0(ex, s, "zk", "R", rec) and ce[0].args[2] is tm.sym("L_I", "R")
        r.add("pitzer.ETHETAS_evaluated_for_the_charges_of_the_record_at_the_ionic_strength", DISCHARGED if okc else FAILED, "symex", 0, repr(ce and ce[0].args[:3])[:200])
        if ce:
            o_ = ce[0].snap["outs"]
            w = dict(((k[1], ix[0]), v) for k, ix, v in U.iter_writes(s) if k[0] == "f" and k[1] in ("etheta", "ethetap"))
            ok = w.get(("etheta", rec)) is o_[0] and w.get(("ethetap", rec)) is o_[1] and len(w) == 2
            r.add("pitzer.both_results_stored_in_that_record(etheta,ethetap)", DISCHARGED if ok else FAILED, "symex", 0, repr(w)[:200]); seen.add("eval")
    check_loop_range(r, "pitzer.every_record", ex, None, info, its, "i", tm.num(0, "I"), lambda v: tm.lt(v, vsize0("theta_params")))
    # the switch -use_etheta governs both the evaluation and the term
    lpe = loop_at(fp, oe)
    guard = [y for y in A.body_of(fp)["inner"] if y.get("kind") == "IfStmt" and any(z_ is lpe for z_ in A.walk(y))]
    if len(guard) == 1:
        cg = mkctx()
        def mark(ex_, st, n_, o_):
            st.events.append(SX.Event("loop_reached", None, [], tm.num(0, "I"), n_))
            return ex_.havoc_loop(n_, st)
        cg.loop = mark
        fg, exg, fing, infog = region(PITZ, qp, guard, cg)
        for s in live(fing):
            on = tm.eq(fld0(exg, s, "use_etheta", "I"), tm.num(ev["TRUE"], "I"))
            reached = any(e.name == "loop_reached" for e in s.events)
            for hy, o_ in cases(list(s.pc), on):
                r.add("pitzer.records_%s#%d" % ("evaluated_with_-use_etheta_true" if o_ else "not_evaluated_with_-use_etheta_false", len(r.obligations)), DISCHARGED if reached == o_ else FAILED, "symex", 0, repr(s.pc)[:120])
    else:
        r.add("pitzer.evaluation_governed_by_-use_etheta", FAILED, "symex", 0, "the evaluation loop is not guarded by one top-level branch")
    olp = loops_doing(fp, PITZ, ("pitz_params[i]->ispec[0]", "LGAMMA["))[0]
    ft, ext, itst, infot = U.run_loop_isolated(PITZ, qp, olp, ctx=mkctx(functional=("G", "GP")))
    for s in live(itst, ("run", "cont")):
        if not any(c_.op == "==" and tm.isnum(c_.args[1]) and int(c_.args[1].args[0]) == ev["TYPE_ETHETA"] and c_.args[0].op == "select" and "type:I" in repr(c_.args[0].args[0]) for c_ in s.pc):
            continue
        LGv = vdata(ext, s, "LGAMMA")
        added = any(k == ("m", "R") and ix[0] is LGv for k, ix, v in U.iter_writes(s))
        for hy, on in cases(list(s.pc), tm.eq(fld0(ext, s, "use_etheta", "I"), tm.num(ev["TRUE"], "I"))):
            r.add("pitzer.ETHETA_term_%s#%d" % ("added_with_-use_etheta_true" if on else "left_out_with_-use_etheta_false", len(r.obligations)), DISCHARGED if added == on else FAILED, "symex", 0, ""); seen.add("sw%d" % on)
    need = {"drop", "keep", "cations", "anions", "other", "share", "new", "found", "pass", "eval", "sw0", "sw1"}
    r.add("reach.all_parts", DISCHARGED if need <= seen else UNDECIDED, "symex", 0, repr(sorted(need - seen)), kind="vacuity")
    r.assumptions += ["pitz_param_read builds the parameter from the text (unit C16.pitz_param_read); snprintf formats the two names into `line`", "ETHETAS writes its two results through its last two arguments (unit C16.pitzer.ETHETAS)",
                      "the copy of the store taken before it is emptied, and the emptying of theta_params, are located as text (which statement exists)", "cation slots are 0..count_cations-1, anion slots 2*s.size()..+count_anions-1 (unit C16.pitzer_tidy.species_blocks...)"]
    return r


def obj_local(info, s, name):
    v = s.locals.get(info["names"].get(name))
    if not (isinstance(v, tuple) and v[0] == "obj"):
        raise Undecided("local object `%s` not found" % name)
    return v[1]


# ------------------------------------------------------------------------------------------------------------------------------------
# 6. tidy step: alpha of the B1 / B2 terms by charge type, -ALPHAS overrides, the KCl reference of the MacInnes scaling
# ------------------------------------------------------------------------------------------------------------------------------------

def equal_is_tolerance_test(c):
    """Phreeqc::equal(a, b, eps) is |a - b| <= eps (utilities.cpp; three lines): the call forks the path on that condition"""
    ev = enum_vals()
    def h(ex_, st, n, name, recv, args):
        a, b, eps = args[-3:]
        d = a - b
        cond = tm.le(tm.ite(tm.lt(d, tm.num(0)), tm.neg(d), d), eps)
        out = []
        for cnd, val in ((cond, ev["TRUE"]), (tm.not_(cond), ev["FALSE"])):
            s2 = st.clone(); s2.pc.append(cnd)
            if B.z3_sat(list(s2.pc)) != "unsat":
                out.append((s2, tm.num(val, "I")))
        return out
    c.handlers["Phreeqc::equal"] = h
    return c


def abs_t(x):
    return tm.ite(tm.lt(x, tm.num(0)), tm.neg(x), x)


def unit_tidy_alpha_macinnes(twin=False):
    """pitzer_tidy: (1) the exponent alpha of a B1 / B2 parameter follows the charge type of its two ions: an electrolyte with a univalent
    ion: alpha1 = 2.0 (alpha2 = 12); a 2-2 electrolyte: alpha1 = 1.4, alpha2 = 12; higher charge types (no univalent ion, not 2-2):
    alpha1 = 2.0, alpha2 = 50; parameters of other types keep their alpha; (2) an -ALPHAS line for an ion pair overrides alpha1 of the B1
    parameter and alpha2 of the B2 parameter of THAT pair with its first and second number, and of no other parameter; (3) the MacInnes
    scaling refers to KCl: IC is the slot of Cl-, and mcb0 / mcb1 / mcc0 are the B0 / B1 / C0 parameters of the pair {K+, Cl-} (either order),
    never a parameter of another pair or type; without any of them the scaling is switched off."""
    q = "Phreeqc::pitzer_tidy"
    ev = enum_vals()
    fn = A.find_function(PITZ, q)
    r = U.new_unit("C16.pitzer_tidy.alpha_by_charge_type_ALPHAS_overrides_and_KCl_reference_of_MacInnes_scaling", PITZ, q, fn)
    seen = set()
    i = tm.sym("iter_i", "I")
    from fractions import Fraction as Fr
    # (1) defaults
    oa = [o for o in loops_doing(fn, PITZ, ("->alpha=", "TYPE_B1", "TYPE_B2")) if "TYPE_ALPHAS" not in text_of(PITZ, loop_at(fn, o)["inner"][-1])][0]
    f, ex, its, info = U.run_loop_isolated(PITZ, q, oa, ctx=equal_is_tolerance_test(mkctx()))
    for s in live(its, ("run", "cont")):
        Pz = tm.select(entry_arr(ex, s, ("m", "P")), vdata(ex, s, "pitz_params"), i)
        zq = lambda k_: abs_t(fld0(ex, s, "z", "R", tm.select(entry_arr(ex, s, ("m", "P")), vdata(ex, s, "spec"), tm.select(entry_arr(ex, s, ("m", "I")), tm.app("fld:ispec", (Pz,), "P"), tm.num(k_, "I")))))
        z0, z1 = zq(0), zq(1)
        ty = fld0(ex, s, "type", "I", Pz)
        wr = U.iter_writes(s)
        al = [v for k, ix, v in wr if k == ("f", "alpha", "R") and ix[0] is Pz]
        other = [(k, ix) for k, ix, v in wr if not (k == ("f", "alpha", "R") and ix[0] is Pz)]
        if other:
            r.add("alpha.frame_only_alpha_of_this_parameter#%d" % len(r.obligations), FAILED, "symex", 0, repr(other)[:200], kind="frame")
        one = lambda z: tm.eq(z, tm.num(1)); two = lambda z: tm.eq(z, tm.num(2))
        big = lambda z: tm.le(tm.num(2), z)
        classes = (("1-n", tm.or_(one(z0), one(z1)), Fr(2), Fr(12)), ("2-2", tm.and_(two(z0), two(z1)), Fr("1.4") if not twin else Fr(2), Fr(12)),
                   ("higher", tm.and_(big(z0), big(z1), tm.not_(tm.and_(two(z0), two(z1))), tm.or_(tm.le(tm.num(3), z0), tm.le(tm.num(3), z1))), Fr(2), Fr(50)))
        for tname, tval, col in (("B1", ev["TYPE_B1"], 2), ("B2", ev["TYPE_B2"], 3)):
            if B.z3_sat(list(s.pc) + [tm.eq(ty, tm.num(tval, "I"))]) == "unsat":
                continue
            for cl in classes:
                hy = list(s.pc) + [tm.eq(ty, tm.num(tval, "I")), cl[1]]
                if B.z3_sat(hy) == "unsat":
                    continue
                ok = len(al) == 1 and tm.isnum(al[0]) and al[0].args[0] == cl[col]
                r.add("alpha.%s_of_a_%s_electrolyte==%s#%d" % (tname, cl[0], float(cl[col]), len(r.obligations)), DISCHARGED if ok else FAILED, "symex", 0, repr(al)); seen.add((tname, cl[0]))
        if B.z3_sat(list(s.pc) + [tm.not_(tm.eq(ty, tm.num(ev["TYPE_B1"], "I"))), tm.not_(tm.eq(ty, tm.num(ev["TYPE_B2"], "I")))]) != "unsat":
            r.add("alpha.other_parameter_types_keep_their_alpha#%d" % len(r.obligations), DISCHARGED if not al else FAILED, "symex", 0, repr(al), kind="frame"); seen.add("keep")
    check_loop_range(r, "alpha.every_parameter", ex, None, info, its, "i", tm.num(0, "I"), lambda v: tm.lt(v, vsize0("pitz_params")))
    # (2) -ALPHAS overrides
    oo = loops_doing(fn, PITZ, ("TYPE_ALPHAS", "->alpha="))[0]
    inn = loops_inside(fn, oo)
    if len(inn) != 2:
        raise Undecided("the two search loops of the -ALPHAS overrides were not found")
    for o_in, (tname, k_a) in zip(inn, (("B1", 0), ("B2", 1))):
        f, ex, its, info = U.run_loop_isolated(PITZ, q, o_in, ctx=mkctx())
        j = tm.sym("iter_j", "I"); Li = tm.sym("L_i", "I")
        for s in live(its, ("run", "cont", "brk")):
            PA = tm.select(entry_arr(ex, s, ("m", "P")), vdata(ex, s, "pitz_params"), Li)
            PB = tm.select(entry_arr(ex, s, ("m", "P")), vdata(ex, s, "pitz_params"), j)
            isp = lambda P_, k_: tm.select(entry_arr(ex, s, ("m", "I")), tm.app("fld:ispec", (P_,), "P"), tm.num(k_, "I"))
            hit = tm.and_(tm.eq(fld0(ex, s, "type", "I", PB), tm.num(ev["TYPE_" + tname], "I")), tm.eq(isp(PA, 0), isp(PB, 0)), tm.eq(isp(PA, 1), isp(PB, 1)))
            wr = U.iter_writes(s)
            for hy, h_ in cases(list(s.pc), hit):
                if h_:
                    want = tm.select(entry_arr(ex, s, ("m", "R")), tm.app("fld:a", (PA,), "P"), tm.num(k_a if not twin else 0, "I"))
                    ok = len(wr) == 1 and wr[0][0] == ("f", "alpha", "R") and wr[0][1][0] is PB and wr[0][2] is want
                    r.add("ALPHAS.%s_of_the_same_ion_pair_gets_number_%d_of_the_line" % (tname, k_a + 1), DISCHARGED if ok else FAILED, "symex", 0, repr(wr)[:200]); seen.add("ov" + tname)
                else:
                    r.add("ALPHAS.no_other_parameter_is_touched(%s_search)#%d" % (tname, len(r.obligations)), DISCHARGED if not wr and s.status != "brk" else FAILED, "symex", 0, repr(wr)[:200], kind="frame")
        check_loop_range(r, "ALPHAS.%s_search" % tname, ex, None, info, its, "j", tm.num(0, "I"), lambda v: tm.lt(v, vsize0("pitz_params")))
    f, ex, its, info = U.run_loop_isolated(PITZ, q, oo, ctx=mkctx())
    for s in live(its, ("run", "cont")):
        Pz = tm.select(entry_arr(ex, s, ("m", "P")), vdata(ex, s, "pitz_params"), i)
        searched = len(info["inner_entries"]) > 0 and any(st_.pc == s.pc[:len(st_.pc)] for o_ in inn for st_ in info["inner_entries"].get(o_, []))
        for hy, isA in cases(list(s.pc), tm.eq(fld0(ex, s, "type", "I", Pz), tm.num(ev["TYPE_ALPHAS"], "I"))):
            if not isA:
                r.add("ALPHAS.only_-ALPHAS_lines_override#%d" % len(r.obligations), DISCHARGED if not searched and not U.iter_writes(s) else FAILED, "symex", 0, "", kind="frame")
            else:
                r.add("ALPHAS.every_-ALPHAS_line_is_applied", DISCHARGED if searched else FAILED, "symex", 0, ""); seen.add("ovline")
    # order: overrides come after the defaults
    body = A.body_of(fn)["inner"]
    pos = {nm: [k for k, y in enumerate(body) if y is loop_at(fn, o_)] for nm, o_ in (("def", oa), ("ov", oo))}
    r.add("ALPHAS.overrides_are_applied_after_the_defaults", DISCHARGED if pos["def"] and pos["ov"] and pos["def"][0] < pos["ov"][0] else FAILED, "syntactic", 0, repr(pos), kind="structural")
    # (3) MacInnes reference
    om = loops_doing(fn, PITZ, ("mcb0=", "mcb1=", "mcc0="))[0]
    lpm = loop_at(fn, om)
    km = [k for k, y in enumerate(body) if y is lpm]
    kr = [k for k, y in enumerate(body) if y is loop_at(fn, loops_doing(fn, PITZ, "ispec[j]=")[0])]
    if not km or not kr:
        raise Undecided("MacInnes loop / resolution loop are not top-level statements")
    f, ex, fin, info = region(PITZ, q, body[kr[0] + 1:km[0]], mkctx(functional=("ISPEC",)))
    K = Cl = None
    for s in live(fin)[:1]:
        hs = dict((repr(e.args[0]).strip('"'), e.result) for e in s.events if e.name.endswith("string_hsave"))
        K, Cl = hs.get("K+"), hs.get("Cl-")
        ic = fld(ex, s, "IC", "I")
        okic = Cl is not None and ic.op == "app" and ic.args[0].endswith("ISPEC") and ic.args[-1] is Cl
        r.add("MacInnes.IC_is_the_slot_of_Cl-", DISCHARGED if okic else FAILED, "symex", 0, repr(ic)[:120])
        names = {}
        for nm in info["names"]:
            v = s.locals.get(info["names"][nm])
            if v is K: names["K"] = nm
            if v is Cl: names["Cl"] = nm
    okref = K is not None and Cl is not None and len(names) == 2
    r.add("MacInnes.the_reference_electrolyte_is_K+_Cl-(names_interned_before_the_search)", DISCHARGED if okref else FAILED, "symex", 0, repr(sorted(hs)) if fin else "")
    f, ex, its, info = U.run_loop_isolated(PITZ, q, om, ctx=mkctx())
    LK, LC = (tm.sym("L_" + names["K"], "P"), tm.sym("L_" + names["Cl"], "P")) if okref else (None, None)
    for s in (live(its, ("run", "cont")) if okref else []):
        Pz = tm.select(entry_arr(ex, s, ("m", "P")), vdata(ex, s, "pitz_params"), i)
        sp = lambda k_: tm.select(entry_arr(ex, s, ("m", "P")), tm.app("fld:species", (Pz,), "P"), tm.num(k_, "I"))
        kcl = tm.or_(tm.and_(tm.eq(sp(0), LK), tm.eq(sp(1), LC)), tm.and_(tm.eq(sp(0), LC), tm.eq(sp(1), LK)))
        ty = fld0(ex, s, "type", "I", Pz)
        wr = U.iter_writes(s)
        tgt = {"mcb0": "TYPE_B0", "mcb1": "TYPE_B1", "mcc0": "TYPE_C0"}
        if twin:
            tgt["mcc0"] = "TYPE_B2"
        for k, ix, v in wr:
            if k[0] == "f" and k[1] in tgt and ix[0] is THIS:
                U.discharge_valid(r, "MacInnes.%s_is_only_ever_the_%s_parameter_of_K+_Cl-#%d" % (k[1], tgt[k[1]][5:], len(r.obligations)), list(s.pc), tm.and_(kcl, tm.eq(ty, tm.num(ev[tgt[k[1]]], "I"))))
                r.add("MacInnes.%s_points_to_that_parameter#%d" % (k[1], len(r.obligations)), DISCHARGED if v is Pz else FAILED, "symex", 0, repr(v)[:120]); seen.add(k[1])
            else:
                r.add("MacInnes.frame#%d" % len(r.obligations), FAILED, "symex", 0, repr((k, ix))[:200], kind="frame")
        for fldn, tn in tgt.items():
            hy = list(s.pc) + [kcl, tm.eq(ty, tm.num(ev[tn], "I"))]
            if B.z3_sat(hy) != "unsat":
                ok = any(k == ("f", fldn, "P") for k, ix, v in wr)
                r.add("MacInnes.the_%s_parameter_of_K+_Cl-(either_order)_becomes_%s#%d" % (tn[5:], fldn, len(r.obligations)), DISCHARGED if ok else FAILED, "symex", 0, "")
    check_loop_range(r, "MacInnes.every_parameter", ex, None, info, its, "i", tm.num(0, "I"), lambda v: tm.lt(v, vsize0("pitz_params")))
    # scaling switched off without KCl parameters
    nxt = body[km[0] + 1]
    f, ex, fin, info = region(PITZ, q, [nxt], mkctx())
    for s in live(fin):
        none = tm.and_(*[tm.eq(fld0(ex, s, nm, "P"), tm.num(0, "P")) for nm in ("mcb0", "mcb1", "mcc0")])
        icon = fld(ex, s, "ICON", "I")
        for hy, n_ in cases(list(s.pc), none):
            ok = is_val(icon, ev["FALSE"]) or (icon is fld0(ex, s, "ICON", "I") and B.z3_prove(hy, tm.not_(tm.eq(icon, tm.num(ev["TRUE"], "I"))))[0] == "proved") if n_ else icon is fld0(ex, s, "ICON", "I")
            r.add("MacInnes.%s#%d" % ("switched_off_without_any_KCl_parameter" if n_ else "left_as_requested_otherwise", len(r.obligations)), DISCHARGED if ok else FAILED, "symex", 0, repr(icon)); seen.add("off" if n_ else "on")
    need = {("B1", "1-n"), ("B1", "2-2"), ("B1", "higher"), ("B2", "1-n"), ("B2", "2-2"), ("B2", "higher"), "keep", "ovB1", "ovB2", "ovline", "mcb0", "mcb1", "mcc0", "off", "on"}
    r.add("reach.all_parts", DISCHARGED if need <= seen else UNDECIDED, "symex", 0, repr(sorted(need - seen, key=repr)), kind="vacuity")
    r.assumptions += ["equal(a, b, eps) is |a - b| <= eps (utilities.cpp)", "ionic charges are integers (the 1e-8 tolerance decides nothing for them)",
                      "alpha values are the conventional ones of the Pitzer model (Pitzer 1991; Harvie, Moller & Weare 1984): 2.0 / 12 with a univalent ion, 1.4 / 12 for 2-2, 2.0 / 50 for higher charge types",
                      "an -ALPHAS line is matched to B1 / B2 parameters whose species are given in the same order (as coded; the databases write cation first)",
                      "mcb0 / mcb1 / mcc0 start as NULL (class initialisation, C07)", "the statement that switches the scaling off is the one following the MacInnes loop"]
    return r


# ------------------------------------------------------------------------------------------------------------------------------------
# 7. work lists of a model build: which species and which parameters enter the sums
# ------------------------------------------------------------------------------------------------------------------------------------

def pushes(s):
    """{vector member name: [pushed values]} of one iteration"""
    out = {}
    for e in U.iter_events(s):
        if e.name == "vector.push_back" and e.recv is not None and e.recv.op == "app" and e.recv.args[0].startswith("fld:"):
            out.setdefault(e.recv.args[0][4:], []).append(e.args[-1])
    return out


def unit_make_lists(which, twin=False):
    """pitzer_make_lists / sit_make_lists: the blocks of `spec` filled by the tidy step are scanned completely (cations 0..count_cations-1,
    neutral species s.size().., anions 2*s.size()..); a species is IN THE MODEL when it exists and is part of the current system (for
    Pitzer also the reference ion Cl- of the MacInnes scaling) and is not an exchange / surface species; every species in the model is
    marked present, enters s_list once and exactly one of cation_list / neutral_list / anion_list according to its block, and ion_list iff
    it is charged; its molality is 10^lm (0 below the cut-off MIN_TOTAL); every other slot is marked absent with molality 0 and enters no
    list.  A parameter enters param_list (once) exactly when all the species it couples are present: both for pair parameters, all three
    for the triplet types - and these are precisely the types whose term in pitzer() uses a third species."""
    rel, q, pre, vec = {"pitzer": (PITZ, "Phreeqc::pitzer_make_lists", "", "pitz_params"), "sit": (SITF, "Phreeqc::sit_make_lists", "sit_", "sit_params")}[which]
    ev = enum_vals()
    fn = A.find_function(rel, q)
    r = U.new_unit("C16.%s_make_lists.species_in_exactly_one_list_parameters_with_all_species_present" % which, rel, q, fn)
    seen = set()
    IP, MM = pre + "IPRSNT", pre + "M"
    i = tm.sym("iter_i", "I")
    osp = loops_doing(fn, rel, ("s_list.push_back", "ion_list.push_back"))
    o_in = osp[-1]; o_out = parent_loop(fn, o_in)
    if o_out is None:
        raise Undecided("the block loop around the species loop was not found")
    c = mkctx(functional=("under",))
    f, ex, its, info = U.run_loop_isolated(rel, q, o_in, ctx=c)
    lists = ("s_list", "cation_list", "neutral_list", "anion_list", "ion_list")
    for s in live(its, ("run", "cont")):
        S = tm.select(entry_arr(ex, s, ("f", "#vsize", "I")), tm.app("fld:s", (THIS,), "P"))
        sp = tm.select(entry_arr(ex, s, ("m", "P")), vdata(ex, s, "spec"), i)
        ty = fld0(ex, s, "type", "I", sp)
        exists = tm.and_(tm.not_(tm.eq(sp, tm.num(0, "P"))), tm.eq(fld0(ex, s, "in", "I", sp), tm.num(ev["TRUE"], "I")))
        if which == "pitzer":
            exists = tm.or_(exists, tm.and_(tm.eq(fld0(ex, s, "ICON", "I"), tm.num(ev["TRUE"], "I")), tm.eq(i, fld0(ex, s, "IC", "I"))))
        sorbed = tm.or_(*[tm.eq(ty, tm.num(ev[k], "I")) for k in (("EX", "SURF", "SURF_PSI") if not twin else ("EX", "SURF"))])
        inmodel = tm.and_(exists, tm.not_(sorbed))
        nonneg = [tm.le(tm.num(0, "I"), S), tm.le(tm.num(0, "I"), i)]            # a vector's size and a slot number are not negative
        if B.z3_sat(list(s.pc) + nonneg) == "unsat":
            continue
        pu = pushes(s)
        w = dict(((k, tuple(ix)), v) for k, ix, v in U.iter_writes(s))
        ipr = w.get((("m", "I"), (vdata(ex, s, IP), i))); mv = w.get((("m", "R"), (vdata(ex, s, MM), i)))
        stray = [k for k in w if not (k[0] == ("f", "#vsize", "I") or k in ((("m", "I"), (vdata(ex, s, IP), i)), (("m", "R"), (vdata(ex, s, MM), i))) or (k[0] == ("m", "I") and "_list" in repr(k[1][0])))]
        r.add("species.frame_only_slot_i_and_the_lists#%d" % len(r.obligations), DISCHARGED if not stray and set(pu) <= set(lists) else FAILED, "symex", 0, repr(stray)[:200], kind="frame")
        for hy, inm in cases(list(s.pc) + nonneg, inmodel):
            if not inm:
                ok = not pu and ipr is not None and is_val(ipr, ev["FALSE"]) and mv is not None and tm.isnum(mv) and mv.args[0] == 0
                r.add("species.not_in_the_model:absent,molality_0,in_no_list#%d" % len(r.obligations), DISCHARGED if ok else FAILED, "symex", 0, "%r %r %r" % (ipr, mv, sorted(pu))); seen.add("out")
                continue
            ok = ipr is not None and is_val(ipr, ev["TRUE"]) and pu.get("s_list") == [i] and all(v == [i] for v in pu.values())
            r.add("species.in_the_model:present_and_once_in_s_list#%d" % len(r.obligations), DISCHARGED if ok else FAILED, "symex", 0, "%r %r" % (ipr, sorted(pu)))
            blocks = (("cation_list", tm.lt(i, S)), ("neutral_list", tm.and_(tm.le(S, i), tm.lt(i, tm.num(2, "I") * S))), ("anion_list", tm.le(tm.num(2, "I") * S, i)))
            got = [nm for nm in ("cation_list", "neutral_list", "anion_list") if nm in pu]
            okb = len(got) == 1 and B.z3_prove(hy, dict(blocks)[got[0]])[0] == "proved"
            r.add("species.in_exactly_one_of_cation/neutral/anion_list_by_its_block#%d" % len(r.obligations), DISCHARGED if okb else FAILED, "symex", 0, repr(got)); seen.add(got[0] if got else "?")
            oki = len(got) == 1 and (("ion_list" in pu) == (got[0] != "neutral_list"))
            r.add("species.in_ion_list_iff_charged#%d" % len(r.obligations), DISCHARGED if oki else FAILED, "symex", 0, repr(sorted(pu)))
            lm = fld0(ex, s, "lm", "R", sp)
            for hy2, above in cases(hy, tm.lt(tm.sym("L_log_min", "R"), lm)):
                okm = mv is not None and ((mv.op == "app" and mv.args[0] == "call:under" and mv.args[-1] is lm) if above else (tm.isnum(mv) and mv.args[0] == 0))
                r.add("species.molality_%s#%d" % ("is_10^lm" if above else "below_the_cut-off_is_0", len(r.obligations)), DISCHARGED if okm else FAILED, "symex", 0, repr(mv)[:100])
    check_loop_range(r, "species.block_scanned_from_min_to_max", ex, None, info, its, "i", tm.sym("L_min", "I"), lambda v: tm.lt(v, tm.sym("L_max", "I")))
    # the three blocks
    f, ex, its, info = U.run_loop_isolated(rel, q, o_out, ctx=mkctx(functional=("under",)))
    j = tm.sym("iter_j", "I")
    cnt = {0: pre + "count_cations", 1: pre + "count_neutrals", 2: pre + "count_anions"}
    got_blocks = set()
    for s0 in info["inner_entries"].get(o_in, []):
        if B.z3_sat(list(s0.pc)) == "unsat":
            continue
        jv = numval(s0.pc, j)
        if jv not in (0, 1, 2):
            continue
        S = tm.select(entry_arr(ex, s0, ("f", "#vsize", "I")), tm.app("fld:s", (THIS,), "P"))
        first = tm.num(jv, "I") * S
        last = first + tm.select(entry_arr(ex, s0, ("f", cnt[jv], "I")), THIS)
        if twin and jv == 2:
            first = S
        ok = B.z3_prove(list(s0.pc), tm.and_(tm.eq(loc(info, s0, "min"), first), tm.eq(loc(info, s0, "max"), last)))[0] == "proved"
        r.add("blocks.%s_block_is_%s..+%s" % (("cation", "neutral", "anion")[jv], ("0", "s.size()", "2*s.size()")[jv], cnt[jv]), DISCHARGED if ok else FAILED, "z3", 0, "%r %r" % (loc(info, s0, "min"), loc(info, s0, "max")))
        got_blocks.add(jv)
    check_loop_range(r, "blocks.all_three", ex, None, info, its, "j", tm.num(0, "I"), lambda v: tm.lt(v, tm.num(3, "I")))
    log_min = find_stmt(fn, rel, "double log_min =", prefix=True, kinds=("DeclStmt",))
    f, ex, fin, info = region(rel, q, [log_min], mkctx())
    for s in live(fin)[:1]:
        lmv = loc(info, s, "log_min")
        ok = lmv.op == "app" and lmv.args[0] == "log10" and lmv.args[-1] is fld0(ex, s, "MIN_TOTAL", "R")
        r.add("species.cut-off_is_log10(MIN_TOTAL)", DISCHARGED if ok else FAILED, "symex", 0, repr(lmv)[:80])
    # a new parameter list forces the next PTEMP to evaluate its parameters: the remembered temperature is made impossible
    body0 = A.body_of(fn)["inner"]
    kb0 = [k for k, y in enumerate(body0) if y is loop_at(fn, o_out)]
    if kb0:
        f, ex, fin, info = region(rel, q, [y for y in body0[:kb0[0]] if y.get("kind") != "DeclStmt"], mkctx())
        for s in live(fin)[:1]:
            ot = fld(ex, s, "OTEMP", "R")
            ok = tm.isnum(ot) and ot.args[0] < 0
            r.add("parameters.remembered_temperature_invalidated_so_that_the_new_list_is_evaluated(OTEMP<0K)", DISCHARGED if ok else FAILED, "symex", 0, repr(ot)[:80]); seen.add("otemp")
    # parameters
    op = loops_doing(fn, rel, "param_list.push_back")[0]
    f, ex, its, info = U.run_loop_isolated(rel, q, op, ctx=mkctx())
    trip = ("TYPE_PSI", "TYPE_ZETA", "TYPE_MU", "TYPE_ETA")
    need3 = set()
    for s in live(its, ("run", "cont")):
        Pz = tm.select(entry_arr(ex, s, ("m", "P")), vdata(ex, s, vec), i)
        isp = lambda k_: tm.select(entry_arr(ex, s, ("m", "I")), tm.app("fld:ispec", (Pz,), "P"), tm.num(k_, "I"))
        prs = lambda k_: tm.not_(tm.eq(tm.select(entry_arr(ex, s, ("m", "I")), vdata(ex, s, IP), isp(k_)), tm.num(ev["FALSE"], "I")))
        ty = fld0(ex, s, "type", "I", Pz)
        pu = pushes(s)
        allp = tm.and_(prs(0), prs(1))
        if which == "pitzer":
            allp = tm.and_(allp, tm.or_(tm.not_(tm.or_(*[tm.eq(ty, tm.num(ev[t], "I")) for t in (trip if not twin else trip[:3])])), prs(2)))
        for hy, want in cases(list(s.pc), allp):
            ok = (pu.get("param_list") == [i] and len(pu) == 1) if want else not pu
            r.add("parameters.%s#%d" % ("all_species_present:in_param_list_once" if want else "a_species_absent:not_in_param_list", len(r.obligations)), DISCHARGED if ok else FAILED, "symex", 0, repr(pu)[:120])
            seen.add("pin" if want else "pout")
        if which == "pitzer" and not pu:
            for t in PZ_TYPES:
                if B.z3_sat(list(s.pc) + [tm.eq(ty, tm.num(ev[t], "I")), prs(0), prs(1)]) != "unsat":
                    need3.add(t)
    check_loop_range(r, "parameters.every_parameter", ex, None, info, its, "i", tm.num(0, "I"), lambda v: tm.lt(v, tm.select(entry_arr(ex, its[0], ("f", "#vsize", "I")), tm.app("fld:" + vec, (THIS,), "P"))))
    if which == "pitzer":
        # pairing with pitzer(): the types whose term uses ispec[2]
        qp = "Phreeqc::pitzer"
        fp = A.find_function(PITZ, qp)
        ol = [o for o in loops_doing(fp, PITZ, ("pitz_params[i]->ispec[0]", "LGAMMA[")) ][0]
        c2 = mkctx(functional=("G", "GP")); 
        f2, ex2, its2, info2 = U.run_loop_isolated(PITZ, qp, ol, ctx=c2)
        uses3 = set()
        jj = tm.sym("iter_j", "I")
        for s in live(its2, ("run", "cont")):
            tys = [t for t in PZ_TYPES if any(c_.op == "==" and tm.isnum(c_.args[1]) and int(c_.args[1].args[0]) == ev[t] and "type:I" in repr(c_.args[0])[:40] for c_ in s.pc)]
            if len(tys) != 1:
                continue
            blob = repr(list(s.pc)) + repr([(ix, v) for k, ix, v in U.iter_writes(s)])
            if re.search(r"fld:ispec\([^)]*\)\)*, 2\)", blob) or ", 2))" in blob and "fld:ispec" in blob and re.search(r"fld:ispec\(.{0,200}?\), 2\)", blob):
                uses3.add(tys[0])
        r.add("parameters.third_species_required_exactly_for_the_types_whose_term_in_pitzer()_uses_it", DISCHARGED if uses3 == need3 and need3 else FAILED, "symex", 0, "make_lists: %r  pitzer(): %r" % (sorted(need3), sorted(uses3)))
        # Cl- marked present for the MacInnes scaling
        lpp = loop_at(fn, op)
        body = A.body_of(fn)["inner"]
        kp = [k for k, y in enumerate(body) if y is lpp]
        kb = [k for k, y in enumerate(body) if y is loop_at(fn, o_out)]
        if kp and kb:
            f, ex, fin, info = region(rel, q, body[kb[0] + 1:kp[0]], mkctx())
            for s in live(fin):
                wv = [v for k, ix, v in U.iter_writes(s) if k == ("m", "I") and ix[0] is vdata(ex, s, IP) and ix[1] is fld0(ex, s, "IC", "I")]
                for hy, icon in cases(list(s.pc), tm.eq(fld0(ex, s, "ICON", "I"), tm.num(ev["TRUE"], "I"))):
                    ok = (len(wv) == 1 and is_val(wv[0], ev["TRUE"])) if icon else not wv
                    r.add("species.reference_ion_Cl-_marked_present_%s#%d" % ("with_MacInnes_scaling" if icon else "only_with_MacInnes_scaling", len(r.obligations)), DISCHARGED if ok else FAILED, "symex", 0, repr(wv))
    need = {"out", "cation_list", "neutral_list", "anion_list", "pin", "pout", "otemp"}
    r.add("reach.all_parts", DISCHARGED if need <= seen and got_blocks == {0, 1, 2} else UNDECIDED, "symex", 0, "%r %r" % (sorted(need - seen), sorted(got_blocks)), kind="vacuity")
    r.assumptions += ["under(x) = 10^x", "the blocks of spec are those laid out by the tidy step (unit C16.%s_tidy.species_blocks...)" % which, "the lists are emptied before (unit C07.pitzer_sit.work_lists_rebuilt_from_empty...)",
                      "locals read by name: min, max, log_min", "presence of a parameter's species is read from %s as the species loop left it" % IP]
    return r


# ------------------------------------------------------------------------------------------------------------------------------------
# 8. neutral-species terms (LAMBDA, MU) whose species may coincide: coefficients of the tidy step + term of pitzer() obey Gibbs-Duhem
# ------------------------------------------------------------------------------------------------------------------------------------

def deep_resolve(t, cache=None):
    """re-evaluate reads through store chains after indices were replaced by numerals: a store to ANOTHER object (different base address
    term) never shadows the read (separate objects: the LGAMMA / M arrays and the parameter records), a store to the same object does so
    iff its numeral index is the same"""
    if cache is None:
        cache = {}
    if not isinstance(t, tm.T) or not t.args or t.op in ("num", "sym", "bool", "str"):
        return t
    if t in cache:
        return cache[t]
    new = []
    for a in t.args:
        if isinstance(a, tm.T):
            new.append(deep_resolve(a, cache))
        elif isinstance(a, tuple):
            new.append(tuple(deep_resolve(x, cache) if isinstance(x, tm.T) else x for x in a))
        else:
            new.append(a)
    if t.op == "select":
        arr, idx = new[0], tuple(new[1])
        a = arr
        res = None
        while a.op == "store":
            sidx = tuple(a.args[1])
            if len(sidx) == len(idx) and sidx[0] is idx[0]:
                if all(x is y or (tm.isnum(x) and tm.isnum(y) and x.args[0] == y.args[0]) for x, y in zip(sidx, idx)):
                    res = a.args[2]; break
                if any(tm.isnum(x) and tm.isnum(y) and x.args[0] != y.args[0] for x, y in zip(sidx, idx)):
                    a = a.args[0]; continue
                break
            a = a.args[0]
        r_ = res if res is not None else tm.select(a, *idx)
    else:
        r_ = tm.rebuild(t.op, tuple(new), t.sort)
    cache[t] = r_
    return r_


MU_PATTERNS = (("n,n,n", (0, 0, 0)), ("n,n,x", (0, 0, 1)), ("n,x,n", (0, 1, 0)), ("x,n,n", (1, 0, 0)), ("n,n',n''", (0, 1, 2)))


_MEMO = {}          # results of symbolic executions shared by a unit and its must-fail twin (same process, same tree)


def unit_neutral_terms(twin=False):
    """LAMBDA (pairs) and MU (triplets) couple neutral species with each other and with ions, and the same species may occur more than once
    in a parameter (lambda(n,n), mu(n,n,n), mu(n,n,n') ...).  With the coefficients the tidy step derives from the index pattern, the term of
    pitzer() is, for EVERY pattern of coincident species (in any position) and every admissible charge assignment, the derivative of ONE
    excess function G: the increment of ln gamma of each distinct species a equals dG/dm_a and the osmotic sum gets sum_a m_a dG/dm_a - G
    (Gibbs-Duhem / Euler; (phi - 1) sum m = 2 OSMOT), G being the parameter times the product of the molalities counted once per ordering
    of the species (1, 3 or 6 orderings of a triplet; 1 or 2 of a pair: the convention of the Pitzer equations); neither type adds to F;
    a MU term is left out completely (not partly) when its third species is absent."""
    import sympy
    q = "Phreeqc::pitzer_tidy"
    ev = enum_vals()
    fn = A.find_function(PITZ, q)
    r = U.new_unit("C16.pitzer.LAMBDA_and_MU_terms_with_coincident_species_are_derivatives_of_one_excess_function", PITZ, "Phreeqc::pitzer; Phreeqc::pitzer_tidy", fn)
    i = tm.sym("iter_i", "I")
    seen = set()
    # --- coefficients of the tidy step, per index pattern / charges
    def tidy_states(what, tyname):
        key_ = ("tidy_states", REPO, repr(what), tyname)
        if key_ not in _MEMO:
            _MEMO[key_] = tidy_states_(what, tyname)
        return _MEMO[key_]
    def tidy_states_(what, tyname):
        o = [o_ for o_ in loops_doing(fn, PITZ, what) if tyname in text_of(PITZ, loop_at(fn, o_)["inner"][-1]) and parent_loop(fn, o_) is None][0]
        inner = {k: "unroll" for k in loops_inside(fn, o)}
        f, ex, its, info = U.run_loop_isolated(PITZ, q, o, ctx=mkctx(), inner_modes=inner)
        return ex, [s for s in live(its, ("run", "cont"))]
    def ctx_terms(ex, s):
        Pz = tm.select(entry_arr(ex, s, ("m", "P")), vdata(ex, s, "pitz_params"), i)
        isp = [tm.select(entry_arr(ex, s, ("m", "I")), tm.app("fld:ispec", (Pz,), "P"), tm.num(k_, "I")) for k_ in range(3)]
        z = [fld0(ex, s, "z", "R", tm.select(entry_arr(ex, s, ("m", "P")), vdata(ex, s, "spec"), isp[k_])) for k_ in range(3)]
        return Pz, isp, z
    def hyp_of(ex, s, tyname, classes, charged):
        Pz, isp, z = ctx_terms(ex, s)
        h = [tm.eq(fld0(ex, s, "type", "I", Pz), tm.num(ev[tyname], "I"))]
        n_ = len(classes)
        for a in range(n_):
            for b in range(a + 1, n_):
                e_ = tm.eq(isp[a], isp[b])
                h.append(e_ if classes[a] == classes[b] else tm.not_(e_))
        for a in range(n_):
            h.append(tm.not_(tm.eq(z[a], tm.num(0))) if classes[a] in charged else tm.eq(z[a], tm.num(0)))
        # separation: the function's local arrays are not part of the parameter record
        for k, ix, v in U.iter_writes(s):
            if k == ("m", "I") and ix[0].op == "sym" and ix[0].args[0].startswith("&L_"):
                h.append(tm.not_(tm.eq(ix[0], tm.app("fld:ispec", (Pz,), "P"))))
        return h
    def coef_values(ex, states, key_of, tyname, classes, charged, use_charges=True):
        """{slot: set of numeric values} written on the paths compatible with the case"""
        vals = {}
        n_ok = 0
        for s in states:
            h = hyp_of(ex, s, tyname, classes, charged)
            if not use_charges:
                h = h[:1 + len(classes) * (len(classes) - 1) // 2] + h[1 + len(classes) * (len(classes) - 1) // 2 + len(classes):]
            if B.z3_sat(list(s.pc) + h) == "unsat":
                continue
            n_ok += 1
            Pz, isp, z = ctx_terms(ex, s)
            got = {}
            for k, ix, v in U.iter_writes(s):
                kk = key_of(k, ix, Pz)
                if kk is not None and kk not in got:
                    got[kk] = v
            for kk in key_of(None, None, None):
                vals.setdefault(kk, set()).add(got.get(kk).args[0] if kk in got and tm.isnum(got[kk]) else None)
        return vals, n_ok
    def os_key(k, ix, Pz):
        if k is None: return ["os"]
        return "os" if k == ("f", "os_coef", "R") and ix[0] is Pz else None
    def ln_key(n_):
        def f_(k, ix, Pz):
            if k is None: return ["ln%d" % j_ for j_ in range(n_)]
            if k == ("m", "R") and ix[0] is tm.app("fld:ln_coef", (Pz,), "P") and tm.isnum(ix[1]) and int(ix[1].args[0]) < n_:
                return "ln%d" % int(ix[1].args[0])
            return None
        return f_
    ex_os, st_os = tidy_states("->os_coef=", "TYPE_MU")
    ex_ln, st_ln = tidy_states("->ln_coef[j]=", "TYPE_MU")
    ex_la, st_la = tidy_states(("->os_coef=", "->ln_coef[0]="), "TYPE_LAMBDA")
    # --- the terms of pitzer()
    qp = "Phreeqc::pitzer"
    fp = A.find_function(PITZ, qp)
    ol = loops_doing(fp, PITZ, ("pitz_params[i]->ispec[0]", "LGAMMA["))[0]
    f2, ex2, its2, info2 = U.run_loop_isolated(PITZ, qp, ol, ctx=mkctx(functional=("G", "GP")))
    terms = {}
    for s in live(its2, ("run", "cont")):
        tys = [t for t in ("TYPE_MU", "TYPE_LAMBDA") if any(c_.op == "==" and tm.isnum(c_.args[1]) and int(c_.args[1].args[0]) == ev[t] and c_.args[0].op == "select" and "type:I" in repr(c_.args[0].args[0]) for c_ in s.pc)]
        if tys:
            terms.setdefault(tys[0], []).append(s)
    for tyname, n_, patterns in (("TYPE_LAMBDA", 2, (("n,n", (0, 0)), ("n,x", (0, 1)))), ("TYPE_MU", 3, MU_PATTERNS)):
        sts = terms.get(tyname, [])
        added = [s for s in sts if U.iter_writes(s)]
        skipped = [s for s in sts if not U.iter_writes(s)]
        if len(added) != 1:
            r.add("%s.one_path_of_pitzer()_adds_the_term" % tyname, FAILED, "symex", 0, "%d" % len(added)); continue
        s = added[0]
        jv = loc(info2, s, "i")
        Pp = tm.select(entry_arr(ex2, s, ("m", "P")), vdata(ex2, s, "pitz_params"), jv)
        LG, Mv = vdata(ex2, s, "LGAMMA"), vdata(ex2, s, "M")
        memR0 = entry_arr(ex2, s, ("m", "R"))
        ispP = [tm.select(entry_arr(ex2, s, ("m", "I")), tm.app("fld:ispec", (Pp,), "P"), tm.num(k_, "I")) for k_ in range(3)]
        okF = loc(info2, s, "F") is tm.sym("iter_F", "R") and loc(info2, s, "F1") is tm.sym("iter_F1", "R") and loc(info2, s, "F2") is tm.sym("iter_F2", "R") and loc(info2, s, "CSUM") is tm.sym("iter_CSUM", "R")
        r.add("%s.adds_nothing_to_F_and_CSUM" % tyname, DISCHARGED if okF else FAILED, "symex", 0, repr(loc(info2, s, "F"))[:80])
        par = fld0(ex2, s, "p", "R", Pp)
        if tyname == "TYPE_MU":
            # left out as a whole when the third species is absent
            ipr2 = tm.select(entry_arr(ex2, s, ("m", "I")), vdata(ex2, s, "IPRSNT"), ispP[2])
            U.discharge_valid(r, "TYPE_MU.added_only_when_the_third_species_is_present", list(s.pc), tm.not_(tm.eq(ipr2, tm.num(ev["FALSE"], "I"))))
            oks = all(loc(info2, s_, "OSMOT") is tm.sym("iter_OSMOT", "R") for s_ in skipped) and bool(skipped)
            r.add("TYPE_MU.left_out_completely_otherwise(no_gamma,no_osmotic_part)", DISCHARGED if oks else FAILED, "symex", 0, "%d" % len(skipped))
        for pname, classes in patterns:
            charge_cases = [()]
            if tyname == "TYPE_MU":
                distinct = sorted(set(classes))
                # at least two of the three positions are neutral: all neutral, or the species that occurs once is an ion
                charge_cases = [()] + [(c_,) for c_ in distinct if classes.count(c_) == 1 and len(distinct) > 1]
            for charged in charge_cases:
                label = "%s[%s%s]" % (tyname[5:], pname, (",ion=%s" % "abc"[charged[0]]) if charged else "")
                if tyname == "TYPE_MU":
                    v1, n1 = coef_values(ex_os, st_os, os_key, tyname, classes, charged)
                    v2, n2 = coef_values(ex_ln, st_ln, ln_key(3), tyname, classes, charged)
                else:
                    v1, n1 = coef_values(ex_la, st_la, os_key, tyname, classes, charged, use_charges=False)
                    v2, n2 = coef_values(ex_la, st_la, ln_key(2), tyname, classes, charged, use_charges=False)
                vals = dict(v1); vals.update(v2)
                okv = n1 >= 1 and n2 >= 1 and all(len(v) == 1 and None not in v for v in vals.values())
                r.add("%s.tidy_sets_every_coefficient_to_one_value" % label, DISCHARGED if okv else FAILED, "symex", 0, repr(vals)[:200])
                if not okv:
                    continue
                cf = dict((k_, list(v)[0]) for k_, v in vals.items())
                # evaluate the term of pitzer() for this pattern: species class c lives in slot 100 + c
                sub = dict((ispP[k_], tm.num(100 + classes[k_], "I")) for k_ in range(n_))
                cache = {}
                ev_t = lambda t: deep_resolve(tm.substitute(t, sub), cache)
                final = s.heap[("m", "R")]
                cv = B.SymConv()
                def conv(t):
                    t = ev_t(t)
                    rep = {}
                    for x in tm.subterms(t):
                        if x.op == "select" and len(x.args[1]) == 2 and x.args[1][0] is tm.app("fld:ln_coef", (Pp,), "P") and tm.isnum(x.args[1][1]):
                            rep[x] = tm.num(cf["ln%d" % int(x.args[1][1].args[0])])
                        if x.op == "select" and len(x.args[1]) == 1 and x.args[1][0] is Pp and "os_coef" in repr(x.args[0])[:30]:
                            rep[x] = tm.num(cf["os"])
                    return cv.conv(tm.substitute(t, rep))
                dO = conv(loc(info2, s, "OSMOT") - tm.sym("iter_OSMOT", "R"))
                mu_ = conv(par)
                G = dO if tyname == "TYPE_MU" else 2 * dO
                if twin and tyname == "TYPE_LAMBDA":
                    G = dO
                okall = True; detail = ""
                msyms = {}
                for c_ in sorted(set(classes)):
                    a = tm.num(100 + c_, "I")
                    m_a = conv(tm.select(memR0, Mv, a)); msyms[c_] = m_a
                    dL = conv(tm.select(final, LG, a)) - conv(tm.select(memR0, LG, a))
                    res = sympy.simplify(sympy.expand(dL - sympy.diff(G, m_a)))
                    if res != 0:
                        okall = False; detail += "species %s: dlngamma - dG/dm = %s; " % ("abc"[c_], res)
                r.add("%s.ln_gamma_increment_of_every_distinct_species==dG/dm(G=%s)" % (label, "osmotic_increment" if tyname == "TYPE_MU" else "2*osmotic_increment"), DISCHARGED if okall else FAILED, "sympy.diff", 0, detail[:300])
                # the osmotic part is Euler's sum_a m_a dG/dm_a - G over 2, i.e. G homogeneous of the degree of the term: follows from the monomial form
                orderings = {1: 1, 2: (2 if n_ == 2 else 3), 3: 6}[len(set(classes))]
                mono = mu_
                for k_ in range(n_):
                    mono = mono * msyms[classes[k_]]
                res = sympy.simplify(sympy.expand(G - orderings * mono))
                r.add("%s.G==parameter*product_of_molalities*%d_orderings" % (label, orderings), DISCHARGED if res == 0 else FAILED, "sympy", 0, "" if res == 0 else str(res)[:200])
                seen.add(label)
    need = 2 + sum(1 + len([c_ for c_ in set(cl) if cl.count(c_) == 1 and len(set(cl)) > 1]) for _, cl in MU_PATTERNS)
    r.add("reach.every_pattern", DISCHARGED if len(seen) >= need else UNDECIDED, "symex", 0, "%d of %d" % (len(seen), need), kind="vacuity")
    r.assumptions += ["(phi - 1) * sum(m) = 2 * OSMOT; ln gamma_k = LGAMMA[k] (+ charge terms that LAMBDA / MU do not touch)", "G homogeneous of degree d in the molalities: sum_a m_a dG/dm_a - G = (d - 1) G, so the osmotic increment must be G (d = 3) or G / 2 (d = 2)",
                      "the parameter records and the LGAMMA / M arrays are separate objects (a store into one never changes a read of another)", "species slots enter the term only as subscripts (a pattern of coincidences is evaluated for one representative numbering)",
                      "MU: at least two of the three species are neutral (all neutral, or the species named once is an ion); patterns with two ionic positions are not MU parameters of the model (ZETA / ETA are)",
                      "LAMBDA: the coefficients depend on the coincidence only, as coded", "locals of pitzer() read by name: OSMOT, F, F1, F2, CSUM, i", "doubles as reals"]
    return r


# ------------------------------------------------------------------------------------------------------------------------------------
# 9. SOLUTION_SPECIES / EXCHANGE_SPECIES: which ion-association model a species is given (gflag / exch_gflag, a, b)
# ------------------------------------------------------------------------------------------------------------------------------------

def sscanf_stores(c):
    """sscanf(text, format, p1, ..): one scanned number per pointer argument, stored THROUGH that pointer (field or array element)"""
    def h(ex_, st, n, name, recv, args):
        vals = []
        for k, p_ in enumerate(args[2:]):
            v = SX.fresh("scanned%d" % k, "R")
            ex_.store(st, ex_.deref(st, p_), v, "R")
            vals.append(v)
        res = SX.fresh("ret_sscanf", "I")
        st.events.append(SX.Event(name, recv, list(args), res, n)); st.events[-1].snap = {"scanned": vals}
        return [(st, res)]
    c.handlers["sscanf"] = h
    return c


GAMMA_FIELDS = ("gflag", "exch_gflag", "dha", "dhb")


def unit_species_gamma_options(which, twin=False):
    """read_species (SOLUTION_SPECIES) / read_exchange_species (EXCHANGE_SPECIES): the model of a species' activity coefficient is decided
    here and nowhere else in the reader.  Aqueous: a newly defined species gets Davies (gflag 1) when charged and the 0.1*I form (gflag 0,
    b = 0.1) when uncharged, a = b = 0 otherwise; e- and H2O are fixed at gamma = 1 (gflag 3); -gamma a b selects the extended / WATEQ
    Debye-Hueckel form (gflag 2) with a and b read IN THAT ORDER; -llnl_gamma a the B-dot form (gflag 7) with its ion size; -co2_llnl_gamma
    the LLNL CO2 form (8); -activity_water the water-isotopologue form (9).  Surface: a new species has the site-fraction convention (gflag 6), a = b = 0, and no option changes that.  Exchange: a new species has gflag 4 and the equivalent-fraction
    convention only (exch_gflag 3); -gamma a b: WATEQ form for the exchange species (exch_gflag 2; a = b = 0 means Davies), -davies: Davies
    (1), -llnl_gamma a: B-dot (7).  Every option acts on the species defined last and is an input error before any species; no other option
    (-log_k, -delta_h, -analytic, -Vm, -dw, -millero, -viscosity, -mole_balance ...) touches gflag, exch_gflag, a or b."""
    rel = READ
    q = {"aqueous": "Phreeqc::read_species", "exchange": "Phreeqc::read_exchange_species", "surface": "Phreeqc::read_surface_species"}[which]
    ev = enum_vals()
    from fractions import Fraction as Fr
    c = equal_is_tolerance_test(sscanf_stores(mkctx(functional=("strcmp", "strstr"))))
    fn, ex, info, paths = option_paths(rel, q, c)
    r = U.new_unit("C16.%s.option_decides_the_activity_coefficient_model_of_the_species_defined_last" % q.split("::")[1], rel, q, fn)
    names, cnt = opt_table(fn)
    r.add("options.every_listed_option_is_offered(count_opt_list==len(opt_list))", DISCHARGED if cnt == len(names) else FAILED, "syntactic", 0, "%d / %d" % (cnt, len(names)), kind="structural")
    sp0 = tm.sym("iter_s_ptr", "P")
    if which == "aqueous":
        table = {"gamma": (("gflag", 2),), "llnl_gamma": (("gflag", 7),), "co2_llnl_gamma": (("gflag", 8),), "activity_water": (("gflag", 9 if not twin else 8),)}
        scans = {"gamma": ("dha", "dhb"), "llnl_gamma": ("dha",)}
    elif which == "surface":
        table = {}; scans = {}
    else:
        table = {"gamma": (("exch_gflag", 2),), "davies": (("exch_gflag", 1), ("dha", 0), ("dhb", Fr("99.9"))), "llnl_gamma": (("exch_gflag", 7 if not twin else 2),)}
        scans = {"gamma": ("dha", "dhb", "a_f"), "llnl_gamma": ("dha",)}
    seen = set()
    def gamma_writes(s):
        return [(k[1], ix[0], v) for k, ix, v in U.iter_writes(s) if k[0] == "f" and k[1] in GAMMA_FIELDS]
    def final(s, f_, sort, obj):
        return tm.select(ex.heap_arr(s, ("f", f_, sort)), obj)
    for s, k, cont in paths:
        gw = gamma_writes(s)
        if k is None:
            o_ = loc(info, s, "opt")
            dead = B.z3_prove(list(s.pc), tm.not_(tm.and_(tm.le(tm.num(ev["OPTION_DEFAULT"], "I"), o_), tm.lt(o_, tm.num(cnt, "I")))))[0] == "proved"
            r.add("switch.every_option_index_has_a_case#%d" % len(r.obligations), DISCHARGED if dead and not gw else FAILED, "z3", 0, "")
            continue
        if k == ev["OPTION_DEFAULT"]:
            # a new species is defined (or the equation does not parse)
            newsp = loc(info, s, "s_ptr")
            if is_val(newsp, 0) or newsp is sp0:
                r.add("new_species.nothing_assigned_when_the_equation_is_rejected#%d" % len(r.obligations), DISCHARGED if not gw else FAILED, "symex", 0, repr(gw)[:200], kind="frame"); seen.add("reject")
                continue
            other = [(f_, o_) for f_, o_, v in gw if o_ is not newsp and B.z3_prove(list(s.pc), tm.eq(o_, newsp))[0] != "proved"]
            r.add("new_species.only_the_new_species_is_assigned#%d" % len(r.obligations), DISCHARGED if not other else FAILED, "symex", 0, repr(other)[:200], kind="frame")
            gf, dha, dhb = final(s, "gflag", "I", newsp), final(s, "dha", "R", newsp), final(s, "dhb", "R", newsp)
            if which == "surface":
                ok = is_val(gf, 6 if not twin else 4) and tm.isnum(dha) and dha.args[0] == 0 and tm.isnum(dhb) and dhb.args[0] == 0
                r.add("new_species.surface_species:site_fraction_convention(gflag_6),a=b=0#%d" % len(r.obligations), DISCHARGED if ok else FAILED, "symex", 0, "%r %r %r" % (gf, dha, dhb)); seen.add("new")
                continue
            if which == "exchange":
                ok = is_val(gf, 4) and is_val(final(s, "exch_gflag", "I", newsp), 3) and tm.isnum(dha) and dha.args[0] == 0 and tm.isnum(dhb) and dhb.args[0] == 0
                r.add("new_species.exchange_species:gflag_4,equivalent_fraction_only(exch_gflag_3),a=b=0#%d" % len(r.obligations), DISCHARGED if ok else FAILED, "symex", 0, "%r %r %r" % (gf, dha, dhb)); seen.add("new")
                continue
            ty = final(s, "type", "I", newsp)
            z = final(s, "z", "R", newsp)                       # the charge parse_eq / s_store left in the record
            tol = fld0(ex, s, "TOL", "R") if False else None
            fixed = tm.or_(tm.eq(ty, tm.num(ev["EMINUS"], "I")), tm.eq(ty, tm.num(ev["H2O"], "I")))
            for hy, fx in cases(list(s.pc), fixed):
                if fx:
                    r.add("new_species.e-_and_H2O_have_gamma_1(gflag_3)#%d" % len(r.obligations), DISCHARGED if is_val(gf, 3) else FAILED, "symex", 0, repr(gf)); seen.add("fixed")
                    continue
                for hy2, neutral in cases(hy, tm.eq(z, tm.num(0))):
                    if neutral:
                        ok = is_val(gf, 0) and tm.isnum(dha) and dha.args[0] == 0 and tm.isnum(dhb) and dhb.args[0] == Fr("0.1")
                        r.add("new_species.uncharged:0.1*I_form(gflag_0,a=0,b=0.1)#%d" % len(r.obligations), DISCHARGED if ok else FAILED, "symex", 0, "%r %r %r" % (gf, dha, dhb)); seen.add("neutral")
                    else:
                        for hy3, real_ion in cases(hy2, tm.le(tm.Q("1/2"), abs_t(z))):
                            if real_ion:
                                ok = is_val(gf, 1) and tm.isnum(dha) and dha.args[0] == 0 and tm.isnum(dhb) and dhb.args[0] == 0
                                r.add("new_species.charged:Davies(gflag_1,a=b=0)#%d" % len(r.obligations), DISCHARGED if ok else FAILED, "symex", 0, "%r %r %r" % (gf, dha, dhb)); seen.add("ion")
            continue
        if k in (ev["OPTION_EOF"], ev["OPTION_KEYWORD"], ev["OPTION_ERROR"]):
            r.add("no_option.nothing_assigned#%d" % len(r.obligations), DISCHARGED if not gw else FAILED, "symex", 0, repr(gw)[:200], kind="frame")
            continue
        if not (0 <= k < len(names)) or cont:
            continue
        nm = names[k]
        if nm not in table:
            r.add("-%s.leaves_the_activity_coefficient_model_alone#%d" % (nm, len(r.obligations)), DISCHARGED if not gw else FAILED, "symex", 0, repr(gw)[:200], kind="frame"); seen.add("frame")
            continue
        for hy, none in cases(list(s.pc), tm.eq(sp0, tm.num(0, "P"))):
            if none:
                err = any(k_ == ("f", "input_error", "I") for k_, ix, v in U.iter_writes(s))
                r.add("-%s.before_any_species_is_an_input_error_and_assigns_nothing#%d" % (nm, len(r.obligations)), DISCHARGED if err and not gw else FAILED, "symex", 0, repr(gw)[:200]); seen.add("nosp")
                continue
            other = [(f_, o_) for f_, o_, v in gw if o_ is not sp0]
            r.add("-%s.acts_on_the_species_defined_last_only#%d" % (nm, len(r.obligations)), DISCHARGED if not other else FAILED, "symex", 0, repr(other)[:200], kind="frame")
            sc = [e for e in U.iter_events(s) if e.name.endswith("sscanf")]
            if nm in scans:
                want = [tm.app("fld:" + f_, (sp0,), "P") for f_ in scans[nm]]
                oks = len(sc) == 1 and list(sc[0].args[2:]) == want and sc[0].args[0] is (tm.sym("&next_char!0", "P") if False else sc[0].args[0])
                r.add("-%s.numbers_read_in_the_order_%s#%d" % (nm, ",".join(scans[nm]), len(r.obligations)), DISCHARGED if oks else FAILED, "symex", 0, repr(sc and sc[0].args[2:])[:200])
                if not oks:
                    continue
                vals = dict(zip(scans[nm], sc[0].snap["scanned"]))
            else:
                vals = {}
                r.add("-%s.reads_no_number#%d" % (nm, len(r.obligations)), DISCHARGED if not sc else FAILED, "symex", 0, "")
            wantf = dict(table[nm])
            if which == "exchange" and nm == "gamma":
                # a = b = 0 after the read means Davies for the exchange species
                zero = tm.and_(tm.eq(vals["dha"], tm.num(0)), tm.eq(vals["dhb"], tm.num(0)))
                for hy2, dv in cases(hy, zero):
                    g_ = final(s, "exch_gflag", "I", sp0)
                    ok = is_val(g_, 1 if dv else 2) and final(s, "dha", "R", sp0) is vals["dha"] and (final(s, "dhb", "R", sp0) is vals["dhb"] if not dv else True)
                    r.add("-gamma.%s#%d" % ("a=b=0:Davies(exch_gflag_1)" if dv else "WATEQ_form(exch_gflag_2)_with_a_and_b_as_read", len(r.obligations)), DISCHARGED if ok else FAILED, "symex", 0, repr(g_)); seen.add("xg%d" % dv)
                continue
            ok = True; det = ""
            for f_, val in wantf.items():
                got = final(s, f_, "I" if "gflag" in f_ else "R", sp0)
                if not (tm.isnum(got) and got.args[0] == val):
                    ok = False; det += "%s=%r " % (f_, got)
            for f_, v in vals.items():
                if f_ in ("dha", "dhb") and final(s, f_, "R", sp0) is not v:
                    ok = False; det += "%s is not the number read " % f_
            for f_ in GAMMA_FIELDS:
                if f_ not in wantf and f_ not in vals and any(g[0] == f_ for g in gw):
                    ok = False; det += "%s written " % f_
            r.add("-%s.selects_%s#%d" % (nm, ",".join("%s=%s" % (a_, float(b_) if isinstance(b_, Fr) else b_) for a_, b_ in table[nm]), len(r.obligations)), DISCHARGED if ok else FAILED, "symex", 0, det[:200]); seen.add(nm)
    need = set(table) | {"frame", "reject"} | {"aqueous": {"fixed", "neutral", "ion", "nosp"}, "exchange": {"new", "xg0", "xg1", "nosp"}, "surface": {"new"}}[which]
    need.discard("gamma") if which == "exchange" else None
    r.add("reach.all_cases", DISCHARGED if need <= seen else UNDECIDED, "symex", 0, repr(sorted(need - seen)), kind="vacuity")
    r.assumptions += ["get_option returns the index of the option named on the line; sscanf stores the numbers it reads through its pointer arguments in order",
                      "equal(a, b, eps) is |a - b| <= eps; charges of species are 0 or at least 1/2 in magnitude (the tolerance TOL decides nothing for them)",
                      "gflag values as used by gammas(): 0 uncharged 0.1*I, 1 Davies, 2 extended / WATEQ Debye-Hueckel, 3 gamma = 1, 4 exchange, 7 LLNL B-dot, 8 LLNL CO2, 9 water isotopologue (unit C16.gammas.species_loop)",
                      "locals read by name: s_ptr, opt", "the callees that read log K, delta H, Vm ... receive pointers into logk[] / millero[] / Jones_Dole[] only (not under this contract)"]
    return r


# ------------------------------------------------------------------------------------------------------------------------------------
# 10. LLNL_AQUEOUS_MODEL_PARAMETERS: the temperature grid and the arrays interpolated on it
# ------------------------------------------------------------------------------------------------------------------------------------

LLNL_GROUPS = {"temperatures": "llnl_temp", "temperature": "llnl_temp", "temp": "llnl_temp", "adh": "llnl_adh", "debye_huckel_a": "llnl_adh", "dh_a": "llnl_adh",
               "bdh": "llnl_bdh", "debye_huckel_b": "llnl_bdh", "dh_b": "llnl_bdh", "bdot": "llnl_bdot", "b_dot": "llnl_bdot", "c_co2": "llnl_co2_coefs", "co2_coefs": "llnl_co2_coefs"}


def unit_llnl_parameters(twin=False):
    """read_llnl_aqueous_model_parameters: every number after -temperatures / -dh_a / -dh_b / -bdot / -co2_coefs (and their synonyms) is
    appended, in reading order, to the array of THAT option (llnl_temp, llnl_adh, llnl_bdh, llnl_bdot, llnl_co2_coefs) and to no other; a
    following line without an option continues the same array; the block is accepted only if the temperature grid is not empty, the A,
    B and B-dot arrays have exactly as many entries as the grid, and there are five CO2 coefficients - otherwise an input error is counted
    (so the interpolation in gammas() never pairs a grid point with a value of another index)."""
    q = "Phreeqc::read_llnl_aqueous_model_parameters"
    ev = enum_vals()
    fn = A.find_function(READ, q)
    r = U.new_unit("C16.read_llnl_aqueous_model_parameters.numbers_go_to_the_array_of_their_option_and_lengths_must_match_the_grid", READ, q, fn)
    names, cnt = opt_table(fn)
    r.add("options.every_listed_option_is_offered(count_opt_list==len(opt_list))", DISCHARGED if cnt == len(names) else FAILED, "syntactic", 0, "%d / %d" % (cnt, len(names)), kind="structural")
    miss = sorted(set(LLNL_GROUPS) - set(names))
    r.add("options.every_array_has_its_options", DISCHARGED if not miss else FAILED, "syntactic", 0, repr(miss), kind="structural")
    o = the_for_ever_loop(fn)
    f, ex, its, info = U.run_loop_isolated(READ, q, o, ctx=mkctx(), inner_modes={"*": "iter"})
    seen = set()
    # (a) one pass of the option loop
    for s in live(its, ("run", "cont", "brk")):
        g = [e for e in U.iter_events(s) if e.name.endswith("get_option")]
        if len(g) != 1:
            raise Undecided("a pass of the option loop calls get_option %d times" % len(g))
        k = numval(s.pc, loc(info, s, "opt"))
        if k is None or not (0 <= k < len(names)):
            if k is None:
                o_ = loc(info, s, "opt")
                dead = B.z3_prove(list(s.pc), tm.not_(tm.and_(tm.le(tm.num(ev["OPTION_DEFAULT"], "I"), o_), tm.lt(o_, tm.num(cnt, "I")))))[0] == "proved"
                r.add("switch.every_option_index_has_a_case#%d" % len(r.obligations), DISCHARGED if dead else FAILED, "z3", 0, "")
            continue
        nm = names[k]
        osv = numval(s.pc, loc(info, s, "opt_save"))
        okc = osv is not None and 0 <= osv < len(names) and LLNL_GROUPS.get(names[osv]) == LLNL_GROUPS.get(nm)
        if nm not in seen or not okc:
            r.add("-%s.a_following_line_without_option_continues_the_same_array" % nm, DISCHARGED if okc else FAILED, "symex", 0, "opt_save=%r" % osv)
        st_ = [e for e in U.iter_events(s) if "istringstream" in e.name]
        nc = tm.select(entry_arr(ex, s, ("m", "P")), tm.sym("&L_next_char", "P"), tm.num(0, "I"))
        oks = len(st_) == 1 and len(st_[0].args) == 1 and nc in tm.subterms(st_[0].args[0])
        if nm not in seen or not oks:
            r.add("-%s.numbers_are_taken_from_the_text_after_the_option" % nm, DISCHARGED if oks else FAILED, "symex", 0, repr(st_ and st_[0].args)[:160])
        seen.add(nm)
    # (b) the number loops
    got = set()
    for o_in, sts in info["inner_iters"].items():
        for s in live(sts, ("run", "cont")):
            k = numval(s.pc, loc(info, s, "opt"))
            if k is None or not (0 <= k < len(names)):
                continue
            nm = names[k]
            want = LLNL_GROUPS.get(nm)
            if twin and want == "llnl_bdh":
                want = "llnl_adh"
            pu = pushes(s)
            xs = [e for e in U.iter_events(s) if e.name.endswith("operator>>")]
            ok = want is not None and list(pu) == [want] and len(pu[want]) == 1 and len(xs) == 1 and xs[0].args and pu[want][0] is xs[0].args[0]
            if nm not in got or not ok:
                r.add("-%s.each_number_read_is_appended_to_%s_and_nothing_else" % (nm, LLNL_GROUPS.get(nm)), DISCHARGED if ok else FAILED, "symex", 0, repr(pu)[:160])
            got.add(nm)
    # (c) acceptance test at the end
    loops = [x for x in A.walk(fn) if x.get("kind") in ("ForStmt", "WhileStmt", "DoStmt")]
    body = A.body_of(fn)["inner"]
    ko = [k for k, y in enumerate(body) if y is loops[o]]
    if not ko:
        raise Undecided("the option loop is not a top-level statement")
    tests = [y for y in body[ko[0] + 1:] if y.get("kind") == "IfStmt"]
    f2, ex2, fin2, info2 = region(READ, q, tests, mkctx())
    nt = 0
    for s in live(fin2):
        sz = lambda v: tm.select(entry_arr(ex2, s, ("f", "#vsize", "I")), tm.app("fld:" + v, (THIS,), "P"))
        msgs = [repr(e.args[0]) for e in s.events if e.name.endswith("error_msg")]
        said_len = any("equal number" in m_ for m_ in msgs); said_co2 = any("5 CO2" in m_ for m_ in msgs)
        bad_len = tm.or_(tm.eq(sz("llnl_temp"), tm.num(0, "I")), *[tm.not_(tm.eq(sz("llnl_temp"), sz(v))) for v in (("llnl_adh", "llnl_bdh", "llnl_bdot") if not twin else ("llnl_adh", "llnl_bdh"))])
        bad_co2 = tm.not_(tm.eq(sz("llnl_co2_coefs"), tm.num(5, "I")))
        nt += 1
        U.discharge_valid(r, "accept.%s#%d" % ("rejected_only_when_grid_empty_or_lengths_differ" if said_len else "grid_non-empty_and_A,B,B-dot_arrays_as_long_as_the_grid", nt), list(s.pc), bad_len if said_len else tm.not_(bad_len))
        U.discharge_valid(r, "accept.%s#%d" % ("rejected_only_when_not_five_CO2_coefficients" if said_co2 else "five_CO2_coefficients", nt), list(s.pc), bad_co2 if said_co2 else tm.not_(bad_co2))
        ie, ie0 = fld(ex2, s, "input_error", "I"), fld0(ex2, s, "input_error", "I")
        counted = ie is not ie0 and ie.op == "+"
        r.add("accept.%s#%d" % ("a_rejected_block_counts_as_input_error" if (said_len or said_co2) else "an_accepted_block_counts_no_error", nt), DISCHARGED if counted == (said_len or said_co2) else FAILED, "symex", 0, repr(ie)[:100])
    asc = [k for k, lp in enumerate(loops) if k != o and any(y is lp for y in body[ko[0] + 1:])]
    for k in asc:
        f3, ex3, its3, info3 = U.run_loop_isolated(READ, q, k, ctx=mkctx())
        for s in live(its3, ("run", "cont")):
            i_ = tm.sym("iter_i", "I")
            T_ = lambda j_: tm.select(entry_arr(ex3, s, ("m", "R")), vdata(ex3, s, "llnl_temp"), j_)
            desc = tm.lt(T_(i_), T_(i_ - tm.num(1, "I")))
            err = any(e.name.endswith("error_msg") for e in U.iter_events(s))
            for hy, d_ in cases(list(s.pc), desc):
                r.add("accept.grid_%s#%d" % ("descending_step_is_an_input_error" if d_ else "ascending_step_accepted", len(r.obligations)), DISCHARGED if err == d_ else FAILED, "symex", 0, "")
        r.head_exempt = {(q, k): "adjacent pairs (i-1, i): the comparison starts at the second grid point"}
        check_loop_range(r, "accept.grid_order_checked_for_every_adjacent_pair", ex3, None, info3, its3, "i", tm.num(1, "I"),
                         lambda v: tm.lt(v, tm.select(entry_arr(ex3, its3[0], ("f", "#vsize", "I")), tm.app("fld:llnl_temp", (THIS,), "P"))))
    need = set(LLNL_GROUPS)
    r.add("reach.every_option_and_the_acceptance_test", DISCHARGED if need <= seen and need <= got and nt >= 4 else UNDECIDED, "symex", 0, "%r %r %d" % (sorted(need - seen), sorted(need - got), nt), kind="vacuity")
    r.assumptions += ["get_option returns the index of the option named on the line (OPTION_DEFAULT for a line without option); `stream >> x` extracts the next number into x and is false at the end of the text",
                      "push_back appends (STL model)", "which arrays belong to which option is the definition of the keyword (LLNL_AQUEOUS_MODEL_PARAMETERS: -temperatures, -dh_a, -dh_b, -bdot, -co2_coefs)",
                      "the messages of the acceptance test are recognised by their text; locals read by name: opt, opt_save, next_char", "the arrays are emptied when a data base is loaded (C07)"]
    return r


# ------------------------------------------------------------------------------------------------------------------------------------
# 11. temperature / pressure hooks: SIT parameters (calc_sit_param, PTEMP_SIT), the pressure correction of the Debye-Hueckel b in pitzer()
# ------------------------------------------------------------------------------------------------------------------------------------

def unit_sit_temperature(twin=False):
    """calc_sit_param(pz, TK, TR): epsilon(T) = a0 + a1 (1/T - 1/Tr) + a2 ln(T/Tr) + a3 (T - Tr) + a4 (T^2 - Tr^2) is stored in pz->p (the value
    sit() uses); the short cut p = a0 only within 0.01 K of Tr; nothing but p and its typed copy is written.  PTEMP_SIT(TK): unless T and P
    are those of the last evaluation (0.001 K, 0.1 atm) every parameter in use (param_list) is re-evaluated at (TK, Tr = 298.15), the
    water density and then the dielectric / Debye-Hueckel constants are refreshed at (TK - 273.15, patm_x), sit_A0 takes the new A0, and
    TK / patm_x are remembered."""
    from fractions import Fraction as Fr
    q = "Phreeqc::calc_sit_param"
    c = mkctx()
    fn, ex, fin, info = U.run_function(SITF, q, ctx=c)
    r = U.new_unit("C16.sit.temperature_function_of_epsilon_and_refresh_of_every_parameter_in_use", SITF, "Phreeqc::calc_sit_param; Phreeqc::PTEMP_SIT", fn)
    ps = A.params_of(fn)
    pz, TK, TR = tm.sym("P0_%s" % ps[0]["name"], "P"), tm.sym("P1_%s" % ps[1]["name"], "R"), tm.sym("P2_%s" % ps[2]["name"], "R")
    a = lambda k: tm.select(tm.sym("H0.mem:R", ("A", "P", "I", "R")), tm.app("fld:a", (pz,), "P"), tm.num(k, "I"))
    one = tm.num(1)
    formula = a(0) + a(1) * (one / TK - one / TR) + a(2) * tm.app("log", (TK / TR,), "R") + a(3) * (TK - TR) + a(4) * (TK * TK - TR * TR)
    if twin:
        formula = formula - a(3) * (TK - TR)
    near = tm.lt(abs_t(TK - TR), tm.Q("0.01"))
    nf = ns = 0; seenv = set()
    for s in live(fin, ("ret", "throw")):
        wp = [v for k, ix, v in U.iter_writes(s) if k == ("f", "p", "R") and ix[0] is pz]
        if len(wp) != 1:
            r.add("epsilon.p_written_once", FAILED, "symex", 0, repr(wp)[:200]); continue
        val = wp[0]
        first = repr(val) not in seenv; seenv.add(repr(val))
        if first:
            if val is a(0):
                ns += 1
                U.discharge_valid(r, "epsilon.shortcut_p=a0_only_within_0.01K_of_Tr", list(s.pc), near)
            else:
                nf += 1
                U.discharge_eq_real(r, "epsilon.p==a0+a1(1/T-1/Tr)+a2*ln(T/Tr)+a3(T-Tr)+a4(T^2-Tr^2)", list(s.pc), val, formula)
        bad = [(k, ix) for k, ix, v in U.iter_writes(s) if not (k == ("f", "p", "R") and ix[0] is pz) and not (ix[0] is tm.app("fld:U", (pz,), "P") and v is val)]
        if bad or first:
            r.add("epsilon.frame_only_p_and_its_typed_copy#%d" % len(r.obligations), DISCHARGED if not bad else FAILED, "symex", 0, repr(bad)[:200], kind="frame")
    # PTEMP_SIT
    q2 = "Phreeqc::PTEMP_SIT"
    c2 = mkctx(functional=("calc_rho_0",))
    def diel(ex_, st, n, name, recv, args):
        st.events.append(SX.Event(name, recv, list(args), tm.num(0, "I"), n))
        for f_ in ("eps_r", "DH_A", "DH_B", "A0", "DH_Av", "ZBrn", "QBrn", "dgdP"):
            k = ("f", f_, "R")
            st.heap[k] = tm.store(ex_.heap_arr(st, k), (THIS,), SX.fresh("new_" + f_, "R"))
        return [(st, tm.num(0, "I"))]
    def csp(ex_, st, n, name, recv, args):
        st.events.append(SX.Event(name, recv, list(args), tm.num(0, "I"), n))
        return [(st, tm.num(0, "I"))]
    c2.handlers["Phreeqc::calc_dielectrics"] = diel
    c2.handlers["Phreeqc::calc_sit_param"] = csp
    f2, ex2, fin2, info2 = U.run_function(SITF, q2, modes={0: "iter"}, ctx=c2)
    T2 = tm.sym("P0_%s" % A.params_of(f2)[0]["name"], "R")
    H0 = lambda nm, so="R": tm.select(tm.sym("H0.%s:%s" % (nm, so), ("A", "P", so)), THIS)
    same = tm.and_(tm.lt(abs_t(T2 - H0("OTEMP")), tm.Q("0.001")), tm.lt(abs_t(H0("patm_x") - H0("OPRESS")), tm.Q("0.1")))
    TRv = Fr("298.15")
    nskip = nre = ni = 0
    for s in live(fin2, ("ret",)):
        evs = [e for e in s.events if e.name != "iter_begin"]
        wr = U.iter_writes(s)
        if not evs and not wr:
            nskip += 1
            U.discharge_valid(r, "refresh.skipped_only_when_T_and_P_are_those_of_the_last_evaluation", list(s.pc), same)
            continue
        nre += 1
        U.discharge_valid(r, "refresh.done_because_T_or_P_changed", list(s.pc), tm.not_(same))
        rho = [e for e in evs if e.name.endswith("calc_rho_0")]; die = [e for e in evs if e.name.endswith("calc_dielectrics")]
        tc = T2 - tm.Q("273.15")
        eqr = lambda x, y: x is y or B.z3_prove([], tm.eq(x, y))[0] == "proved"
        ok = len(rho) == 1 and len(die) == 1 and evs.index(rho[0]) < evs.index(die[0]) and all(eqr(e.args[0], tc) and e.args[1] is H0("patm_x") for e in (rho[0], die[0]))
        r.add("refresh.density_then_dielectrics_at(TK-273.15,patm_x)", DISCHARGED if ok else FAILED, "symex", 0, repr(rho + die)[:200])
        fin_ = lambda nm: tm.select(s.heap[("f", nm, "R")], THIS) if ("f", nm, "R") in s.heap else H0(nm)
        r.add("refresh.rho_0_is_the_density_just_computed", DISCHARGED if rho and fin_("rho_0") is rho[0].result else FAILED, "symex", 0, repr(fin_("rho_0"))[:100])
        r.add("refresh.sit_A0_is_the_A0_just_computed", DISCHARGED if fin_("sit_A0") is fin_("A0") and fin_("A0") is not H0("A0") else FAILED, "symex", 0, repr(fin_("sit_A0"))[:100])
        r.add("refresh.remembers_TK_and_patm_x", DISCHARGED if fin_("OTEMP") is T2 and fin_("OPRESS") is H0("patm_x") else FAILED, "symex", 0, "")
    for s in live(info2["iter"].get(0, []), ("run", "cont")):
        ni += 1
        j = loc(info2, s, "j")
        idx = tm.select(ex2.heap_arr(s, ("m", "I")), vdata(ex2, s, "param_list", entry=False), j)
        ptr = tm.select(ex2.heap_arr(s, ("m", "P")), vdata(ex2, s, "sit_params", entry=False), idx)
        evs = [e for e in U.iter_events(s) if e.name.endswith("calc_sit_param")]
        ok = len(evs) == 1 and evs[0].args[0] is ptr and evs[0].args[1] is T2 and tm.isnum(evs[0].args[2]) and evs[0].args[2].args[0] == TRv
        r.add("refresh.sit_params[param_list[j]]_evaluated_once_at(TK,298.15)", DISCHARGED if ok else FAILED, "symex", 0, repr(evs)[:300])
    lp = [x for x in A.walk(f2) if x.get("kind") == "ForStmt"]
    if lp:
        range_in_context(r, "refresh.whole_param_list", ex2, info2, lp[0], 0, "j", tm.num(0, "I"), lambda v: tm.lt(v, vsize0("param_list")))
    r.add("reach.formula,shortcut,skip,refresh,list", DISCHARGED if nf >= 1 and ns >= 1 and nskip >= 1 and nre >= 1 and ni >= 1 else UNDECIDED, "symex", 0, "%d/%d/%d/%d/%d" % (nf, ns, nskip, nre, ni), kind="vacuity")
    r.assumptions += ["a[0..4] are the numbers of the database line (unit C16.pitz_param_read); SIT uses five coefficients (no 1/T^2 term), as coded and as sit.dat is written",
                      "calc_dielectrics writes only dielectric / Debye-Hueckel members (unit C16.calc_dielectrics); calc_rho_0 is a function of its arguments", "doubles as reals; log uninterpreted"]
    return r


def unit_pressure_hook(twin=False):
    """pitzer(): the empirical pressure correction of the Debye-Hueckel parameter b (used for |z| = 1 and |z| = 2 ions) acts ONLY above
    1 atm - at the pressure of the data-base conditions the three functions F, F1, F2 stay the one Debye-Hueckel function the osmotic term
    is the Gibbs-Duhem partner of; above 1 atm each corrected function has the same form with b lowered by at most 0.2."""
    import sympy
    q = "Phreeqc::pitzer"
    fn = A.find_function(PITZ, q)
    r = U.new_unit("C16.pitzer.pressure_correction_of_the_Debye_Hueckel_b_acts_only_above_1_atm_and_is_bounded", PITZ, q, fn)
    body = A.body_of(fn)["inner"]
    ifs = [y for y in body if y.get("kind") == "IfStmt" and len(y["inner"]) >= 2 and "F1=" in text_of(PITZ, y["inner"][1]) and "F2=" in text_of(PITZ, y["inner"][1])]
    if len(ifs) != 1:
        raise Undecided("the branch that re-evaluates F1 and F2 was not found (%d)" % len(ifs))
    fst = find_stmt(fn, PITZ, "F = F1 = F2 =", prefix=True, kinds=("BinaryOperator",))
    f0, ex0, fin0, info0 = region(PITZ, q, [fst], mkctx())
    Fform = loc(info0, live(fin0)[0], "F")
    f, ex, fin, info = region(PITZ, q, ifs, mkctx())
    P = lambda s: fld0(ex, s, "patm_x", "R")
    n = {"low": 0, "F1": 0, "F2": 0}
    LB = tm.sym("L_B", "R")
    for s in live(fin):
        F1, F2 = loc(info, s, "F1"), loc(info, s, "F2")
        ch = [nm for nm, v in (("F1", F1), ("F2", F2)) if v is not tm.sym("L_" + nm, "R")]
        lim = tm.num(1) if not twin else tm.num(2)
        if ch:
            U.discharge_valid(r, "correction.applied_only_above_1_atm#%d" % len(r.obligations), list(s.pc), tm.lt(lim, P(s)))
        for hy, low in cases(list(s.pc), tm.le(P(s), tm.num(1))):
            if low:
                r.add("correction.none_at_or_below_1_atm(F1,F2_stay_the_common_function)", DISCHARGED if not ch else FAILED, "symex", 0, repr(ch)); n["low"] += 1
        for nm, v, bn in (("F1", F1, "B1"), ("F2", F2, "B2")):
            if nm not in ch:
                continue
            bcorr = loc(info, s, bn)
            same_form = v is tm.substitute(Fform, {LB: bcorr})
            if not same_form:
                cv = B.SymConv()
                same_form = sympy.simplify(cv.conv(v) - cv.conv(tm.substitute(Fform, {LB: bcorr}))) == 0
            r.add("correction.%s_is_the_same_function_with_b_replaced_by_%s#%d" % (nm, bn, len(r.obligations)), DISCHARGED if same_form else FAILED, "symex", 0, repr(v)[:160])
            U.discharge_valid(r, "correction.%s_lowers_b_by_at_most_0.2#%d" % (bn, len(r.obligations)), list(s.pc), tm.le(LB - bcorr, tm.Q("1/5")))
            n[nm] += 1
    r.add("reach.low_pressure_and_both_corrections", DISCHARGED if all(n.values()) else UNDECIDED, "symex", 0, repr(n), kind="vacuity")
    r.assumptions += ["the size of the correction (7e-5 + 1.93e-9 (T-250)^2) P and 9.65e-10 (T-263)^2.773 P^0.623 is an empirical fit of the authors and is not compared with data",
                      "above 1 atm the osmotic Debye-Hueckel term keeps b = 1.2 (as coded): Gibbs-Duhem consistency of the corrected functions is not claimed (see unit C16.pitzer.binary_and_Debye_Hueckel...)",
                      "locals read by name: F, F1, F2, B, B1, B2"]
    return r


# ------------------------------------------------------------------------------------------------------------------------------------
# 12. pitzer(): every term is built from ITS parameter: value at the current temperature, its species, its alpha, its charges
# ------------------------------------------------------------------------------------------------------------------------------------

def arr_name(a):
    while a.op == "store":
        a = a.args[0]
    return a.args[0] if a.op == "sym" else repr(a)[:40]


def unit_terms_use_their_parameter(twin=False):
    """pitzer(), sum over param_list: the term of list entry j is built from the parameter P = pitz_params[param_list[j]] and from nothing
    else: the value is P->p (the temperature-evaluated value PTEMP left there - never a raw coefficient a[k]), the molalities and the
    activity coefficients touched are those of P's own species ispec[0], ispec[1] (and ispec[2] for PSI, ZETA, MU, ETA - exactly two for
    the pair types), alpha is P->alpha, the charges in the C0 term are those of P's two ions, the higher-order electrostatic values are
    those of P's shared record."""
    q = "Phreeqc::pitzer"
    ev = enum_vals()
    fn = A.find_function(PITZ, q)
    r = U.new_unit("C16.pitzer.every_term_of_the_sum_is_built_from_its_own_parameter_value_species_alpha_and_charges", PITZ, q, fn)
    ol = loops_doing(fn, PITZ, ("pitz_params[i]->ispec[0]", "LGAMMA["))[0]
    f, ex, its, info = U.run_loop_isolated(PITZ, q, ol, ctx=mkctx(functional=("G", "GP")))
    j = tm.sym("iter_j", "I")
    seen = set()
    pair = ("TYPE_B0", "TYPE_B1", "TYPE_B2", "TYPE_C0", "TYPE_THETA", "TYPE_ETHETA", "TYPE_LAMBDA")
    trip = ("TYPE_PSI", "TYPE_ZETA", "TYPE_MU", "TYPE_ETA")
    for s in live(its, ("run", "cont")):
        tys = [t for t in PZ_TYPES if any(c_.op == "==" and tm.isnum(c_.args[1]) and int(c_.args[1].args[0]) == ev[t] and c_.args[0].op == "select" and "type:I" in repr(c_.args[0].args[0]) for c_ in s.pc)]
        wr = [(ix, v) for k, ix, v in U.iter_writes(s) if k == ("m", "R")]
        if len(tys) != 1 or not wr:
            continue
        t = tys[0]
        idx = tm.select(entry_arr(ex, s, ("m", "I")), vdata(ex, s, "param_list"), j)
        P = tm.select(entry_arr(ex, s, ("m", "P")), vdata(ex, s, "pitz_params"), idx if not twin else j)
        isp = [tm.select(entry_arr(ex, s, ("m", "I")), tm.app("fld:ispec", (P,), "P"), tm.num(k_, "I")) for k_ in range(3)]
        LG, Mv = vdata(ex, s, "LGAMMA"), vdata(ex, s, "M")
        tgt = [ix for ix, v in wr if not (ix[0].op == "sym" and ix[0].args[0].startswith("&L_"))]      # address-taken locals (etheta, ethetap) live in memory too
        nsp = 3 if t in trip else 2
        okt = all(ix[0] is LG for ix in tgt) and [ix[1] for ix in tgt][::-1] == isp[:nsp] or (all(ix[0] is LG for ix in tgt) and sorted(repr(ix[1]) for ix in tgt) == sorted(repr(x) for x in isp[:nsp]))
        r.add("%s.activity_coefficients_of_its_own_%d_species_are_updated" % (t, nsp), DISCHARGED if okt else FAILED, "symex", 0, repr(tgt)[:200])
        terms = [v for ix, v in wr] + [loc(info, s, nm) for nm in ("OSMOT", "CSUM", "F")]
        bad = []
        uses_p = False
        sp_of = [tm.select(entry_arr(ex, s, ("m", "P")), vdata(ex, s, "spec"), isp[k_]) for k_ in range(3)]
        th = fld0(ex, s, "thetas", "P", P)
        for tt in terms:
            for x in tm.subterms(tt):
                if x.op != "select":
                    continue
                an = arr_name(x.args[0]); ix = x.args[1]
                if ".p:R" in an:
                    uses_p = uses_p or ix[0] is P
                    if ix[0] is not P: bad.append("value of another parameter: %r" % (ix,))
                elif ".alpha:R" in an or ".os_coef:R" in an:
                    if ix[0] is not P: bad.append("alpha / coefficient of another parameter")
                elif ".z:R" in an:
                    if not any(ix[0] is sp_ for sp_ in sp_of[:2]): bad.append("charge of a species that is not one of its two ions: %r" % (ix,))
                elif ".etheta:R" in an or ".ethetap:R" in an:
                    if ix[0] is not th: bad.append("electrostatic mixing value of another record")
                elif "mem:R" in an and len(ix) == 2:
                    if ix[0] is Mv:
                        if not any(ix[1] is k_ for k_ in isp[:nsp]): bad.append("molality of a foreign species: %r" % (ix[1],))
                    elif ix[0] is LG:
                        if not any(ix[1] is k_ for k_ in isp[:nsp]): bad.append("gamma of a foreign species")
                    elif ix[0].op == "app" and ix[0].args[0] == "fld:a":
                        bad.append("raw temperature coefficient a[k] used instead of the evaluated value p")
                    elif ix[0].op == "app" and ix[0].args[0] == "fld:ln_coef":
                        if ix[0].args[1] is not P: bad.append("coefficient of another parameter")
        if t == "TYPE_ETHETA":
            uses_p = True
        r.add("%s.built_from_the_evaluated_value_p_species_alpha_charges_of_this_parameter_only" % t, DISCHARGED if not bad and uses_p else FAILED, "symex", 0, "; ".join(sorted(set(bad)))[:300] or ("" if uses_p else "P->p not used"))
        seen.add(t)
    need = set(pair) | set(trip)
    r.add("reach.every_parameter_type", DISCHARGED if need <= seen else UNDECIDED, "symex", 0, repr(sorted(need - seen)), kind="vacuity")
    r.assumptions += ["the functional form of each term is the subject of the Gibbs-Duhem units (C16.pitzer.binary..., mixing..., LAMBDA_and_MU...)", "p is the value calc_pitz_param stored for the current temperature (units C16.calc_pitz_param, C16.PTEMP)",
                      "locals read by name: OSMOT, CSUM, F"]
    return r


def unit_tidy_third_species(twin=False):
    """pitzer_tidy: the types whose term in pitzer() / whose test in pitzer_make_lists uses a THIRD species (PSI, ZETA, MU, ETA) must not be
    left with the unresolved index -1 for it: a third species that is named but does not exist is an input error, as it is for the first
    two.  (On the tree this was written against, MU and ETA are missing from that test: ispec[2] == -1 is then used as a subscript of
    spec / IPRSNT - a native run of `PITZER; -MU; CO2 CO2 Xyzzy 0.01` ends in SIGSEGV at pitzer.cpp:351.)"""
    q = "Phreeqc::pitzer_tidy"
    ev = enum_vals()
    fn = A.find_function(PITZ, q)
    r = U.new_unit("C16.pitzer_tidy.undefined_third_species_of_a_triplet_parameter_is_an_input_error_not_index_-1", PITZ, q, fn)
    o2 = loops_doing(fn, PITZ, "ispec[j]=")[0]
    inner = loops_inside(fn, o2)
    f, ex, its, info = U.run_loop_isolated(PITZ, q, o2, ctx=mkctx(functional=("ISPEC",)), inner_modes={k: "unroll" for k in inner})
    i = tm.sym("iter_i", "I")
    done = {}
    trip = ("TYPE_PSI", "TYPE_ZETA", "TYPE_MU", "TYPE_ETA") if not twin else ("TYPE_PSI", "TYPE_ZETA", "TYPE_MU", "TYPE_ETA", "TYPE_B0")
    for s in live(its, ("run", "cont", "ret")):
        Pz = tm.select(entry_arr(ex, s, ("m", "P")), vdata(ex, s, "pitz_params"), i)
        sp2 = tm.select(entry_arr(ex, s, ("m", "P")), tm.app("fld:species", (Pz,), "P"), tm.num(2, "I"))
        w2 = [v for k, ix, v in U.iter_writes(s) if k == ("m", "I") and ix[0] is tm.app("fld:ispec", (Pz,), "P") and is_val(ix[1], 2)]
        if len(w2) != 1:
            continue
        ty = fld0(ex, s, "type", "I", Pz)
        for t in trip:
            hy = list(s.pc) + [tm.eq(ty, tm.num(ev[t], "I")), tm.eq(w2[0], tm.num(-1, "I"))]
            if B.z3_sat(hy) == "unsat":
                continue
            sig = s.status == "ret" and is_val(s.ret, ev["ERROR"]) and any(k == ("f", "input_error", "I") for k, ix, v in U.iter_writes(s))
            done[t] = done.get(t, True) and sig
    for t in trip:
        if t in done:
            r.add("%s.named_but_undefined_third_species_stops_tidy_with_an_input_error" % t[5:], DISCHARGED if done[t] else FAILED, "symex", 0,
                  "" if done[t] else "tidy goes on with ispec[2] == -1; replay: /var/tmp/agent_3_out/demo/mu_undefined.cpp (SIGSEGV in pitzer_tidy)")
    r.add("reach.triplet_types", DISCHARGED if set(("TYPE_PSI", "TYPE_ZETA", "TYPE_MU", "TYPE_ETA")) <= set(done) else UNDECIDED, "symex", 0, repr(sorted(done)), kind="vacuity")
    r.assumptions += ["ISPEC returns -1 for a name that is not a species (unit C16.pitzer_tidy.species_blocks...)", "which types use a third species: pitzer() and pitzer_make_lists (unit C16.pitzer_make_lists...)"]
    return r


UNITS = [
    ("C16.read_pitzer.block_header_selects_parameter_type_and_species_count_data_lines_stored_with_them", lambda twin=False: unit_block_reader("pitzer", twin)),
    ("C16.pitz_param_read.species_names_then_coefficients_a0_to_a5_in_order", unit_pitz_param_read),
    ("C16.pitz_param_store.one_entry_per_type_and_species_set_redefinition_replaces", lambda twin=False: unit_param_store("pitzer", twin)),
    ("C16.sit_param_store.one_entry_per_type_and_species_set_redefinition_replaces", lambda twin=False: unit_param_store("sit", twin)),
    ("C16.pitzer_tidy.species_blocks_of_spec_and_parameter_names_resolved_to_their_slots", lambda twin=False: unit_tidy_blocks("pitzer", twin)),
    ("C16.sit_tidy.species_blocks_of_spec_and_parameter_names_resolved_to_their_slots", lambda twin=False: unit_tidy_blocks("sit", twin)),
    ("C16.pitzer_tidy.one_ETHETA_term_per_pair_of_like_charged_ions_sharing_one_record_per_charge_pair", unit_tidy_etheta),
    ("C16.pitzer_tidy.alpha_by_charge_type_ALPHAS_overrides_and_KCl_reference_of_MacInnes_scaling", unit_tidy_alpha_macinnes),
    ("C16.pitzer_make_lists.species_in_exactly_one_list_parameters_with_all_species_present", lambda twin=False: unit_make_lists("pitzer", twin)),
    ("C16.sit_make_lists.species_in_exactly_one_list_parameters_with_all_species_present", lambda twin=False: unit_make_lists("sit", twin)),
    ("C16.pitzer.LAMBDA_and_MU_terms_with_coincident_species_are_derivatives_of_one_excess_function", unit_neutral_terms),
    ("C16.read_species.option_decides_the_activity_coefficient_model_of_the_species_defined_last", lambda twin=False: unit_species_gamma_options("aqueous", twin)),
    ("C16.read_exchange_species.option_decides_the_activity_coefficient_model_of_the_species_defined_last", lambda twin=False: unit_species_gamma_options("exchange", twin)),
    ("C16.read_llnl_aqueous_model_parameters.numbers_go_to_the_array_of_their_option_and_lengths_must_match_the_grid", unit_llnl_parameters),
    ("C16.read_surface_species.option_decides_the_activity_coefficient_model_of_the_species_defined_last", lambda twin=False: unit_species_gamma_options("surface", twin)),
    ("C16.sit.temperature_function_of_epsilon_and_refresh_of_every_parameter_in_use", unit_sit_temperature),
    ("C16.pitzer.pressure_correction_of_the_Debye_Hueckel_b_acts_only_above_1_atm_and_is_bounded", unit_pressure_hook),
    ("C16.pitzer.every_term_of_the_sum_is_built_from_its_own_parameter_value_species_alpha_and_charges", unit_terms_use_their_parameter),
    ("C16.pitzer_tidy.undefined_third_species_of_a_triplet_parameter_is_an_input_error_not_index_-1", unit_tidy_third_species),
    ("C16.read_sit.block_header_selects_parameter_type_and_species_count_data_lines_stored_with_them", lambda twin=False: unit_block_reader("sit", twin)),
]
