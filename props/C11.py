"""C11 — transport only moves dissolved mass (partial).
Statement contracts on the advective shift loops of Phreeqc::transport() and Phreeqc::advection(): every column cell receives
the previous solution of its upstream neighbour (exact shift, no smearing).  Dispersion/diffusion conservation and convexity
(init_mix, multi_D, diffuse_implicit) are NOT decided."""
import time
from vf import core
from vf.core import Undecided, FAILED, DISCHARGED, UNDECIDED
from vf.astvc import ast as A, terms as tm, unit as U, backends as B, stl as STLM
from vf.astvc import symex as SX

PID = "C11"
THIS = tm.sym("this", "P")


def shift_loops(rel, q):
    """ordinals of for-loops whose whole body is one Rxn_copy(Rxn_solution_map, <src>, <induction variable>) call"""
    fn = A.find_function(rel, q)
    loops = [x for x in A.walk(fn) if x.get("kind") in ("ForStmt", "WhileStmt", "DoStmt")]
    out = []
    for k, lp in enumerate(loops):
        if lp.get("kind") != "ForStmt":
            continue
        body = lp["inner"][-1]
        stmts = body.get("inner", []) if body.get("kind") == "CompoundStmt" else [body]
        stmts = [s for s in stmts if s.get("kind") not in ("NullStmt",)]
        if len(stmts) != 1 or stmts[0].get("kind") != "CallExpr":
            continue
        if not any(y.get("kind") == "DeclRefExpr" and y.get("referencedDecl", {}).get("name") == "Rxn_copy" for y in A.walk(stmts[0]["inner"][0])):
            continue
        if not any(y.get("kind") == "MemberExpr" and y.get("name") == "Rxn_solution_map" for y in A.walk(stmts[0])):
            continue
        # shift loops copy between column cells: both indices mention the induction variable
        names = [y.get("referencedDecl", {}).get("name") for y in A.walk(stmts[0]["inner"][2]) if y.get("kind") == "DeclRefExpr"]
        if "i" not in names:
            continue
        out.append(k)
    return fn, out


def unit_shift(rel, q, which, twin=False):
    fn0, ords = shift_loops(rel, q)
    r = U.new_unit("C11.%s.advective_shift" % which, rel, q, fn0)
    if not ords:
        raise Undecided("no shift loop found in %s" % q)
    for o in ords:
        ctx = SX.Ctx(); ctx.stl = STLM.STL(SX)
        class AllPure(set):
            def __contains__(self, x): return True
        ctx.pure = AllPure()
        fn, ex, iters, info = U.run_loop_isolated(rel, q, o, ctx=ctx)
        node = info["node"]
        i = tm.sym("iter_i", "I")
        step = tm.select(ex.heap_arr(SX.State(), ("f", "ishift", "I")), THIS) if which == "transport" else tm.num(1, "I")
        tag = "loop%d" % o
        for s in iters:
            if s.status not in ("run", "cont", "brk"):
                continue
            evs = [e for e in U.iter_events(s) if e.name.endswith("Rxn_copy")]
            ok = len(evs) == 1
            r.add(tag + ".one_copy_per_cell", DISCHARGED if ok else FAILED, "trace", 0, repr(evs)[:150], kind="trace")
            if not ok:
                continue
            m, src, dst = evs[0].args
            okm = m is tm.app("fld:Rxn_solution_map", (THIS,), "P")
            r.add(tag + ".copies_within_the_solution_store", DISCHARGED if okm else FAILED, "term-inspection", 0, repr(m)[:80])
            U.discharge_valid(r, tag + ".destination_is_cell_i", list(s.pc), tm.eq(ex.coerce(dst, "I"), i))
            U.discharge_valid(r, tag + ".source_is_upstream_neighbour(i-shift)", list(s.pc), tm.eq(ex.coerce(src, "I"), tm.sub(i, step if not twin else tm.num(2, "I"))))
            # order lemma: the next cell visited is the one just read, and no cell visited earlier is read again
            init, cond, inc, body = ex.loop_parts(node)
            s2 = s.clone()
            for s3, _ in ex.ev(inc, s2):
                nxt = U.local_of(info, s3, "i")
                U.discharge_valid(r, tag + ".next_cell_visited_is_the_cell_just_read(read_before_overwritten)", list(s3.pc), tm.eq(nxt, ex.coerce(src, "I")))
        # the cells visited are exactly the column cells 1..N, starting at the downstream end (so that every cell is read before it is overwritten)
        init, cond, inc, body = ex.loop_parts(node)
        N = tm.select(ex.heap_arr(SX.State(), ("f", "count_cells" if which == "transport" else "count_ad_cells", "I")), THIS)
        conds = [s_.pc[0] for s_ in iters if s_.pc and "iter_i" in repr(s_.pc[0])]
        if not conds or init is None:
            r.add(tag + ".visits_exactly_the_column_cells", UNDECIDED, "symex", 0, "loop condition or initialisation not read")
        else:
            cnd = conds[0]
            v0 = None
            try:
                for s0 in ex.exec(init, [info["entry_state"].clone()]):
                    v0 = U.local_of(info, s0, "i")
            except Exception:
                v0 = None
            down = B.z3_prove([], tm.eq(cnd, tm.lt(tm.num(0, "I"), i)))[0] == "proved" or B.z3_prove([tm.lt(tm.num(0, "I"), i)], cnd)[0] == "proved" and B.z3_prove([cnd], tm.lt(tm.num(0, "I"), i))[0] == "proved"
            up = B.z3_prove([tm.le(i, N)], cnd)[0] == "proved" and B.z3_prove([cnd], tm.le(i, N))[0] == "proved"
            if twin:
                down = up = False
            fc, lc = [U.local_of(info, iters[0], n_) if n_ in info["names"] else None for n_ in ("first_c", "last_c")] if which == "transport" else (None, None)
            if which == "transport" and fc is not None and not twin:
                # direction-generic sweep: from the last column cell towards the first, one cell per step against the flow
                want_c = tm.not_(tm.eq(i, tm.sub(fc, step)))
                okc = B.z3_prove([want_c], cnd)[0] == "proved" and B.z3_prove([cnd], want_c)[0] == "proved"
                okv = v0 is not None and v0 is lc
                r.add(tag + ".sweeps_from_the_last_cell_to_the_first_against_the_flow", DISCHARGED if okc and okv else FAILED, "z3", 0, "start %r cond %r" % (v0, cnd))
            elif down:
                okv = v0 is not None and B.z3_prove([], tm.eq(v0, N))[0] == "proved"
                r.add(tag + ".visits_exactly_the_column_cells(N_down_to_1)", DISCHARGED if okv else FAILED, "z3", 0, "start %r" % (v0,))
            elif up:
                okv = v0 is not None and B.z3_prove([], tm.eq(v0, tm.num(1, "I")))[0] == "proved"
                r.add(tag + ".visits_exactly_the_column_cells(1_up_to_N)", DISCHARGED if okv else FAILED, "z3", 0, "start %r" % (v0,))
            else:
                r.add(tag + ".visits_exactly_the_column_cells", FAILED, "z3", 0, "condition %r is neither i > 0 nor i <= N" % (cnd,))
    r.add("reach.loops", DISCHARGED, "ast-scan", 0, "shift loops: %s" % ords, kind="vacuity")
    r.assumptions += ["Rxn_copy(M, i, j) by its contract (unit C14.Rxn_copy): M[j] := copy of M[i], other keys unchanged",
                      "transport(): ishift is +1 or -1 (flow direction); the induction from the per-iteration contract and the order lemma to "
                      "'solution i after the shift = previous solution i - ishift for every column cell' is stated, not mechanised",
                      "the surrounding function (boundary cells, stagnant zones, dispersion) is not executed"]
    return r


def units(tier):
    us = []
    for rel, q, which in (("src/phreeqcpp/transport.cpp", "Phreeqc::transport", "transport"), ("src/phreeqcpp/advection.cpp", "Phreeqc::advection", "advection")):
        def g(rel=rel, q=q, which=which):
            r = unit_shift(rel, q, which)
            if not any(o.status == FAILED for o in r.obligations):
                U.must_fail_twin(r, "vacuity.must_fail_twin", lambda: unit_shift(rel, q, which, twin=True))
            return r
        us.append(("C11.%s.advective_shift" % which, g))
    from props import c11_mix as MX
    from props.common import wrap as _wrap
    _wrap(us, "C11.init_mix.partition_of_unity_and_stability_bookkeeping", MX.unit_init_mix)
    _wrap(us, "C11.read_transport.defaults_cover_every_cell", MX.unit_transport_defaults)
    from props import c11_mcd as MC
    _wrap(us, "C11.multi_D.moles_move_under_the_same_element", MC.unit_mcd_bookkeeping)
    _wrap(us, "C11.fill_m_s.giving_and_receiving_totals_get_the_same_multiple", MC.unit_fill_m_s_symmetry)
    _wrap(us, "C11.diffuse_implicit.hydrogen_and_oxygen_booked_alike", MC.unit_h_o_twin_blocks)
    return us


def run(tier, seed, only, jobs):
    t0 = time.time()
    U.TIER.update(tier=tier, seed=seed)
    us = units(tier)
    from props.common import ext_units as _ext
    us += _ext("C11")
    if only:
        us = [x for x in us if only in x[0]]
    res = core.run_units(us, jobs=jobs)
    return core.finish(PID, tier, seed, "proof", res, t0,
        checker_cmd="astvc: clang AST of transport.cpp / advection.cpp -> statement contracts on the shift loops (isolated iteration) -> z3 5.1",
        trusted_base=["clang 14 AST", "astvc (vf/astvc)", "z3 5.1"],
        assumptions=["machine integers treated as mathematical"],
        explanation="Exact advective shift at the level of the loop that performs it; bounded mixing / conservation of the dispersive part is not decided.")
