"""C01 — speciation satisfies the database's equations (partial).
Under contract: log K(T,P) as the database expression (Phreeqc::k_calc) and its use in k_temp;
read-out identities of basicsubs.cpp.  The Newton solver's fixed point is NOT decided."""
import time
from fractions import Fraction
from vf import core
from vf.core import Undecided, FAILED
from vf.astvc import ast as A, terms as tm, unit as U, hdr
from vf.astvc.symex import Exec, Ctx, State

PID = "C01"
PREP = "src/phreeqcpp/prep.cpp"
GS = "src/phreeqcpp/global_structures.h"


def k_calc_spec(K, T, P, ln10, R, Pref, twin=False):
    """PHREEQC-3 manual: van 't Hoff + six-term analytical expression + molar-volume pressure term.
    log K = logK_T0 - dH/(ln10 R) (1/T - 1/298.15) + A1 + A2 T + A3/T + A4 log10 T + A5/T^2 + A6 T^2
            - [P > Pref] dV 1e-9 (P - Pref)/(ln10 R T)"""
    T0 = tm.Q("298.15") if not twin else tm.Q("273.15")
    one = tm.num(1)
    hi = (K("logK_T0") - K("delta_h") * (one / T - one / T0) / (ln10 * R)
          + K("T_A1") + K("T_A2") * T + K("T_A3") / T + K("T_A4") * tm.app("log10", (T,), "R")
          + K("T_A5") / (T * T) + K("T_A6") * T * T)
    dp = P - Pref
    lo = hi - K("delta_v") * tm.Q("1e-9") * dp / (ln10 * R * T)
    return hi, lo, dp


def unit_k_calc(twin=False):
    uid = "C01.k_calc"
    fn = A.find_function(PREP, "Phreeqc::k_calc")
    r = U.new_unit(uid, PREP, "Phreeqc::k_calc", fn)
    ctx = Ctx(); ex = Exec(ctx); st = State()
    P0, T, P = tm.sym("P0_l_logk", "P"), tm.sym("P1_tempk", "R"), tm.sym("P2_presPa", "R")
    mem = tm.sym("H0.mem:R", ("A", "P", "I", "R"))
    ev = A.enum_values_compiled("global_structures.h", ["logK_T0", "delta_h", "T_A1", "T_A2", "T_A3", "T_A4", "T_A5", "T_A6", "delta_v", "MAX_LOG_K_INDICES"])
    ctx.enum_values.update(ev)
    K = lambda name: tm.select(mem, P0, tm.num(ev[name], "I"))
    ln10 = tm.select(tm.sym("H0.LOG_10:R", ("A", "P", "R")), tm.sym("this", "P"))
    R = tm.num(hdr.define_value(GS, "R_KJ_DEG_MOL"))
    Pref = tm.num(hdr.define_value(GS, "REF_PRES_PASCAL"))
    finals = ex.run(fn, st)
    hi, lo, dp = k_calc_spec(K, T, P, ln10, R, Pref, twin)
    pre = [tm.lt(tm.num(0), T), tm.lt(tm.num(0), ln10)]
    if len(finals) != 2:
        r.notes.append("paths: %d" % len(finals))
    for i, s in enumerate(finals):
        if s.status != "ret":
            raise Undecided("k_calc path %d ends with status %s" % (i, s.status))
        hyps = pre + s.pc
        # which branch of the specification applies on this path?
        above = tm.lt(tm.num(0), dp)
        from vf.astvc import backends as B
        if B.z3_prove(hyps, above)[0] == "proved":
            spec, tag = lo, "P>Pref"
        elif B.z3_prove(hyps, tm.not_(above))[0] == "proved":
            spec, tag = hi, "P<=Pref"
        else:
            r.add("post.result[path %d]" % i, FAILED, "z3-5.1", 0, "path condition %r does not decide the specification's case P > P_ref" % (s.pc,))
            continue
        U.discharge_eq_real(r, "post.result==logK(T,P)[%s]" % tag, hyps, s.ret, spec)
        U.witness(r, "reach[%s]" % tag, hyps)
        # frame: nothing is written, nothing is called except log10
        same = all(v.op == "sym" for v in s.heap.values())
        r.add("frame.assigns_nothing[%s]" % tag, core.DISCHARGED if same and not s.events else FAILED, "syntactic", 0,
              "no memory component written, no call event" if same and not s.events else "writes %r events %r" % ([k for k, v in s.heap.items() if v.op != "sym"], s.events), kind="frame")
    # constants: R within 1e-4 (relative) of the gas constant in kJ/(K mol); P_ref = 1 atm in Pa
    Rv = hdr.define_value(GS, "R_KJ_DEG_MOL"); Rtrue = Fraction("0.008314462618")
    ok = abs(Rv - Rtrue) / Rtrue < Fraction(1, 10000)
    r.add("const.R_KJ_DEG_MOL~8.314462618e-3(rel 1e-4)", core.DISCHARGED if ok else FAILED, "exact-rational", 0, "R_KJ_DEG_MOL = %s" % float(Rv), kind="const")
    ok = hdr.define_value(GS, "REF_PRES_PASCAL") == Fraction(101325)
    r.add("const.REF_PRES_PASCAL==101325", core.DISCHARGED if ok else FAILED, "exact-rational", 0, "", kind="const")
    r.assumptions += ["doubles read as mathematical reals; log10 uninterpreted", "this->LOG_10 is ln 10 (set in Phreeqc::init; checked by unit C01.LOG_10_init)"]
    r.notes.append("node kinds: " + " ".join(sorted(ex.kinds_seen)))
    return r


def units(tier):
    def kc():
        r = unit_k_calc()
        U.must_fail_twin(r, "vacuity.must_fail_twin", lambda: unit_k_calc(twin=True))
        return r
    from props import c01_more as M
    us = [("C01.k_calc", kc)]
    def wrap(uid, f):
        def g():
            r = f()
            if not any(o.status == FAILED for o in r.obligations):
                U.must_fail_twin(r, "vacuity.must_fail_twin", lambda: f(twin=True))
            return r
        us.append((uid, g))
    wrap("C01.add_other_logk.scaled_addition", M.unit_add_other_logk)
    wrap("C01.add_other_logk.named_expression_and_form", M.unit_add_other_logk_lookup)
    from props import c01_ktemp as KT
    wrap("C01.k_temp.every_logK_at_solution_T_and_P", KT.unit_k_temp)
    from props import c01_buildmodel as BM
    wrap("C01.build_model.species_wired_by_kind", BM.unit_species_wiring)
    from props import c15_readers as RD
    wrap("C01.read_analytical_expression_only.six_coefficients_in_order", RD.unit_analytic)
    def _dh(twin=False):
        r_ = RD.unit_delta_h(twin); r_.id = "C01.read_delta_h_only.enthalpy_stored_in_kJ_for_every_unit"; return r_
    wrap("C01.read_delta_h_only.enthalpy_stored_in_kJ_for_every_unit", _dh)
    wrap("C01.iap_logk_pairing", M.unit_iap_logk_pairing)
    wrap("C01.build_model.prescribed_mole_balance_used_at_both_sites", M.unit_species_list_site)
    wrap("C01.write_mass_action_eqn_x.rewrite_scaled_by_token_coefficient", M.unit_rewrite_scaling)
    from props import c01_model as MM
    wrap("C01.molalities.mass_action", MM.unit_molalities)
    wrap("C01.sum_species.totals_charge_alkalinity", MM.unit_sum_species)
    from props import c01_init as IN
    for fname, cls, par in IN.RECORDS:
        wrap("C01.%s.redefinition_starts_from_a_clean_record" % fname, lambda twin=False, a=(fname, cls, par): IN.unit_record_init(*a, twin=twin))
    from props import c01_resid as MR
    wrap("C01.residuals.row_equations", MR.unit_residual_rows)
    from props import c01_readouts as RO
    wrap("C01.species_readouts.LA==LM+LG", RO.unit_species_readouts)
    wrap("C01.total.TOT_is_per_kg_water_on_every_branch", RO.unit_total_readout)
    wrap("C01.saturation_index.SI==IAP-logK", lambda twin=False: M.unit_si_readout("saturation_index", twin))
    wrap("C01.saturation_ratio.SI==IAP-logK", lambda twin=False: M.unit_si_readout("saturation_ratio", twin))
    return us


def run(tier, seed, only, jobs):
    t0 = time.time()
    U.TIER.update(tier=tier, seed=seed)
    us = units(tier)
    from props.common import ext_units as _ext
    us += _ext("C01")
    if only:
        us = [x for x in us if only in x[0]]
    res = core.run_units(us, jobs=jobs)
    return core.finish(PID, tier, seed, "proof", res, t0,
        checker_cmd="astvc: clang++ -Xclang -ast-dump=json of the real TU -> path-wise VC generation -> sympy.cancel / z3 5.1",
        trusted_base=["clang 14 AST", "astvc VC generator (this repository, vf/astvc)", "sympy 1.14 cancel/together", "z3 5.1"],
        assumptions=["machine doubles treated as mathematical reals", "log10/exp/sqrt/pow uninterpreted except stated lemmas"],
        explanation="Function-level contracts for the log K(T,P) expression; the solver's fixed point (mass action, mole balance at convergence) is not decided.")
