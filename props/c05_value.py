"""C05: IPhreeqc::GetSelectedOutputValue(row, col, pVAR): the value handed out is exactly the table's cell (row, col) of the
current user number — the result of CSelectedOutput::Get with the same three arguments is returned unchanged; a null pVAR or a
user number without table yields VR_INVALIDARG without touching any table; every non-OK result is reported through AddError
followed by update_errors."""
from props.common import *
from vf.core import FAILED, DISCHARGED, UNDECIDED

IPQ = "src/IPhreeqc.cpp"


def unit_get_value(twin=False):
    q = "IPhreeqc::GetSelectedOutputValue"
    fn = A.find_function(IPQ, q)
    r = U.new_unit("C05.GetSelectedOutputValue.forwards_the_table_cell", IPQ, q, fn)
    c = ctx()
    ev = A.enum_values_compiled("Var.h", ["VR_OK", "VR_OUTOFMEMORY", "VR_BADVARTYPE", "VR_INVALIDARG", "VR_INVALIDROW", "VR_INVALIDCOL"])
    c.enum_values.update(ev)
    f, ex, fin, info = U.run_function(IPQ, q, ctx=c)
    row, col, pv = tm.sym("P0_row", "I"), tm.sym("P1_col", "I"), tm.sym("P2_pVAR", "P")
    cur = fld0(ex, fin[0], "CurrentSelectedOutputUserNumber", "I") if fin else None
    kinds = set()
    for s in [s for s in fin if s.status == "ret" and B.z3_sat(list(s.pc)) != "unsat"]:
        names = [e.name.split("::")[-1] for e in s.events]
        gets = [e for e in s.events if e.name.split("::")[-1] == "Get"]
        null = B.z3_prove(list(s.pc), tm.eq(pv, tm.num(0, "P")))[0] == "proved"
        has = [t for t in tm.subterms(tm.and_(*s.pc)) if t.op == "select" and t.args[0].op == "sym" and "#mhas" in t.args[0].args[0]]
        if null:
            kinds.add("null")
            ok = not gets and tm.isnum(s.ret) and s.ret.args[0] == ev["VR_INVALIDARG"]
            r.add("null_pVAR.VR_INVALIDARG_and_no_table_access", DISCHARGED if ok else FAILED, "symex", 0, repr(s.ret))
        elif has and B.z3_prove(list(s.pc), tm.not_(has[0]))[0] == "proved":
            kinds.add("no_table")
            ok = not gets and tm.isnum(s.ret) and s.ret.args[0] == ev["VR_INVALIDARG"]
            r.add("no_table_for_current_user_number.VR_INVALIDARG", DISCHARGED if ok else FAILED, "symex", 0, repr(s.ret))
        else:
            kinds.add("table")
            okg = len(gets) == 1 and tuple(gets[0].args[:3]) == (row, col, pv)
            if twin:
                okg = okg and tuple(gets[0].args[:2]) == (col, row)
            r.add("table.cell(row,col)_read_into_pVAR_once", DISCHARGED if okg else FAILED, "trace", 0, repr([e.args for e in gets])[:160], kind="trace")
            r.add("table.result_of_Get_returned_unchanged", DISCHARGED if gets and s.ret is gets[0].result else FAILED, "symex", 0, repr(s.ret)[:80])
            key_ok = bool(has) and cur is not None and cur in tm.subterms(has[0]) and "SelectedOutputMap" in repr(has[0])
            r.add("table.looked_up_under_the_current_user_number", DISCHARGED if key_ok else FAILED, "symex", 0, repr(has)[:160])
        # error reporting: any path whose result can be non-OK and that is one of the documented codes reports it
        if s.ret is not None and B.z3_prove(list(s.pc), tm.or_(*[tm.eq(ex.coerce(s.ret, "I"), tm.num(ev[k], "I")) for k in ("VR_INVALIDROW", "VR_INVALIDCOL", "VR_OUTOFMEMORY", "VR_BADVARTYPE")]))[0] == "proved":
            okm = "AddError" in names and "update_errors" in names and names.index("AddError") < names.index("update_errors")
            r.add("documented_error_code.reported(AddError;update_errors)", DISCHARGED if okm else FAILED, "trace", 0, repr(names), kind="trace")
        r.add("error_reporter_cleared_first", DISCHARGED if names and names[0] == "Clear" else FAILED, "trace", 0, repr(names[:2]), kind="trace")
    r.add("reach.three_kinds", DISCHARGED if kinds == {"null", "no_table", "table"} else UNDECIDED, "symex", 0, repr(sorted(kinds)), kind="vacuity")
    r.assumptions += ["CSelectedOutput::Get is under C05.table.Get", "std::map::find semantics"]
    return r


def unit_get_value2(twin=False):
    """GetSelectedOutputValue2 (scalar-argument form used by the Fortran and C bindings): the cell is fetched by
    GetSelectedOutputValue(row, col, &v) and its result returned; an integer cell is reported as a double of the same value, a
    double as itself, a string is copied with the caller's length as bound; every path releases the temporary variant."""
    q = "IPhreeqc::GetSelectedOutputValue2"
    fn = A.find_function(IPQ, q)
    r = U.new_unit("C05.GetSelectedOutputValue2.type_and_value_of_the_cell", IPQ, q, fn)
    c = ctx(); c.log_stores = True
    tt = A.enum_values_compiled("Var.h", ["TT_EMPTY", "TT_ERROR", "TT_LONG", "TT_DOUBLE", "TT_STRING"])
    c.enum_values.update(tt)
    f, ex, fin, info = U.run_function(IPQ, q, ctx=c)
    row, col = tm.sym("P0_row", "I"), tm.sym("P1_col", "I")
    vt, dv, sv, sl = tm.sym("P2_vtype", "P"), tm.sym("P3_dvalue", "P"), tm.sym("P4_svalue", "P"), tm.sym("P5_svalue_length", "I")
    seen = set()
    for s in [s for s in fin if s.status == "ret" and B.z3_sat(list(s.pc)) != "unsat"]:
        names = [e.name.split("::")[-1] for e in s.events]
        g = [e for e in s.events if e.name.split("::")[-1] == "GetSelectedOutputValue"]
        if len(g) != 1:
            r.add("fetch.once", FAILED, "trace", 0, repr(names)); continue
        v = g[0].args[2]
        r.add("fetch.same_row_col_into_local_variant", DISCHARGED if tuple(g[0].args[:2]) == (row, col) else FAILED, "trace", 0, repr(g[0].args[:2]), kind="trace")
        r.add("result_of_fetch_returned", DISCHARGED if s.ret is g[0].result else FAILED, "symex", 0, repr(s.ret)[:60])
        r.add("variant_initialised_before_and_cleared_after", DISCHARGED if "VarInit" in names and names.index("VarInit") < names.index("GetSelectedOutputValue") and names[-1] == "VarClear" else FAILED, "trace", 0, repr(names), kind="trace")
        ty = fld0(ex, s, "type", "I", v)
        st = {repr(e.recv): e.args[1] for e in s.events if e.name == "store"}
        copies = [e for e in s.events if e.name.split("::")[-1] == "strncpy"]
        for name, code in tt.items():
            if B.z3_prove(list(s.pc), tm.eq(ty, tm.num(code, "I")))[0] != "proved":
                continue
            seen.add(name)
            tv = st.get(repr(vt))
            want_t = tt["TT_DOUBLE"] if name == "TT_LONG" else code
            okt = tv is not None and B.z3_prove(list(s.pc), tm.eq(ex.coerce(tv, "I"), tm.num(want_t, "I")))[0] == "proved"
            r.add("%s.reported_type" % name, DISCHARGED if okt else FAILED, "symex+z3", 0, repr(tv)[:80])
            if name in ("TT_LONG", "TT_DOUBLE"):
                d = st.get(repr(dv))
                want = tm.to_real(fld0(ex, s, "lVal", "I", v)) if name == "TT_LONG" else fld0(ex, s, "dVal", "R", v)
                okd = d is not None and (d is want or B.sympy_equal(d, want)[0])
                if twin and name == "TT_LONG":
                    okd = False
                r.add("%s.numeric_value_handed_out_unchanged" % name, DISCHARGED if okd else FAILED, "symex", 0, repr(d)[:100])
            if name == "TT_STRING":
                okc = len(copies) == 1 and copies[0].args[0] is sv and copies[0].args[1] is fld0(ex, s, "sVal", "P", v) and copies[0].args[2] is sl
                r.add("TT_STRING.text_copied_bounded_by_caller's_length", DISCHARGED if okc else FAILED, "trace", 0, repr([e.args for e in copies])[:160], kind="trace")
            elif copies:
                okc = all(e.args[0] is sv and e.args[2] is sl for e in copies)
                r.add("%s.text_rendering_bounded_by_caller's_length" % name, DISCHARGED if okc else FAILED, "trace", 0, "", kind="trace")
    r.add("reach.all_variant_types", DISCHARGED if seen == set(tt) else UNDECIDED, "symex", 0, repr(sorted(seen)), kind="vacuity")
    r.assumptions += ["snprintf renders the number (formats are under C05.format / C09)", "strncpy(dst, src, n) writes at most n bytes (libc)", "toreal: long -> double conversion is exact below 2^53"]
    return r


def unit_iphreeqc_endrow(twin=False):
    """IPhreeqc::EndRow: before a row of the table is closed every USER_PUNCH heading that received no value in this row gets
    an empty cell (so the table has one column per heading whatever the BASIC program punched), then the table's EndRow result
    is returned."""
    q = "IPhreeqc::EndRow"
    fn = A.find_function(IPQ, q)
    r = U.new_unit("C05.IPhreeqc_EndRow.every_user_punch_heading_gets_a_cell", IPQ, q, fn)
    c = ctx(functional=("Get_n_user", "Get_headings", "size"))
    f, ex, fin, info = U.run_function(IPQ, q, modes={0: "iter"}, ctx=c)
    entries = info["entry"].get(0, [])
    its = info["iter"].get(0, [])
    if not entries:
        r.add("padding_loop_reachable", FAILED, "symex", 0, "no path reaches the padding loop"); return r
    s0 = entries[0]
    pp = fld0(ex, s0, "PhreeqcPtr", "P")
    cso = fld0(ex, s0, "current_selected_output", "P", pp); cup = fld0(ex, s0, "current_user_punch", "P", pp)
    has = [t for t in tm.subterms(tm.and_(*s0.pc)) if t.op == "select" and t.args[0].op == "sym" and "#mhas" in t.args[0].args[0]]
    pre = [tm.not_(tm.eq(cso, tm.num(0, "P"))), tm.not_(tm.eq(cup, tm.num(0, "P")))] + has[:1]
    if twin:
        pre = pre[:1] + has[:1]
    cover = tm.or_(*[tm.and_(*e.pc) for e in entries])
    U.discharge_valid(r, "padding_runs_whenever_a_table_and_a_user_punch_exist(no_other_guard)", pre, cover)
    # loop starts at the number of values punched in this row
    lp = loop_node(fn, 0)
    init = text_of(IPQ, lp["inner"][0]); cond = text_of(IPQ, lp["inner"][2])
    r.add("padding.starts_at_n_user_punch_index", DISCHARGED if init.rstrip(";").endswith("=this->PhreeqcPtr->n_user_punch_index") else FAILED, "syntactic", 0, init, kind="structural")
    r.add("padding.runs_to_the_number_of_headings", DISCHARGED if cond.endswith("<this->PhreeqcPtr->current_user_punch->Get_headings().size()") else FAILED, "syntactic", 0, cond, kind="structural")
    n = 0
    for s in [s for s in its if s.status in ("run", "cont") and B.z3_sat(list(s.pc)) != "unsat"]:
        n += 1
        pb = [e for e in U.iter_events(s) if e.name.endswith("PushBackEmpty")]
        r.add("padding.one_empty_cell_per_missing_heading", DISCHARGED if len(pb) == 1 else FAILED, "trace", 0, repr([e.args for e in pb])[:160], kind="trace")
    r.add("reach.padding_iteration", DISCHARGED if n else UNDECIDED, "symex", 0, "%d" % n, kind="vacuity")
    for s in [s for s in fin if s.status == "ret" and B.z3_sat(list(s.pc)) != "unsat"]:
        er = [e for e in s.events if e.name.split("::")[-1] == "EndRow"]
        if er:
            r.add("table_row_closed_and_result_returned", DISCHARGED if s.ret is er[-1].result else FAILED, "symex", 0, repr(s.ret)[:60])
        else:
            r.add("no_table.returns_0", DISCHARGED if tm.isnum(s.ret) and s.ret.args[0] == 0 else FAILED, "symex", 0, repr(s.ret)[:60])
    r.assumptions += ["CSelectedOutput::PushBackEmpty / EndRow are under C05.table.*", "which heading text is passed is read from the loop body only"]
    return r


def unit_punch_order(twin=False):
    """Cells are written in the order the headings were written: the blocks of punch_all (one punch_* routine per kind of column)
    follow the order in which tidy_punch writes the heading blocks, each routine iterating the collection its heading block
    iterates."""
    import re
    PRINT = "src/phreeqcpp/print.cpp"; TIDY = "src/phreeqcpp/tidy.cpp"
    fa = A.find_function(PRINT, "Phreeqc::punch_all")
    r = U.new_unit("C05.punch_all.cells_follow_heading_order", PRINT, "Phreeqc::punch_all", fa, kind="structural")
    ft = A.find_function(TIDY, "Phreeqc::tidy_punch")
    heads = []
    for lp in A.walk(ft):
        if lp.get("kind") == "ForStmt" and lp["inner"][2] and "fpunchf_heading(" in text_of(TIDY, lp["inner"][-1]):
            m = re.search(r"current_selected_output->Get_(\w+)\(\)\.size\(\)", text_of(TIDY, lp["inner"][2]))
            if m and (not heads or heads[-1] != m.group(1)):
                heads.append(m.group(1))
    calls = []
    for x in A.walk(fa):
        if x.get("kind") == "CXXMemberCallExpr":
            nm = strip(x["inner"][0]).get("name", "")
            if nm.startswith("punch_") and nm not in ("punch_msg", "punch_flush", "punch_user_graph", "punch_identifiers", "punch_user_punch", "punch_all"):
                calls.append(nm)
    cells = []
    for nm in calls:
        fp = None
        for rel in (PRINT, "src/phreeqcpp/isotopes.cpp"):
            try:
                fp = A.find_function(rel, "Phreeqc::" + nm); break
            except Exception:
                continue
        if fp is None:
            r.add("%s.body_found" % nm, UNDECIDED, "syntactic", 0, ""); continue
        m = re.search(r"current_selected_output->Get_(\w+)\(\)\.size\(\)", text_of(rel, fp))
        cells.append(m.group(1) if m else "?" + nm)
    if twin and len(cells) > 2:
        cells[0], cells[1] = cells[1], cells[0]
    r.add("reach.blocks", DISCHARGED if len(heads) >= 8 and len(cells) >= 8 else UNDECIDED, "syntactic", 0, "headings %r cells %r" % (heads, cells), kind="vacuity")
    r.add("cell_blocks_in_heading_order", DISCHARGED if cells == heads else FAILED, "syntactic", 0, "heading blocks: %r; cell blocks (punch_all order): %r" % (heads, cells))
    r.assumptions += ["identifier columns (sim, state, ...) and USER_PUNCH come first / last in both by construction and are not compared", "within a block both sides iterate the same vector in index order (read from the loop heads)"]
    return r


def unit_row_end_signalled(twin=False):
    """Every routine that writes a data row of selected output (cells through fpunchf, then the newline) signals the end of the row to
    the value table (fpunchf_end_row -> IPhreeqc::EndRow): otherwise the file and string gain a line and the table does not."""
    r = U.new_unit("C05.rows.end_of_row_signalled_wherever_a_row_is_written", "src/phreeqcpp/inverse.cpp", "Phreeqc::punch_model", A.find_function("src/phreeqcpp/inverse.cpp", "Phreeqc::punch_model"), kind="structural")
    n = 0
    for rel, q in (("src/phreeqcpp/print.cpp", "Phreeqc::punch_all"), ("src/phreeqcpp/inverse.cpp", "Phreeqc::punch_model")):
        fn = A.find_function(rel, q)
        for lp in A.walk(fn):
            if lp.get("kind") != "ForStmt" or "SelectedOutput_map.end()" not in (text_of(rel, lp["inner"][2]) if lp["inner"][2] else ""):
                continue
            stmts = [text_of(rel, x) for x in lp["inner"][-1].get("inner", [])]
            nl = [i for i, t in enumerate(stmts) if 'punch_msg("\\n")' in t]
            if not nl:
                continue
            n += 1
            er = [i for i, t in enumerate(stmts) if t.startswith("fpunchf_end_row(")]
            ok = bool(er) and er[-1] > nl[-1] and not (twin and n == 1)
            r.add("%s.newline_of_the_row_followed_by_fpunchf_end_row" % q.split("::")[-1], DISCHARGED if ok else FAILED, "syntactic", 0,
                  "row loop ends with: %r" % (stmts[-4:],))
    r.add("reach.row_writers", DISCHARGED if n >= 2 else UNDECIDED, "syntactic", 0, "%d" % n, kind="vacuity")
    r.assumptions += ["row writers are the per-SELECTED_OUTPUT loops that emit the newline themselves (punch_all, punch_model)", "text anchors"]
    return r


def unit_sections_counts(twin=False):
    """per section of a selected-output definition (-totals, -molalities, -activities, -equilibrium_phases, -saturation_indices, -gases,
    -kinetic_reactants, -solid_solutions, -isotopes, -calculate_values): tidy_punch emits the same number of headings for one list item as
    the punch_* routine emits cells for it, and that number does not depend on the path taken (an item that is not found still gets its
    heading and its cell), so heading i stands over column i in every row"""
    TIDY = "src/phreeqcpp/tidy.cpp"; PRINT = "src/phreeqcpp/print.cpp"; ISOT = "src/phreeqcpp/isotopes.cpp"
    fn = A.find_function(TIDY, "Phreeqc::tidy_punch")
    r = U.new_unit("C05.sections.headings_per_item==cells_per_item_on_every_path", TIDY, "Phreeqc::tidy_punch", fn)
    getters = ["Get_totals", "Get_molalities", "Get_activities", "Get_pure_phases", "Get_si", "Get_gases", "Get_kinetics", "Get_isotopes", "Get_calculate_values"]
    cellfn = {"Get_totals": (PRINT, "Phreeqc::punch_totals"), "Get_molalities": (PRINT, "Phreeqc::punch_molalities"), "Get_activities": (PRINT, "Phreeqc::punch_activities"),
              "Get_pure_phases": (PRINT, "Phreeqc::punch_pp_assemblage"), "Get_si": (PRINT, "Phreeqc::punch_saturation_indices"), "Get_gases": (PRINT, "Phreeqc::punch_gas_phase"),
              "Get_kinetics": (PRINT, "Phreeqc::punch_kinetics"), "Get_s_s": (PRINT, "Phreeqc::punch_ss_assemblage"), "Get_isotopes": (ISOT, "Phreeqc::punch_isotopes"),
              "Get_calculate_values": (ISOT, "Phreeqc::punch_calculate_values")}
    names = []
    def counts(rel, q, G, callee):
        del names[:]
        f = A.find_function(rel, q)
        loops = [x for x in A.walk(f) if x.get("kind") == "ForStmt"]
        ks = [k for k, lp in enumerate(loops) if lp["inner"][2] is not None and (G + "().size()") in text_of(rel, lp["inner"][2]) and (callee + "(") in text_of(rel, lp["inner"][-1])]
        out = set(); n = 0
        for k in ks:
            c = stop_on_error_msg(ctx(functional=()))
            try:
                fx, ex, its, info = U.run_loop_isolated(rel, q, k, ctx=c, inner_modes={"*": "iter"})
            except Undecided as e:
                return None, str(e)
            for s in its:
                if s.status not in ("run", "cont"):
                    continue
                n += 1
                evs_ = list(U.iter_events(s))
                out.add(sum(1 for e in evs_ if e.name.split("::")[-1] == callee))
                if callee == "fpunchf":
                    fmts = {id(e.result): repr(e.args[0]) for e in evs_ if e.name.split("::")[-1] == "sformatf" and e.args}
                    names.append(tuple(fmts.get(id(e.args[0]), repr(e.args[0])[:40]) for e in evs_ if e.name.split("::")[-1] == "fpunchf"))
        return (out if n else None), "%d loops, %d paths" % (len(ks), n)
    done = 0
    for G in getters:
        hs, why1 = counts(TIDY, "Phreeqc::tidy_punch", G, "fpunchf_heading")
        rel, q = cellfn[G]
        try:
            cs, why2 = counts(rel, q, G, "fpunchf")
        except Undecided as e:
            cs, why2 = None, str(e)
        sec = G[4:]
        if hs is None or cs is None:
            r.add("section[%s].loops_found" % sec, UNDECIDED, "symex", 0, "%s / %s" % (why1, why2)); continue
        done += 1
        r.add("section[%s].one_heading_count_on_every_path" % sec, DISCHARGED if len(hs) == 1 else FAILED, "trace", 0, "heading counts per item over the paths: %s" % sorted(hs))
        r.add("section[%s].one_cell_count_on_every_path" % sec, DISCHARGED if len(cs) == 1 else FAILED, "trace", 0, "cell counts per item over the paths: %s" % sorted(cs))
        same = len(hs) == 1 and hs == cs
        if twin and sec == "si":
            same = False
        cellnames = list(names)
        distinct = all(len(set(t)) == len(t) for t in cellnames)
        samelist = len(set(cellnames)) <= 1
        r.add("section[%s].cells_of_one_item_go_to_different_columns" % sec, DISCHARGED if distinct else FAILED, "trace", 0, repr(sorted(set(cellnames)))[:200])
        r.add("section[%s].same_column_names_on_every_path(high_precision_or_not)" % sec, DISCHARGED if samelist else FAILED, "trace", 0, repr(sorted(set(cellnames)))[:200])
        r.add("section[%s].headings_per_item==cells_per_item" % sec, DISCHARGED if same else FAILED, "trace", 0, "%s headings, %s cells" % (sorted(hs), sorted(cs)))
    r.add("reach.sections", DISCHARGED if done >= 8 else UNDECIDED, "symex", 0, str(done), kind="vacuity")
    r.assumptions += ["-solid_solutions is not decided here: punch_ss_assemblage emits its cell inside a nested search (found / not found), which needs a loop invariant this unit does not state", "the block headings written outside the item loops (e.g. pressure / total mol / volume of -gases) are paired by C05.punch_all.cells_follow_heading_order"]
    return r
