"""C05 (third wave) - Phreeqc::tidy_punch and its call site in tidy_model.  Shared by props/c05_ext3_cells.py: the symbolic run of
tidy_punch (one arbitrary iteration of each of its loops, branches joined) and the readers for heading names."""
from props.c14_ext_lib import *

TD = "src/phreeqcpp/tidy.cpp"
PR = "src/phreeqcpp/print.cpp"
ISO = "src/phreeqcpp/isotopes.cpp"
LISTS = ("totals", "molalities", "activities", "pure_phases", "si", "gases", "kinetics", "s_s", "isotopes", "calculate_values")
BOUND = ("totals", "molalities", "activities", "pure_phases", "si", "gases")          # lists whose pointer is resolved in tidy_punch
# identifier columns: SELECTED_OUTPUT option (manual) -> (getter of class SelectedOutput, heading text).  SPECIFICATION, in the manual's
# column order (-simulation -state -solution -distance -time -step -pH -pe -reaction -temperature -alkalinity -ionic_strength -water
# -charge_balance -percent_error)
IDENT = [("Get_sim", "sim"), ("Get_state", "state"), ("Get_soln", "soln"), ("Get_dist", "dist_x"), ("Get_time", "time"), ("Get_step", "step"),
         ("Get_ph", "pH"), ("Get_pe", "pe"), ("Get_rxn", "reaction"), ("Get_temp", "temp"), ("Get_alk", "Alk"), ("Get_mu", "mu"),
         ("Get_water", "mass_H2O"), ("Get_charge_balance", "charge"), ("Get_percent_error", "pct_err")]
GETTERS = tuple("Get_" + k for k in LISTS) + ("Get_headings",)
FLAGS = tuple(g for g, _h in IDENT) + ("Get_high_precision", "Get_user_punch")
FUNCTIONAL = GETTERS + FLAGS + ("begin", "end", "size", "Get_new_def", "Get_punch_ostream", "Get_n_user", "find", "c_str")
UNITS = []
_MEMO = {}


def unit(uid):
    def deco(f):
        UNITS.append((uid, f))
        return f
    return deco


def last_runs(stash):
    """one (node, entry state, iteration states) per loop: the LAST iteration-contract run (the one made with everything the enclosing
    loop writes arbitrary at entry)"""
    out = {}
    for n, e0, its in stash.runs:
        out[id(n)] = (n, e0, its)
    return list(out.values())


def contains(outer, inner):
    return inner is not outer and any(x is inner for x in A.walk(outer))


def run_tidy_punch():
    if "tp" not in _MEMO:
        stash = LoopStash()
        c = mk_ctx(functional=FUNCTIONAL, loop=stash, log_stores=True)
        c.merge_ifs = True
        fn, ex, fin = run(TD, "Phreeqc::tidy_punch", c)
        runs = last_runs(stash)
        top = [x for x in runs if not any(contains(y[0], x[0]) for y in runs)]
        def has(x, pred):
            return any(pred(e) for s in x[2] for e in U.iter_events(s))
        heads = [x for x in top if has(x, lambda e: sh(e) == "fpunchf_heading")]
        rebind = [x for x in top if x not in heads and any(contains(x[0], y[0]) and has(y, lambda e: e.name == "store" and e.args[0].op == "str" and e.args[0].args[0] == "second") for y in runs)]
        if len(heads) != 1 or len(rebind) != 1:
            raise Undecided("tidy_punch: one resolving pass and one heading pass over the definitions expected, found %d / %d" % (len(rebind), len(heads)))
        _MEMO["tp"] = dict(fn=fn, ex=ex, fin=fin, runs=runs, rebind=rebind[0], heads=heads[0])
    return _MEMO["tp"]


def list_of(t):
    """'totals' when the term reads an element of the vector returned by Get_totals(<definition>) ... ; None otherwise"""
    if not isinstance(t, tm.T):
        return None
    for x in [t] + list(tm.subterms(t)):
        if x.op == "app" and isinstance(x.args[0], str) and x.args[0].startswith("call:Get_") and x.args[0][9:] in LISTS + ("headings",):
            return x.args[0][9:]
    return None


def elem_index(t):
    """the index term i of `<vector data> + i` inside a term that reads element i of a std::vector (first such), else None"""
    for x in [t] + list(tm.subterms(t)):
        if x.op == "+" and len(x.args) == 2 and isinstance(x.args[0], tm.T) and x.args[0].op == "select" and "#vdata" in repr(x.args[0].args[0])[:40]:
            return x.args[1]
    return None


def str_lits(t):
    return sorted({x.args[0] for x in tm.subterms(t) if x.op == "str"}) if isinstance(t, tm.T) else []


def unq(lit):
    """text of a C string literal term's payload ('"m_"' -> 'm_')"""
    return lit[1:-1] if isinstance(lit, str) and len(lit) >= 2 and lit[0] == '"' and lit[-1] == '"' else lit


def string_content(evs, upto, obj):
    """content of the local std::string `obj` (modelled by its initial literal) when event number `upto` is reached: the pieces
    [literal | term] put together by the operator= / assign / append / operator+= calls on it so far.  None when it cannot be told."""
    if obj.op != "str":
        plus = [e for e in evs[:upto] if e.result is obj and sh(e) == "operator+"]
        if plus:
            out = []
            for a in ([plus[-1].recv] if isinstance(plus[-1].recv, tm.T) and plus[-1].recv is not THIS else []) + list(plus[-1].args):
                if isinstance(a, tm.T) and a.op == "app" and a.args[0] == "tmpaddr" and len(a.args) == 2 and isinstance(a.args[1], tm.T) and a.args[1].op == "str":
                    a = a.args[1]
                sub = string_content(evs, upto, a) if isinstance(a, tm.T) and a.op != "str" else [unq(a.args[0])]
                if sub is None:
                    return None
                out += sub
            return out
        if obj.op == "sym" and str(obj.args[0]).startswith(("ret_", "retref_")):
            return None          # a string made by a call this reader does not know
        return [obj]
    cur = [unq(obj.args[0])]
    for e in evs[:upto]:
        if e.recv is not obj:
            continue
        k = sh(e)
        if k in ("operator=", "assign"):
            cur = []
        elif k not in ("append", "operator+=", "push_back"):
            if k in ("c_str", "size", "length", "empty", "data"):
                continue
            return None
        a = e.args[0] if e.args else None
        if a is None:
            return None
        cur.append(unq(a.args[0]) if a.op == "str" else a)
    return cur


def heading_pieces(evs, k):
    """pieces of the text of heading event number k of evs: fpunchf_heading(sformatf("%*s\\t", l, X)) -> content of X;
    fpunchf_heading("literal") -> [literal]"""
    e = evs[k]
    a = e.args[0]
    if a.op == "str":
        return [unq(a.args[0])]
    j = next((i for i in range(k - 1, -1, -1) if evs[i].result is a and sh(evs[i]) == "sformatf"), None)
    if j is None:
        return None
    f = evs[j]
    if not (f.args and f.args[0].op == "str" and unq(f.args[0].args[0]).replace("\\t", "").strip() in ("%*s", "%s")):
        return None
    x = f.args[-1]
    if x.op == "str":
        return [unq(x.args[0])]
    if x.op == "app" and x.args[0] in ("c_str", "call:c_str") and isinstance(x.args[1], tm.T):
        return string_content(evs, j, x.args[1])
    return [x]


def DEF():
    return tm.app("fld:second", (tm.app("mnode", (tm.sym("iter_so_it", "P"),), "P"),), "P")


def the_def(ex, s):
    """the definition visited by the pass iteration s: the value stored into current_selected_output at the top of the body"""
    st = [e for e in U.iter_events(s) if e.name == "store" and e.recv is THIS and e.args[0].op == "str" and e.args[0].args[0] == "current_selected_output"]
    if not st:
        raise Undecided("tidy_punch: the pass does not set current_selected_output")
    return st[0].args[1]


def entry_val(t):
    """is t a read of a memory component as it was on entry of the iteration / function (no store on top)?"""
    return isinstance(t, tm.T) and t.op == "select" and t.args[0].op == "sym"


@unit("C05.tidy_punch.every_definition_resolved_on_every_call_and_heading_row_reaches_both_sinks")
def unit_tidy_punch_sinks(twin=False):
    """Phreeqc::tidy_punch.  (a) The pass that resolves the listed names to master / species / phase pointers visits EVERY definition of
    SelectedOutput_map and, for a definition that exists, reaches each of the six resolving loops whatever the definition's own flags say
    (no `continue` keyed on new_def or anything else); tidy_model calls tidy_punch exactly when there are no input errors and
    (new_punch or new_model).  (b) For a definition flagged new the heading row is written with BOTH sink switches on - pr.punch = TRUE
    and phrq_io->Set_punch_on(true) before the first heading - and both are put back after the last heading on every path that ends the
    visit: pr.punch gets the value it had on entry, punch_on the value that follows from it.  A definition not flagged new writes
    nothing and touches neither switch."""
    T = run_tidy_punch()
    fn, ex = T["fn"], T["ex"]
    r = U.new_unit("C05.tidy_punch.every_definition_resolved_on_every_call_and_heading_row_reaches_both_sinks", TD, "Phreeqc::tidy_punch", fn)
    SOM = fmap("SelectedOutput_map")
    n1, e1, it1 = T["rebind"]
    n2, e2, it2 = T["heads"]
    for tag, (n_, e_) in (("resolve", (n1, e1)), ("headings", (n2, e2))):
        h = loop_head(ex, n_, e_, sort="P")
        ok(r, "%s.every_definition_of_the_map_visited" % tag, all(walks_whole_set(h, SOM, e_.pc)), "symex+z3", "%r | %r | %r" % (h["first"], h["cond"], h["next"]))
    # ---- (a) no definition skipped
    inner = {}
    for n_, e0_, its_ in T["runs"]:
        if not contains(n1, n_):
            continue
        for s in its_:
            for e in U.iter_events(s):
                if e.name == "store" and e.args[0].op == "str" and e.args[0].args[0] == "second" and list_of(e.recv) in BOUND:
                    inner[id(n_)] = list_of(e.recv)
    live1 = [s for s in it1 if sat(s.pc)]
    for lst in BOUND:
        nodes = [k for k, v in inner.items() if v == lst]
        if len(nodes) != 1:
            ok(r, "resolve.%s.loop_found" % lst, False, "symex", "%d loops store the pointer of a -%s item" % (len(nodes), lst), undecided=not nodes); continue
        skipping = [s for s in live1 if not any(e.name == "loop_passed" and id(e.node) == nodes[0] for e in U.iter_events(s))]
        # a visit that does not get to the resolving loop of this list is the visit of a definition that does not exist - and of nothing else
        g = True
        for s in skipping:
            d = the_def(ex, s)
            g = g and proved(s.pc, tm.eq(d, tm.NULL) if not (twin and lst == "si") else tm.FALSE)
        ok(r, "resolve.%s.reached_for_every_existing_definition(no_skip_on_new_def_or_any_other_flag)" % lst, g and len(skipping) < len(live1), "symex+z3",
           "%d of %d visit paths do not reach the loop: %s" % (len(skipping), len(live1), "; ".join(repr(s.pc[-2:])[:150] for s in skipping)))
    ok(r, "reach.resolve_pass", len(live1) >= 1 and len(inner) >= 6, "symex", "%d states, %d resolving loops" % (len(live1), len(inner)), kind="vacuity", undecided=True)
    # call site in tidy_model
    _call_site(r, twin)
    # ---- (b) both sinks forced on for the heading row and put back
    PRO = fmap("pr")
    seen = set()
    for j, s in enumerate([s for s in it2 if sat(s.pc)]):
        evs = U.iter_events(s)
        heads = [i for i, e in enumerate(evs) if sh(e) == "fpunchf_heading"]
        pw = [i for i, e in enumerate(evs) if e.name == "store" and e.recv is PRO and e.args[0].op == "str" and e.args[0].args[0] == "punch"]
        po = [i for i, e in enumerate(evs) if sh(e) == "Set_punch_on"]
        d = the_def(ex, s)
        isnew = tm.and_(tm.not_(tm.eq(d, tm.NULL)), tm.app("call:Get_new_def", (d,), "B"))
        for hy, new in cases(s.pc, isnew):
            if not new:
                tg = "not_new" + ("" if "old" not in seen else "#%d" % j); seen.add("old")
                ok(r, tg + ".no_heading_written_and_neither_switch_touched", not heads and not pw and not po, "trace", "%d headings, %d pr.punch stores, %d Set_punch_on" % (len(heads), len(pw), len(po)), kind="frame")
                continue
            tg = "new" + ("" if "new" not in seen else "#%d" % j); seen.add("new")
            if not heads:
                ok(r, tg + ".heading_row_written", False, "trace", "a definition flagged new ends its visit (%s) without a heading" % s.status); continue
            first, last = heads[0], heads[-1]
            on_pw = [i for i in pw if i < first]
            on_po = [i for i in po if i < first]
            g1 = bool(on_pw) and tm.isnum(evs[on_pw[-1]].args[1]) and evs[on_pw[-1]].args[1].args[0] == 1 and proved(hy, evs[on_pw[-1]].guard) and not [i for i in pw if first < i < last]
            ok(r, tg + ".pr.punch_forced_on_before_the_first_heading_and_kept_on_for_the_row", g1, "trace+z3", repr([evs[i].args[1] for i in pw])[:200])
            want_on = tm.TRUE if not twin else tm.FALSE
            g2 = bool(on_po) and evs[on_po[-1]].args[0] is want_on and proved(hy, evs[on_po[-1]].guard) and not [i for i in po if first < i < last]
            ok(r, tg + ".io_layer_punch_on_forced_on_before_the_first_heading_and_kept_on_for_the_row", g2, "trace+z3", repr([evs[i].args[0] for i in po])[:200])
            # put back: last store / call after the last heading
            off_pw = [i for i in pw if i > last]
            off_po = [i for i in po if i > last]
            v_back = evs[off_pw[-1]].args[1] if off_pw else None
            g3 = v_back is not None and entry_val(v_back) and ".punch:I" in repr(v_back.args[0]) and v_back.args[1][0] is PRO and proved(hy, evs[off_pw[-1]].guard)
            ok(r, tg + ".pr.punch_put_back_to_its_entry_value_after_the_last_heading", g3, "trace+z3", repr(v_back)[:160])
            g4 = False
            if off_po and g3:
                a = tm.to_bool(evs[off_po[-1]].args[0])
                rng = tm.or_(tm.eq(v_back, tm.num(0, "I")), tm.eq(v_back, tm.num(1, "I")))
                g4 = proved(hy, evs[off_po[-1]].guard) and proved(list(hy) + [rng], tm.eq(a, tm.not_(tm.eq(v_back, tm.num(0, "I")))))
            ok(r, tg + ".io_layer_punch_on_put_back_to_what_follows_from_pr.punch_after_the_last_heading", g4, "trace+z3", repr([evs[i].args[0] for i in off_po])[:200])
            ok(r, tg + ".visit_ends_normally_after_the_row(no_early_exit_with_the_switches_forced)", s.status in ("run", "cont"), "symex", s.status)
    # any other way out of a visit (break / return inside the body) must not leave the switches forced
    stash_states = [s for n_, e0_, its_ in T["runs"] if n_ is n2 for s in its_]
    bad = [s for s in stash_states if s.status in ("brk", "ret") and any(sh(e) == "Set_punch_on" or (e.name == "store" and e.recv is PRO) for e in U.iter_events(s))]
    ok(r, "headings.no_exit_from_the_pass_with_a_switch_forced", not bad, "symex", "%d such states" % len(bad), kind="frame")
    ok(r, "reach.heading_pass_cases", seen == {"old", "new"}, "symex", sorted(seen), kind="vacuity", undecided=True)
    r.assumptions += ["SelectedOutput getters are functional; the loops are run as one arbitrary iteration each (iteration contract) with joined branches",
                      "pr.punch holds TRUE (1) or FALSE (0) (hypothesis of the punch_on obligation)",
                      "which lookup fits which list and the per-definition stream / USER_PUNCH binding are C05.tidy_punch.bindings_and_headings_rebuilt... / C05.rows.each_definition...",
                      "kinetic reactants, solid-solution components, isotopes and calculate_values are resolved by name when a row is written (punch_kinetics / punch_ss_assemblage / ...), not in tidy_punch"]
    return r


def _call_site(r, twin):
    q = "Phreeqc::tidy_model"
    fm = A.find_function(TD, q)
    body = A.body_of(fm).get("inner", [])
    def calls(x):
        return any(y.get("kind") == "CXXMemberCallExpr" and strip(y["inner"][0]).get("name") == "tidy_punch" for y in A.walk(x))
    sites = [x for x in body if calls(x)]
    if len(sites) != 1:
        ok(r, "tidy_model.tidy_punch_called_from_one_top_level_statement", False, "ast", "%d statements" % len(sites), undecided=not sites); return
    c = ctx(functional=("get_input_errors",))
    f, ex, fin, info = region(TD, q, sites, c)
    np_ = tm.not_(tm.eq(tm.select(tm.sym("H0.new_punch:I", ("A", "P", "I")), THIS), tm.num(0, "I")))
    nm_ = tm.not_(tm.eq(tm.select(tm.sym("H0.new_model:I", ("A", "P", "I")), THIS), tm.num(0, "I")))
    got = set()
    for j, s in enumerate(live(fin, ("run", "ret"))):
        errs = [e.result for e in s.events if sh(e) == "get_input_errors"]
        called = any(sh(e) == "tidy_punch" for e in s.events)
        noerr = tm.and_(*[tm.eq(e, tm.num(0, "I")) for e in errs]) if errs else tm.TRUE
        want = tm.and_(noerr, tm.or_(np_, nm_) if not twin else nm_)
        got.add(called)
        ok(r, "tidy_model.tidy_punch_%s[path %d]" % ("called_only_without_errors_and_with_new_punch_or_new_model" if called else "skipped_only_with_errors_or_with_neither_flag", j),
           proved(s.pc, want if called else tm.not_(want)), "symex+z3", repr(s.pc)[:200])
    ok(r, "reach.tidy_model_call_site", got == {True, False}, "symex", sorted(got), kind="vacuity", undecided=True)
