"""C15 — invariance under irrelevant input changes (one clause: change of concentration units).
Statement contract on the per-component loop body of Phreeqc::convert_units, instantiated for every concentration unit of the
manual: the stored total is input x prefix x (1/density if per litre) / (gfw if a mass unit), so descriptions that denote the same
amount give equal totals.  Water-mass scaling, renumbering, reordering, redefinition and MIX relations (two-run properties) are NOT decided."""
import time
from vf import core
from vf.core import Undecided, FAILED, DISCHARGED, UNDECIDED
from vf.astvc import ast as A, terms as tm, unit as U, backends as B, stl as STLM
from vf.astvc import symex as SX

PID = "C15"
PREP = "src/phreeqcpp/prep.cpp"
PREFIX = {"": 1, "m": "1e-3", "u": "1e-6"}
BASES = {"Mol": "mol", "g": "mass", "eq": "mol"}
DENOMS = ["kgw", "kgs", "l"]


def run_body(comp_units, soln_units):
    ctx = SX.Ctx(); ctx.stl = STLM.STL(SX); ctx.stl.map_like.add("cxxNameDouble"); ctx.stl.check_bounds = False
    ctx.enum_values.update(A.enum_values_compiled("Phreeqc.h", ["TRUE", "FALSE", "OK", "ERROR", "CONTINUE"]))
    class AllPure(set):
        def __contains__(self, x): return True
    ctx.pure = AllPure()
    ctx.functional.update({"Get_input_conc", "Get_gfw", "Get_density", "Get_totals", "master_bsearch", "Get_as", "Get_comps"})
    def get_units(ex, st, n, name, recv, args):
        is_soln = recv is tm.sym("L_initial_data_ptr", "P")
        return [(st, tm.strc(soln_units if is_soln else comp_units))]
    ctx.handlers["cxxISolutionComp::Get_units"] = get_units
    ctx.handlers["cxxISolution::Get_units"] = get_units
    ctx.handlers["cxxISolutionComp::Get_description"] = lambda ex, st, n, name, recv, args: [(st, tm.strc("Na"))]
    def c_str(ex, st, n, name, recv, args):
        return [(st, recv)] if isinstance(recv, tm.T) and recv.op == "str" else None
    ctx.handlers["c_str"] = c_str
    def strcmp(ex, st, n, name, recv, args):
        if all(a.op == "str" for a in args[:2]):
            x, y = [a.args[0].strip('"') for a in args[:2]]
            return [(st, tm.num(0 if x == y else (1 if x > y else -1), "I"))]
        return None
    ctx.handlers["strcmp"] = strcmp
    def strstr(ex, st, n, name, recv, args):
        if all(a.op == "str" for a in args[:2]):
            x, y = [a.args[0].strip('"') for a in args[:2]]
            return [(st, tm.num(1, "P") if y in x else tm.NULL)]
        return None
    ctx.handlers["strstr"] = strstr
    def str_index(ex, st, n, name, arg_nodes):
        out = []
        for s1, v in ex.ev(arg_nodes[0], st):
            for s2, i in ex.ev(arg_nodes[1], s1):
                if v.op == "str" and tm.isnum(i):
                    txt = v.args[0].strip('"')
                    k = int(i.args[0])
                    out.append((s2, ("value", tm.num(ord(txt[k]) if k < len(txt) else 0, "I"))))
                else:
                    raise Undecided("symbolic string index")
        return out
    ctx.handlers["operator[]@std::basic_string<char>"] = lambda ex, st, n, name, an: [(s, l[1]) for s, l in str_index(ex, st, n, name, an)]
    ctx.handlers["operator[]@const std::basic_string<char>"] = ctx.handlers["operator[]@std::basic_string<char>"]
    fn, ex, iters, info = U.run_loop_isolated(PREP, "Phreeqc::convert_units", 0, ctx=ctx)
    return fn, ex, iters, info, ctx


def spec_total(prefix, base, denom, conc, gfw, rho):
    v = conc * tm.num(tm.Fraction(PREFIX[prefix])) if prefix else conc
    if denom == "l":
        v = v * (tm.num(1) / rho)
    if BASES[base] == "mass":
        v = v / gfw
    return v


def unit_units(twin=False):
    fn0 = A.find_function(PREP, "Phreeqc::convert_units")
    r = U.new_unit("C15.convert_units.unit_table", PREP, "Phreeqc::convert_units", fn0)
    import fractions
    tm.Fraction = fractions.Fraction
    n = 0
    specs = {}
    for prefix in PREFIX:
        for base in BASES:
            for denom in DENOMS:
                u = "%s%s/%s" % (prefix, base, denom)
                fn, ex, iters, info, ctx = run_body(u, u)
                found = False
                for s in iters:
                    if s.status not in ("run", "cont", "brk"):
                        continue
                    comp = None
                    vk = ("m2", "#mval", "R", "S")
                    if vk not in s.heap:
                        continue
                    # paths with a usable gfw and a positive concentration that reach the final store
                    tot = tm.app("call:Get_totals", (tm.sym("L_solution_ptr", "P"),), "P")
                    val = tm.select(s.heap[vk], tot, tm.strc("Na"))
                    if tm.isnum(val):
                        continue        # the path that only stored the initial 0.0
                    concs = [t for t in tm.subterms(val) if t.op == "app" and t.args[0] == "call:Get_input_conc"]
                    gfws = [t for t in tm.subterms(tm.and_(*s.pc)) if t.op == "app" and t.args[0] == "call:Get_gfw"] + [t for t in tm.subterms(val) if t.op == "app" and t.args[0] == "call:Get_gfw"]
                    if not concs:
                        continue
                    if not gfws:
                        continue
                    conc, gfw = concs[0], gfws[0]
                    # only the path on which the component's own gfw is already positive (no look-up needed)
                    if B.z3_prove(list(s.pc), tm.lt(tm.num(0), gfw))[0] != "proved":
                        continue
                    rho = tm.app("call:Get_density", (tm.sym("L_solution_ptr", "P"),), "R")
                    spec = spec_total(prefix, base, denom, conc, gfw, rho)
                    if twin and prefix == "m":
                        spec = spec * tm.num(10)
                    specs[u] = (spec, conc, gfw, rho)
                    found = True
                    n += 1
                    U.discharge_eq_real(r, "unit[%s].total==conc*prefix%s%s" % (u, "*(1/density)" if denom == "l" else "", "/gfw" if BASES[base] == "mass" else ""), list(s.pc), val, spec)
                    break
                if not found:
                    r.add("unit[%s].reach" % u, UNDECIDED, "symex", 0, "no path stores a converted total for this unit", kind="vacuity")
    # lemma: descriptions of the same amount give the same total: 1 mMol = 1000 uMol = gfw mg (per kgw)
    c, g, rho = tm.sym("c", "R"), tm.sym("gfw", "R"), tm.sym("rho", "R")
    a = spec_total("m", "Mol", "kgw", c, g, rho)
    b = spec_total("u", "Mol", "kgw", c * tm.num(1000), g, rho)
    d = spec_total("m", "g", "kgw", c * g, g, rho)
    U.discharge_eq_real(r, "lemma.1mMol==1000uMol", [], a, b, kind="lemma")
    U.discharge_eq_real(r, "lemma.1mMol==gfw_mg", [], a, d, kind="lemma")
    r.add("reach.units", DISCHARGED if n >= 20 else UNDECIDED, "symex", 0, "%d of 27 unit strings reached" % n, kind="vacuity")
    r.assumptions += ["unit strings as normalised by check_units ('Mol', 'g', 'eq' with prefix m/u and /kgw, /kgs, /l); the component's gfw is already known (> 0)",
                      "the trailing loops that rescale by the mass of water are not under this contract", "doubles as reals"]
    return r


def units(tier):
    def g():
        r = unit_units()
        if not any(o.status == FAILED for o in r.obligations):
            U.must_fail_twin(r, "vacuity.must_fail_twin", lambda: unit_units(twin=True))
        return r
    us = [("C15.convert_units.unit_table", g)]
    from props import c15_solution as SO
    from props.common import wrap as _wrap
    _wrap(us, "C15.Solution.add.amounts_add_state_variables_average", SO.unit_solution_add)
    _wrap(us, "C15.Solution.multiply.scales_amounts_only", SO.unit_solution_multiply)
    from props import c15_more as MO
    _wrap(us, "C15.compute_gfw.cache_coherent_with_element_weights", MO.unit_gfw_cache)
    _wrap(us, "C15.cxxMix.Add.accumulates_repeated_numbers", MO.unit_mix_add)
    _wrap(us, "C15.tidy_solutions.unnumbered_rows_get_unused_numbers", MO.unit_tidy_solutions_numbering)
    from props import c15_readers as RD
    _wrap(us, "C15.read_delta_h_only.enthalpy_stored_in_kJ_for_every_unit", RD.unit_delta_h)
    return us


def run(tier, seed, only, jobs):
    t0 = time.time()
    U.TIER.update(tier=tier, seed=seed)
    us = units(tier)
    from props.common import ext_units as _ext
    us += _ext("C15")
    if only:
        us = [x for x in us if only in x[0]]
    res = core.run_units(us, jobs=jobs)
    return core.finish(PID, tier, seed, "proof", res, t0,
        checker_cmd="astvc: clang AST of prep.cpp -> statement contract on the component loop of convert_units, instantiated per unit string -> sympy.cancel / z3 5.1",
        trusted_base=["clang 14 AST", "astvc (vf/astvc)", "sympy 1.14", "z3 5.1"],
        assumptions=["doubles as reals"],
        explanation="Only the unit-change clause. Two-run metamorphic relations over the whole engine are not decided.")
