"""C19: (a) user-defined binary interaction parameters are symmetric (k_ij = k_ji): GAS_BINARY_PARAMETERS stores each value under
both orderings of the pair and the look-up uses the pair it is asked for; (b) for a fixed-pressure gas phase the equation of state
is evaluated at the gas phase's own pressure and the solution temperature."""
from props.common import *
from vf.core import FAILED, DISCHARGED, UNDECIDED

READ = "src/phreeqcpp/read.cpp"
GASES = "src/phreeqcpp/gases.cpp"
MODEL = "src/phreeqcpp/model.cpp"


def unit_binary_symmetric(twin=False):
    q = "Phreeqc::read_gas_binary_parameters"
    fn = A.find_function(READ, q)
    r = U.new_unit("C19.gas_binary_parameters.k_ij==k_ji", READ, q, fn)
    stores = []
    for x in A.walk(fn):
        if x.get("kind") == "BinaryOperator" and x.get("opcode") == "=":
            t = text_of(READ, x)
            if t.startswith("gas_binary_parameters[std::make_pair("):
                inside = t[len("gas_binary_parameters[std::make_pair("):]
                pair, rhs = inside.split(")]=")
                stores.append((tuple(pair.split(",")), rhs))
    keys = sorted(k for k, _ in stores)
    vals = {v for _, v in stores}
    ok = len(stores) == 2 and len(keys[0]) == 2 and keys[0] == tuple(reversed(keys[1])) and keys[0] != keys[1] and len(vals) == 1
    if twin:
        ok = ok and keys[0] == keys[1]
    r.add("read.value_stored_under_both_orderings_of_the_pair", DISCHARGED if ok else FAILED, "syntactic", 0, repr(stores), kind="post")
    blocks = [x for x in A.walk(fn) if x.get("kind") == "IfStmt" and text_of(READ, x["inner"][0]) == "!error"]
    same_block = len(blocks) == 1 and sum(1 for y in A.walk(blocks[0]["inner"][1]) if y.get("kind") == "BinaryOperator" and text_of(READ, y).startswith("gas_binary_parameters[")) == 2
    r.add("read.both_stores_under_the_same_guard", DISCHARGED if same_block else FAILED, "syntactic", 0, "", kind="structural")
    # look-up: pair (name1, name2) in the order asked; f = 1 - k
    fl = A.find_function(GASES, "Phreeqc::calc_gas_binary_parameter")
    t = text_of(GASES, fl)
    r.add("lookup.uses_pair(name1,name2)", DISCHARGED if "std::pair<std::string,std::string>p(name1,name2);" in t and "gas_binary_parameters.find(p)" in t else FAILED, "syntactic", 0, "", kind="post")
    r.add("lookup.f==1-k", DISCHARGED if "f=(1.0-gas_pair_it->second);" in t else FAILED, "syntactic", 0, "", kind="post")
    r.proved_kind = "structural"
    r.assumptions += ["token scanning of the two gas names and the value is not under this contract", "built-in defaults (H2O-CO2 etc.) are one-sided by design of the EOS mixing rule for water"]
    return r


def unit_fixed_pressure_call(twin=False):
    q = "Phreeqc::calc_gas_pressures"
    fn = A.find_function(MODEL, q)
    r = U.new_unit("C19.calc_gas_pressures.EOS_at_gas_phase_pressure", MODEL, q, fn)
    ifs = [x for x in A.body_of(fn)["inner"] if x.get("kind") == "IfStmt" and len(x["inner"]) >= 2 and "calc_PR(" in text_of(MODEL, x["inner"][1])]     # the split that evaluates the EOS, whatever its condition
    if len(ifs) != 1:
        raise Undecided("fixed-pressure / fixed-volume split of calc_gas_pressures not found")
    c = ctx(functional=("Get_type", "Get_total_p", "Get_total_moles", "Get_volume", "Get_v_m"))
    ev = A.enum_values_compiled("Phreeqc.h", ["cxxGasPhase::GP_PRESSURE", "cxxGasPhase::GP_VOLUME"])
    c.enum_values.update({k.split("::")[-1]: v for k, v in ev.items()})
    f, ex, fin, info = region(MODEL, q, [ifs[0]], c)
    np_ = nv = 0
    for s in live(fin, ("run", "ret")):
        calls = [e for e in s.events if e.name.split("::")[-1] == "calc_PR"]
        if not calls:
            continue
        e = calls[-1]
        ty = [x.result for x in s.events if x.name.endswith("Get_type")]
        fixed_p = bool(ty) and B.z3_prove(list(s.pc), tm.eq(ty[0], tm.num(ev["cxxGasPhase::GP_PRESSURE"], "I")))[0] == "proved"
        tk = fld0(ex, s, "tk_x", "R")
        if fixed_p:
            np_ += 1
            tp = [x for x in s.events if x.name.endswith("Get_total_p")]
            gp = local(info, s, "gas_phase_ptr")
            okp = bool(tp) and e.args[1] is tp[-1].result and tp[-1].recv is gp
            if twin:
                okp = e.args[1] is fld0(ex, s, "patm_x", "R")
            r.add("fixed_pressure.P_is_the_gas_phase's_total_pressure", DISCHARGED if okp else FAILED, "symex", 0, repr(e.args[1])[:120])
            r.add("fixed_pressure.T_is_the_solution_temperature", DISCHARGED if e.args[2] is tk else FAILED, "symex", 0, repr(e.args[2])[:80])
            r.add("fixed_pressure.no_molar_volume_given", DISCHARGED if tm.isnum(e.args[3]) and e.args[3].args[0] == 0 else FAILED, "symex", 0, repr(e.args[3])[:80])
        else:
            nv += 1
            r.add("fixed_volume.no_pressure_given(P=0)_and_T_is_solution_temperature", DISCHARGED if tm.isnum(e.args[1]) and e.args[1].args[0] == 0 and e.args[2] is tk else FAILED, "symex", 0, repr(e.args[1:3])[:120])
    r.add("reach.both_kinds", DISCHARGED if np_ and nv else UNDECIDED, "symex", 0, "%d fixed-pressure, %d fixed-volume paths" % (np_, nv), kind="vacuity")
    r.assumptions += ["calc_PR(phases, P, T, V_m) is under C19.calc_PR units", "the damping of V_m between iterations is not pinned"]
    return r


def unit_mixing_rule(which, twin=False):
    """van der Waals one-fluid mixing rule in calc_PR (both variants), inner loop over partner gases j for gas i:
    a_ij = sqrt(a_i alpha_i a_j alpha_j) * k(i, j);  a_mix += x_i x_j a_ij;  the per-component sum (half the composition derivative of
    a_mix, used in ln phi_i) += x_j a_ij with the PARTNER's mole fraction; partners with zero fraction are skipped; the per-component sum
    starts at 0 for every gas i and is stored in that gas's record."""
    rel, find_kw = {"gases": ("src/phreeqcpp/gases.cpp", {"nparams": 0}), "prep": ("src/phreeqcpp/prep.cpp", {"nparams": 4})}[which]
    q = "Phreeqc::calc_PR"
    fn = A.find_function(rel, q, **find_kw)
    r = U.new_unit("C19.calc_PR[%s].mixing_rule" % which, rel, q, fn)
    loops = [x for x in A.walk(fn) if x.get("kind") in ("ForStmt", "WhileStmt", "DoStmt")]
    inner = [k for k, lp in enumerate(loops) if lp.get("kind") == "ForStmt" and "a_aa_sum2+=" in text_of(rel, lp["inner"][-1]) and not any(
        y is not lp and y.get("kind") == "ForStmt" and "a_aa_sum2+=" in text_of(rel, y["inner"][-1]) for y in A.walk(lp))]
    if len(inner) != 1:
        raise Undecided("inner mixing loop of calc_PR[%s] not found (%d)" % (which, len(inner)))
    c = ctx(functional=("calc_gas_binary_parameter",))
    f, ex, its, info = U.run_loop_isolated(rel, q, inner[0], ctx=c, find_kw=find_kw)
    n = skip = 0
    for s in live(its, ("run", "cont")):
        pi, pj = local(info, s, "phase_ptr"), local(info, s, "phase_ptr1")
        F = lambda nm, o: fld0(ex, s, nm, "R", o)
        xj = F("fraction_x", pj); xi = F("fraction_x", pi)
        s1 = fld(ex, s, "a_aa_sum", "R"); s2 = local(info, s, "a_aa_sum2")       # a_aa_sum is a member of Phreeqc, the per-component sum a local
        s10, s20 = fld0(ex, s, "a_aa_sum", "R"), tm.sym("iter_a_aa_sum2", "R")
        if B.z3_prove(list(s.pc), tm.eq(xj, tm.num(0)))[0] == "proved":
            skip += 1
            r.add("absent_partner.adds_nothing", DISCHARGED if s1 is s10 and s2 is s20 else FAILED, "symex", 0, "", kind="frame")
            continue
        n += 1
        kev = [e for e in U.iter_events(s) if e.name.endswith("calc_gas_binary_parameter")]
        if len(kev) != 1:
            r.add("pair.binary_parameter_looked_up_once", FAILED, "trace", 0, ""); continue
        aij = tm.app("sqrt", (F("pr_a", pi) * F("pr_alpha", pi) * F("pr_a", pj) * F("pr_alpha", pj),), "R") * kev[0].result
        U.discharge_eq_real(r, "pair.a_mix+=x_i*x_j*a_ij", list(s.pc), s1, s10 + xi * xj * aij)
        U.discharge_eq_real(r, "pair.component_sum+=x_j*a_ij(partner's_fraction)", list(s.pc), s2, s20 + (xj if not twin else xi) * aij)
    r.add("reach.pairs", DISCHARGED if n and skip else UNDECIDED, "symex", 0, "%d/%d" % (n, skip), kind="vacuity")
    check_accumulator_init(r, fn, rel, loops[inner[0]], "a_aa_sum2", "component_sum")
    t = text_of(rel, fn)
    r.add("component_sum_stored_in_the_gas's_record", DISCHARGED if "phase_ptr->pr_aa_sum2=a_aa_sum2;" in t else FAILED, "syntactic", 0, "", kind="post")
    r.assumptions += ["k(i,j) symmetric (C19.gas_binary_parameters)", "doubles as reals; sqrt uninterpreted"]
    return r


def unit_tidy_gas_phase_pressure_sum(twin=False):
    """tidy_gas_phase: the sum of the initial partial pressures that fixes a new gas phase's total pressure, Peng-Robinson molar volume
    and initial moles is the sum over THAT gas phase's components: it starts at 0 for every gas phase of the loop."""
    TIDY = "src/phreeqcpp/tidy.cpp"
    q = "Phreeqc::tidy_gas_phase"
    fn = A.find_function(TIDY, q)
    r = U.new_unit("C19.tidy_gas_phase.partial_pressure_sum_is_per_gas_phase", TIDY, q, fn, kind="structural")
    loops = [x for x in A.walk(fn) if x.get("kind") == "ForStmt"]
    acc = [lp for lp in loops if "P+=gas_phase_ptr->Get_gas_comps()[j].Get_p_read();" in text_of(TIDY, lp["inner"][-1])]
    # the innermost accumulating loops
    acc = [lp for lp in acc if not any(y is not lp and y in acc for y in A.walk(lp))]
    r.add("reach.accumulating_loops", DISCHARGED if acc else UNDECIDED, "syntactic", 0, "%d" % len(acc), kind="vacuity")
    for k, lp in enumerate(acc):
        check_accumulator_init(r, fn, TIDY, lp, "P" if not twin else "V_m", "gas_phase[%d]" % k)
    return r


def unit_builtin_kij_table_symmetric(twin=False):
    """built-in binary interaction factors of water with CO2, H2S, CH4, N2, ethane, propane (used when the database gives no
    GAS_BINARY_PARAMETERS): the factor for (H2O, X) equals the factor for (X, H2O) - the two halves of the table list the same partners,
    each half tests the partner's name on the argument that is not water, and with the same value"""
    q = "Phreeqc::calc_gas_binary_parameter"
    fn = A.find_function(GASES, q)
    r = U.new_unit("C19.calc_gas_binary_parameter.built_in_table_symmetric", GASES, q, fn)
    def table(block):
        """block: IfStmt `if (!strcmp(nameA.c_str(), "H2O(g)")) { chain }` -> (water_arg, {partners: (value, args used)})"""
        cond = text_of(GASES, block["inner"][0])
        m = re.match(r'^!strcmp\((name[12])\.c_str\(\),"H2O\(g\)"\)$', cond)
        if not m:
            return None
        water = m.group(1)
        out = {}
        def chain(n):
            if n.get("kind") == "CompoundStmt":
                for c_ in n.get("inner", []):
                    chain(c_)
                return
            if n.get("kind") != "IfStmt":
                return
            ct = text_of(GASES, n["inner"][0])
            names = tuple(sorted(re.findall(r'"([^"]+)"', ct)))
            args = set(re.findall(r"(name[12])\.c_str\(\)", ct))
            vt = text_of(GASES, n["inner"][1])
            mv = re.search(r"f=([0-9.]+)", vt)
            out[names] = (mv.group(1) if mv else None, args)
            if len(n["inner"]) > 2 and n["inner"][2]:
                chain(n["inner"][2])
        chain(block["inner"][1])
        return water, out
    blocks = [x for x in A.walk(fn) if x.get("kind") == "IfStmt" and re.match(r'^!strcmp\(name[12]\.c_str\(\),"H2O\(g\)"\)$', text_of(GASES, x["inner"][0]))]
    if len(blocks) != 2:
        raise Undecided("the two halves of the built-in table were not found (%d)" % len(blocks))
    (w1, t1), (w2, t2) = table(blocks[0]), table(blocks[1])
    r.add("halves.one_for_each_position_of_water", DISCHARGED if {w1, w2} == {"name1", "name2"} else FAILED, "ast-scan", 0, "%s %s" % (w1, w2))
    for w, t, lab in ((w1, t1, "first"), (w2, t2, "second")):
        other = "name2" if w == "name1" else "name1"
        bad = [k for k, (v, args) in t.items() if args != {other}]
        r.add("%s_half.partner_tested_on_the_argument_that_is_not_water" % lab, DISCHARGED if not bad else FAILED, "ast-scan", 0, repr(bad)[:200])
    same = {k: v[0] for k, v in t1.items()} == {k: v[0] for k, v in t2.items()} and len(t1) >= 4
    if twin:
        same = False
    r.add("halves.same_partners_with_the_same_factor", DISCHARGED if same else FAILED, "ast-scan", 0, "%r / %r" % (sorted((k, v[0]) for k, v in t1.items()), sorted((k, v[0]) for k, v in t2.items())))
    r.proved_kind = "structural"
    r.assumptions += ["the table is read from the if-chains of the function (structure and literals); database-supplied parameters are C19.gas_binary_parameters.k_ij==k_ji"]
    return r


def unit_pp_gas_si(twin=False):
    """adjust_setup_pure_phases: a Peng-Robinson gas in EQUILIBRIUM_PHASES equilibrates at fugacity = phi * P: on every path the target of its
    saturation equation is the user's log P plus the log fugacity coefficient (pr_si_f), whether the EOS had to be re-evaluated or the
    cached coefficient was still valid"""
    q = "Phreeqc::adjust_setup_pure_phases"
    rel = "src/phreeqcpp/prep.cpp"
    fn = A.find_function(rel, q)
    r = U.new_unit("C19.adjust_setup_pure_phases.gas_target_is_logP_plus_log_phi_on_every_path", rel, q, fn)
    loops = [x for x in A.walk(fn) if x.get("kind") in ("ForStmt", "WhileStmt")]
    ks = [k for k, lp in enumerate(loops) if "pr_si_f" in text_of(rel, lp["inner"][-1])]
    if len(ks) != 1:
        raise Undecided("the unknown loop of adjust_setup_pure_phases was not found (%d)" % len(ks))
    c = ctx(functional=()); c.log_stores = True
    f, ex, its, info = U.run_loop_isolated(rel, q, ks[0], ctx=c)
    nc = nr = nn = 0
    for s in live(its, ("run", "cont")):
        evs = list(U.iter_events(s))
        pr = [e for e in evs if e.name.endswith("calc_PR")]
        sw = [e for e in evs if e.name == "store" and repr(e.args[0]).strip('"') == "si"]
        xi = vec_elem(ex, s, "x", tm.sym("iter_i", "I"))
        ph = fld0(ex, s, "phase", "P", xi)
        if not sw:
            nn += 1
            # a path without a target is allowed only for unknowns that are not Peng-Robinson gases of the assemblage
            PPv = A.enum_values_compiled("Phreeqc.h", ["PP"]).get("PP") if False else None
            is_gas = tm.and_(tm.lt(tm.num(0), fld0(ex, s, "p_c", "R", ph)), tm.lt(tm.num(0), fld0(ex, s, "t_c", "R", ph)))
            touched = any(e.name.endswith("Get_si_org") for e in evs)
            if touched:
                U.discharge_valid(r, "not_a_gas_with_critical_data.no_target_change#%d" % nn, list(s.pc), tm.not_(is_gas))
            continue
        val = sw[-1].args[1]
        so = [e for e in evs if e.name.endswith("Get_si_org")]
        nc += bool(pr); nr += (not pr)
        label = "gas.target==min(si_org,3.5)+pr_si_f(%s)#%d" % ("EOS_re-evaluated" if pr else "cached_coefficient_still_valid", nc + nr)
        if not so or sw[-1].recv is not xi or (twin and not pr):
            r.add(label, FAILED, "symex", 0, repr(val)[:120]); continue
        clamp = tm.ite(tm.lt(tm.Q("7/2"), so[0].result), tm.Q("7/2"), so[0].result)
        U.discharge_eq_real(r, label, list(s.pc), val, clamp + fld(ex, s, "pr_si_f", "R", ph))
    r.add("reach.recomputed_and_cached", DISCHARGED if nc and nr else UNDECIDED, "symex", 0, "%d/%d/%d" % (nc, nr, nn), kind="vacuity")
    r.assumptions += ["pr_si_f is the log10 fugacity coefficient left by calc_PR (C19.calc_PR.* units)", "which unknowns are gases with critical data (the guard of the block) is not pinned"]
    return r


def unit_fixed_volume_molar_volume(twin=False):
    """calc_gas_pressures, fixed-volume Peng-Robinson phase: the molar volume handed to the equation of state is V / n damped with the previous
    value, (V_m_old + V/n) / 2, for every V/n that can occur in the property's range 0.01..1000 atm at 0..200 C - the safety clamps on V/n may
    only act outside R T / P for that range (R T_max / P_min = 0.0820575 * 473.15 / 0.01 = 3882.5 L/mol)"""
    q = "Phreeqc::calc_gas_pressures"
    fn = A.find_function(MODEL, q)
    r = U.new_unit("C19.calc_gas_pressures.fixed_volume_molar_volume_not_clamped_inside_the_pressure_range", MODEL, q, fn)
    blk = [x for x in A.walk(fn) if x.get("kind") == "IfStmt" and len(x["inner"]) >= 2 and text_of(MODEL, x["inner"][1]).replace("{", "").startswith("V_m=gas_phase_ptr->Get_volume()/gas_phase_ptr->Get_total_moles()")]
    if len(blk) != 1:
        raise Undecided("molar-volume block of the fixed-volume branch not found (%d)" % len(blk))
    c = ctx(functional=("Get_volume", "Get_total_moles", "Get_v_m"))
    f, ex, fin, info = region(MODEL, q, [blk[0]], c)
    hi = tm.Q("3882.5") if not twin else tm.Q("20000")
    n = 0
    for s in live(fin, ("run",)):
        vol = [e for e in s.events if e.name.endswith("Get_volume")]; mol = [e for e in s.events if e.name.endswith("Get_total_moles")]; old = [e for e in s.events if e.name.endswith("Get_v_m")]
        if not (vol and mol and old):
            continue
        V = vol[0].result / mol[0].result
        vm = local(info, s, "V_m")
        hy = list(s.pc) + [tm.le(tm.Q("7/100"), V), tm.le(V, hi)]
        if B.z3_prove(hy, tm.FALSE)[0] == "proved":
            continue                                        # this path is for V/n outside the range considered
        n += 1
        U.discharge_eq_real(r, "V_m==(V_m_old+V/n)/2_for_0.07<=V/n<=RT_max/P_min#%d" % n, hy, vm, (old[-1].result + V) / tm.num(2))
    r.add("reach.paths_in_range", DISCHARGED if n else UNDECIDED, "symex", 0, str(n), kind="vacuity")
    r.assumptions += ["the stronger damping below 0.07 L/mol (near the co-volume) is not pinned", "doubles as reals"]
    return r
