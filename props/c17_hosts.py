"""C17: the engine-side hosts of CALCULATE_VALUES programs - the value a host takes from a run is the one THAT run SAVEd: rate_moles is NaN
when the program starts (so a program that does not SAVE is reported, not silently answered with an earlier program's value), the program
run is the record's own (line, variable and loop bases), it is compiled first when newly defined, and the value stored with the record
is rate_moles as left by the run."""
from props.common import *
from vf.core import FAILED, DISCHARGED, UNDECIDED

ISO = "src/phreeqcpp/isotopes.cpp"
BAS = "src/phreeqcpp/basicsubs.cpp"


def _check_paths(r, label, ex, states, recptr_of):
    n = 0
    for s in states:
        evs = list(U.iter_events(s)) if any(e.name == "iter_begin" for e in s.events) else list(s.events)
        runs = [k for k, e in enumerate(evs) if e.name.split("::")[-1] == "basic_run"]
        if not runs:
            continue
        n += 1
        if n > 12:
            break
        k = runs[-1]
        before = evs[:k]
        st = [e for e in before if e.name == "store" and tm.is_str_const(e.args[0], "rate_moles")] if hasattr(tm, "is_str_const") else \
             [e for e in before if e.name == "store" and repr(e.args[0]).strip('"') == "rate_moles"]
        last = st[-1] if st else None
        oknan = last is not None and ("NAN" in repr(last.args[1]).upper() or "nan" in repr(last.args[1])) and not _TWIN[0]
        r.add("%s.rate_moles_is_NaN_when_the_program_starts#%d" % (label, n), DISCHARGED if oknan else FAILED, "trace", 0, repr(last.args[1])[:60] if last else "no reset on this path")
        rec = recptr_of(s)
        a = evs[k].args
        F = lambda nm: fld(ex, s, nm, "P", rec)
        okp = len(a) >= 4 and all(("fld:%s" % nm in repr(a[i]) or nm in repr(a[i])) for i, nm in ((1, "linebase"), (2, "varbase"), (3, "loopbase"))) and all(repr(rec) in repr(a[i]) for i in (1, 2, 3))
        r.add("%s.runs_the_record's_own_program#%d" % (label, n), DISCHARGED if okp else FAILED, "trace", 0, repr(a[1:])[:160])
        comp = [e for e in before if e.name.split("::")[-1] == "basic_compile"]
        newdef = tm.eq(fld0(ex, s, "new_def", "I", rec), tm.num(1, "I"))
        for hy, nd in cases(list(s.pc), newdef):
            r.add("%s.%s#%d" % (label, "new_definition_compiled_before_it_runs" if nd else "compiled_program_not_recompiled", n), DISCHARGED if len(comp) == (1 if nd else 0) else FAILED, "trace", 0, "%d compile(s)" % len(comp))
        after = evs[k + 1:]
        if s.status in ("run", "cont", "ret"):
            vw = [e for e in after if e.name == "store" and repr(e.args[0]).strip('"') == "value" and e.recv is rec]
            if vw:
                okv = last is not None and vw[-1].args[1] is last.args[1]      # = rate_moles as read behind the run (the run itself is opaque here)
                r.add("%s.value_taken_is_rate_moles_after_the_run#%d" % (label, n), DISCHARGED if okv else FAILED, "trace", 0, repr(vw[-1].args[1])[:80])
    return n


_TWIN = [False]


def unit_hosts(twin=False):
    _TWIN[0] = twin
    fn = A.find_function(BAS, "Phreeqc::get_calculate_value")
    r = U.new_unit("C17.basic_hosts.result_is_what_this_run_SAVEd", BAS, "Phreeqc::get_calculate_value", fn)
    def cx():
        c = stop_on_error_msg(ctx(functional=("calculate_value_search", "isnan", "master_isotope_search"))); c.log_stores = True
        return c
    total = 0
    # CALC_VALUE
    f, ex, fin, info = U.run_function(BAS, "Phreeqc::get_calculate_value", ctx=cx())
    def rec1(s):
        return s.locals.get(info["names"]["calculate_value_ptr"])
    total += _check_paths(r, "CALC_VALUE", ex, [s for s in fin if s.status in ("ret", "throw")], rec1)
    # the caller's own SAVE state survives a nested CALC_VALUE
    for s in [x for x in fin if x.status == "ret" and any(e.name.split("::")[-1] == "basic_run" for e in x.events)][:4]:
        U.discharge_eq_real(r, "CALC_VALUE.caller's_rate_moles_restored", list(s.pc), fld(ex, s, "rate_moles", "R"), fld0(ex, s, "rate_moles", "R"))
    # selected-output and isotope hosts
    for q in ("Phreeqc::punch_calculate_values", "Phreeqc::calculate_values"):
        fnq = A.find_function(ISO, q)
        loops = [x for x in A.walk(fnq) if x.get("kind") in ("ForStmt", "WhileStmt")]
        for k, lp in enumerate(loops):
            if "basic_run(" not in text_of(ISO, lp["inner"][-1]) or any(y is not lp and y.get("kind") in ("ForStmt", "WhileStmt") and "basic_run(" in text_of(ISO, y["inner"][-1]) for y in A.walk(lp["inner"][-1])):
                continue
            f2, ex2, its, info2 = U.run_loop_isolated(ISO, q, k, ctx=cx())
            def rec2(s, info2=info2):
                return local(info2, s, "calculate_value_ptr")
            total += _check_paths(r, "%s[loop%d]" % (q.split("::")[-1], k), ex2, its, rec2)
    r.add("reach.hosts", DISCHARGED if total >= 6 else UNDECIDED, "symex", 0, str(total), kind="vacuity")
    r.assumptions += ["SAVE stores its argument in rate_moles (C17.cmdsave...)", "a basic_run that fails throws through error_msg(STOP)"]
    return r
