"""C03 ext: initial_exchangers / initial_surfaces — every newly defined exchanger / surface that is to be equilibrated with a solution is equilibrated
with THAT solution (its own n_solution) and the result is saved back under ITS OWN number; one that is not to be equilibrated is not run."""
from props.c01_ext_util import *

MS = "src/phreeqcpp/mainsubs.cpp"
FUN = ("Get_new_def", "Get_n_user", "Get_n_user_end", "Get_solution_equilibria", "Get_n_solution", "Rxn_find", "Get_solution_ptr", "Get_description", "c_str", "Get_tc", "Get_patm",
       "Get_surface_ptr", "Get_dl_type")


def _unit(kind, twin=False):
    q = "Phreeqc::initial_%ss" % ("exchanger" if kind == "exchange" else "surface")
    fn = A.find_function(MS, q)
    uid = "C03.initial_%ss.equilibrated_with_its_own_solution_and_saved_under_its_own_number" % ("exchanger" if kind == "exchange" else "surface")
    r = U.new_unit(uid, MS, q, fn)
    save = "x%s_save" % kind
    k = the_loop(fn, MS, save + "(", innermost=True, what="loop over the new definitions")
    f, ex, its, info = run_iter(MS, q, k, ctx(functional=FUN))
    nit = tm.sym("iter_nit", "P")
    key = tm.select(entry_arr(ex, its[0], ("m", "I")), tm.app("mnode", (nit,), "P"), I(0)) if its else None
    nrun = nskip = 0
    for s in lives(its, ("run", "cont")):
        evs = U.iter_events(s)
        key = [t for p in s.pc for t in tm.subterms(p) if t.op == "app" and t.args[0] == "miter"]
        ent = None
        for e in evs:
            if e.recv is not None and not isinstance(e.recv, tuple) and e.recv.op == "app" and e.recv.args[0] == "fld:second" and "Rxn_%s_map" % kind in repr(e.recv):
                ent = e.recv; break
        if ent is None:
            continue
        hy = list(s.pc)
        keyt = tm.select(entry_arr(ex, s, ("m", "I")), tm.app("mnode", (nit,), "P"), I(0))
        put(r, "entity.is_the_one_numbered_by_the_current_element_of_the_new-definition_set", ent is tm.app("fld:second", (tm.app("mnode", (tm.app("miter", (tm.app("fld:Rxn_%s_map" % kind, (THIS,), "P"), keyt), "P"),), "P"),), "P"), repr(ent)[:200], kind="trace") if (nrun + nskip) < 2 else None
        sv = [e for e in evs if e.name.endswith(save)]
        setp = [e for e in evs if e.name.endswith("Set_%s_ptr" % kind)]
        sets = [e for e in evs if e.name.endswith("Set_solution_ptr")]
        runs = [e for e in evs if e.name.split("::")[-1] in ("model", "set_and_run_wrapper")]
        want = tm.and_(tm.to_bool(tm.app("call:Get_new_def", (ent,), "B")), tm.to_bool(tm.app("call:Get_solution_equilibria", (ent,), "B")))
        if sv or runs:
            nrun += 1
            valid(r, "run.only_a_new_definition_that_asks_for_equilibration", hy, want)
            put(r, "run.the_entity_in_use_is_THIS_one", len(setp) == 1 and setp[0].args[0] is ent, repr([e.args for e in setp])[:200], kind="trace")
            nsol = tm.app("call:Get_n_solution", (ent,), "I")
            oks = len(sets) == 1 and sets[0].args[0].op == "app" and str(sets[0].args[0].args[0]) == "call:Rxn_find" and sets[0].args[0].args[-1] is (nsol if not twin else tm.app("call:Get_n_user", (ent,), "I")) \
                and sets[0].args[0].args[-2] is tm.app("fld:Rxn_solution_map", (THIS,), "P")
            put(r, "run.the_solution_in_use_is_the_one_numbered_by_ITS_n_solution", oks, repr([e.args for e in sets])[:300], kind="trace")
            put(r, "run.result_saved_once_under_ITS_own_number", len(sv) == 1 and sv[0].args[0] is tm.app("call:Get_n_user", (ent,), "I"), repr([e.args for e in sv])[:200], kind="trace")
            order = [i for i, e in enumerate(evs) if e in setp or e in sets or e in runs or e in sv]
            seq = [("use" if evs[i] in setp or evs[i] in sets else "run" if evs[i] in runs else "save") for i in order]
            put(r, "run.order(use set, calculation, save)", seq == sorted(seq, key=["use", "run", "save"].index) and "run" in seq, repr(seq), kind="trace")
            # a missing solution is fatal
            sp = tm.app("call:Get_solution_ptr", (tm.app("fld:use", (THIS,), "P"),), "P")
            fatal = [e for e in evs if e.name.endswith("error_msg") and "Solution not found" in repr(e.args[0])]
            gs = [e for e in evs if e.name.endswith("Get_solution_ptr")]
            if gs:
                for hc, missing in cases(hy, isnull(gs[0].result)):
                    put(r, "run.%s" % ("missing_solution_is_a_fatal_error" if missing else "present_solution_is_silent"), bool(fatal) == missing, repr([e.args for e in fatal])[:100], kind="trace")
        else:
            nskip += 1
            valid(r, "skip.only_when_not_new_or_not_to_be_equilibrated", hy, tm.not_(want))
            put(r, "skip.nothing_put_in_use", not setp and not sets, "", kind="frame")
    put(r, "reach.run_and_skip", nrun >= 1 and nskip >= 1, "%d/%d" % (nrun, nskip), kind="vacuity", undecided=True)
    if kind == "exchange":
        # non-convergence of the initial exchange calculation is fatal
        for s in lives(its, ("run", "cont")):
            evs = U.iter_events(s)
            md = [e for e in evs if e.name.endswith("::model")]
            cr = [e for e in evs if e.name.endswith("check_residuals")]
            if md and cr:
                fatal = [e for e in evs if e.name.endswith("error_msg") and "failed to converge" in repr(e.args[0])]
                bad = tm.or_(tm.eq(md[0].result, I(0)), tm.eq(cr[0].result, I(0)))
                for hc, isbad in cases(list(s.pc), bad):
                    put(r, "run.%s" % ("non_convergence_is_a_fatal_error" if isbad else "convergence_is_silent"), bool(fatal) == isbad, repr(s.pc[-2:])[:200], kind="trace")
    r.assumptions += ["Utilities::Rxn_find(map, n) returns the entity numbered n (0 when absent)", "prep/model/set_and_run_wrapper equilibrate use.%s with use.solution (not under contract)" % kind,
                      "x%s_save(n): units C02.x%s_save.*" % (kind, kind), "ERROR == 0"]
    return r


def unit_initial_exchangers(twin=False):
    return _unit("exchange", twin)


def unit_initial_surfaces(twin=False):
    return _unit("surface", twin)


UNITS = [
    ("C03.initial_exchangers.equilibrated_with_its_own_solution_and_saved_under_its_own_number", unit_initial_exchangers),
    ("C03.initial_surfaces.equilibrated_with_its_own_solution_and_saved_under_its_own_number", unit_initial_surfaces),
]
