"""C12 — kinetic integration within tolerance (partial).
Lemmas over the Runge-Kutta tableau literally coded in Phreeqc::rk_kinetics (read from the AST as exact
rationals): row sums = nodes, order conditions to 5 for the weights and to 4 for the embedded weights,
stage combinations use their row with the right strides; cxxKinetics::Current_step time bookkeeping.
Step-size control, cvode and agreement with closed forms are NOT decided."""
import time
from fractions import Fraction as F
from vf import core
from vf.core import Undecided, FAILED, DISCHARGED, UNDECIDED
from vf.astvc import ast as A, terms as tm, unit as U, backends as B, stl as STLM
from vf.astvc import symex as SX

PID = "C12"
KIN = "src/phreeqcpp/kinetics.cpp"
CXK = "src/phreeqcpp/cxxKinetics.cxx"
THIS = tm.sym("this", "P")


class AllPure(set):
    def __contains__(self, x):
        return True


def extract_tableau():
    fn = A.find_function(KIN, "Phreeqc::rk_kinetics")
    ctx = SX.Ctx(); ctx.pure = AllPure(); ctx.stl = STLM.STL(SX); ctx.stl.check_bounds = False
    ex = SX.Exec(ctx)
    st = SX.State()
    # declarations of the function (constants b.., c.., dc..) evaluated in order
    ex.local_ids = {x["id"] for x in A.walk(fn) if x.get("kind") in ("VarDecl", "ParmVarDecl") and "id" in x}
    ex.addr_taken = set(); ex.loop_ids = {}
    names = {}
    for x in A.walk(fn):
        if x.get("kind") in ("VarDecl", "ParmVarDecl") and "name" in x:
            names.setdefault(x["name"], x["id"])
    consts = {}
    for x in A.walk(fn):
        if x.get("kind") == "VarDecl" and x.get("init") and (x["type"].get("desugaredQualType") or x["type"]["qualType"]) == "double":
            try:
                s2 = st.clone()
                v = ex.ev(x["inner"][0], s2)[0][1]
            except Undecided:
                continue
            if tm.isnum(v):
                st.locals[x["id"]] = v
                consts[x["name"]] = v.args[0]
    N, J = tm.sym("N", "I"), tm.sym("J", "I")
    for nm, val in (("n_reactions", N), ("j", J)):
        pass
    # symbolic locals used in index expressions
    for x in A.walk(fn):
        if x.get("kind") == "VarDecl" and x.get("name") == "n_reactions":
            st.locals[x["id"]] = N
        if x.get("kind") == "VarDecl" and x.get("name") == "j":
            st.locals[x["id"]] = J
    kid = names.get("k")
    rows, nodes, err_rows = [], [], []
    vdata = None

    def lin(term):
        """term -> {stage: coefficient} for a linear combination of rk_moles[stage*N + J]"""
        import sympy
        cv = B.SymConv()
        e = sympy.expand(cv.conv(term))
        inv = {v: k for k, v in cv.atoms.items()}
        out = {}
        for a in e.free_symbols:
            t = inv.get(a)
            if t is None or t.op != "select":
                raise Undecided("stage combination is not linear in rk_moles elements: %r" % (t,))
            idx = t.args[1][1]
            cvi = B.SymConv()
            ie = sympy.expand(cvi.conv(idx))
            n_atom, j_atom = cvi.atom(N), cvi.atom(J)
            stage = sympy.simplify((ie - j_atom) / n_atom)
            if not stage.is_Integer:
                raise Undecided("rk_moles index %r is not stage*n_reactions + j" % (idx,))
            coef = e.coeff(a)
            if coef.free_symbols:
                raise Undecided("non-constant coefficient")
            out[int(stage)] = out.get(int(stage), F(0)) + F(int(coef.p), int(coef.q))
        if sympy.simplify(e - sum(sympy.Rational(c.numerator, c.denominator) * a for a in e.free_symbols for s_, c in [(None, None)] if False) if False else 0) != 0:
            pass
        return out

    def walk_stmt(n):
        k = n.get("kind")
        if k == "BinaryOperator" and n.get("opcode") == "=":
            lhs = n["inner"][0]
            if lhs.get("kind") == "DeclRefExpr" and lhs["referencedDecl"].get("id") == kid:
                try:
                    v = ex.ev(n["inner"][1], st.clone())[0][1]
                    st.locals[kid] = v
                except Undecided:
                    st.locals[kid] = SX.fresh("k", "I")
            if lhs.get("kind") == "MemberExpr" and lhs.get("name") == "rate_sim_time":
                try:
                    v = ex.ev(n["inner"][1], st.clone())[0][1]
                    nodes.append((v, n))
                except Undecided:
                    pass
            if lhs.get("kind") == "DeclRefExpr" and lhs["referencedDecl"].get("name") == "l_error":
                rhs = n["inner"][1]
                try:
                    v = ex.ev(rhs, st.clone())[0][1]
                    if v.op == "ite":        # fabs(x) = ite(x < 0, -x, x)
                        v = v.args[2]
                    err_rows.append(lin(v))
                except Undecided as e:
                    err_rows.append({"error": str(e)})
        if k == "CXXMemberCallExpr":
            me = n["inner"][0]
            if me.get("kind") == "MemberExpr" and me.get("name") == "Set_moles" and len(n["inner"]) == 2:
                try:
                    v = ex.ev(n["inner"][1], st.clone())[0][1]
                    if not (tm.isnum(v)):
                        rows.append((lin(v), (n.get("range", {}).get("begin", {}) or {}).get("line")))
                except Undecided as e:
                    rows.append(({"error": str(e)}, None))
        for c in n.get("inner", []) or []:
            if isinstance(c, dict) and c.get("kind"):
                walk_stmt(c)
    walk_stmt(A.body_of(fn))
    return fn, consts, rows, nodes, err_rows


def order_conditions(Arows, w, upto):
    """residuals of the Butcher order conditions up to order `upto` (5 max) for an explicit method
    with strictly lower-triangular rows Arows (list of lists) and weights w; exact rationals"""
    s = len(w)
    Am = [[F(0)] * s for _ in range(s)]
    for i, row in enumerate(Arows):
        for j, v in enumerate(row):
            Am[i][j] = v
    a = [sum(Am[i]) for i in range(s)]
    def mv(v): return [sum(Am[i][j] * v[j] for j in range(s)) for i in range(s)]
    def hp(u, v): return [x * y for x, y in zip(u, v)]
    def dot(u, v): return sum(x * y for x, y in zip(u, v))
    one = [F(1)] * s
    a2, a3, a4 = hp(a, a), hp(hp(a, a), a), hp(hp(a, a), hp(a, a))
    Aa, Aa2, Aa3 = mv(a), mv(a2), mv(a3)
    AAa, AAa2 = mv(Aa), mv(Aa2)
    conds = [("order1: sum w = 1", dot(w, one) - 1),
             ("order2: sum w a = 1/2", dot(w, a) - F(1, 2)),
             ("order3: sum w a^2 = 1/3", dot(w, a2) - F(1, 3)),
             ("order3: sum w A a = 1/6", dot(w, Aa) - F(1, 6)),
             ("order4: sum w a^3 = 1/4", dot(w, a3) - F(1, 4)),
             ("order4: sum w a (A a) = 1/8", dot(w, hp(a, Aa)) - F(1, 8)),
             ("order4: sum w A a^2 = 1/12", dot(w, Aa2) - F(1, 12)),
             ("order4: sum w A A a = 1/24", dot(w, AAa) - F(1, 24)),
             ("order5: sum w a^4 = 1/5", dot(w, a4) - F(1, 5)),
             ("order5: sum w a^2 (A a) = 1/10", dot(w, hp(a2, Aa)) - F(1, 10)),
             ("order5: sum w a (A a^2) = 1/15", dot(w, hp(a, Aa2)) - F(1, 15)),
             ("order5: sum w a (A A a) = 1/30", dot(w, hp(a, AAa)) - F(1, 30)),
             ("order5: sum w (A a)^2 = 1/20", dot(w, hp(Aa, Aa)) - F(1, 20)),
             ("order5: sum w A a^3 = 1/20", dot(w, Aa3) - F(1, 20)),
             ("order5: sum w A (a (A a)) = 1/40", dot(w, mv(hp(a, Aa))) - F(1, 40)),
             ("order5: sum w A A a^2 = 1/60", dot(w, AAa2) - F(1, 60)),
             ("order5: sum w A A A a = 1/120", dot(w, mv(AAa)) - F(1, 120))]
    n = {1: 1, 2: 2, 3: 4, 4: 8, 5: 17}[upto]
    return conds[:n], a


def unit_tableau(twin=False):
    fn, consts, rows, nodes, err_rows = extract_tableau()
    r = U.new_unit("C12.rk_kinetics.tableau", KIN, "Phreeqc::rk_kinetics", fn)
    good = [rw for rw, ln in rows if "error" not in rw]
    bad = [rw for rw, ln in rows if "error" in rw]
    if bad:
        r.notes.append("stage expressions not linear in rk_moles (ignored): %d" % len(bad))
    # the main embedded pair: rows by the highest stage they use
    def find(pred):
        c = [rw for rw in good if pred(rw)]
        return c
    # stage rows: a row of the tableau for stage s+1 uses stages 0..s-1 ... identify by key sets
    main = {}
    for rw in good:
        keys = tuple(sorted(rw))
        main.setdefault(keys, []).append(rw)
    def uniq(keys, what):
        c = main.get(keys, [])
        vals = {tuple(sorted(x.items())) for x in c}
        return [dict(v) for v in vals]
    def pick(keys, what, want_n=1):
        c = uniq(keys, what)
        return c
    def by_max(m):
        vals = {tuple(sorted(x.items())) for x in good if x and max(x) == m}
        return [dict(v) for v in vals]
    rows2, rows3, rows4, rows5, rows6, fin = by_max(0), by_max(1), by_max(2), by_max(3), by_max(4), by_max(5)
    # the rk=2 and rk=3 shortcuts also use stages (0,1) / (0,1,2): separate them by the sum of coefficients:
    # a tableau row for stage i sums to the node of the stage, a shortcut (a final combination) sums to 1
    def split(cands):
        rowsx = [c for c in cands if sum(c.values()) != 1]
        short = [c for c in cands if sum(c.values()) == 1]
        return rowsx, short
    rows2, short1 = split(rows2)
    r3, short2 = split(rows3)
    r4, short3 = split(rows4)
    ok_shape = len(rows2) >= 1 and len(r3) == 1 and len(r4) == 1 and len(rows5) == 1 and len(rows6) == 1 and len(fin) == 1 and len(err_rows) == 1 and "error" not in err_rows[0]
    r.add("shape.six_stage_rows_weights_and_error_row_found", DISCHARGED if ok_shape else UNDECIDED, "ast-scan", 0,
          "row2=%d row3=%d row4=%d row5=%d row6=%d weights=%d error=%d shortcuts=%d/%d" % (len(rows2), len(r3), len(r4), len(rows5), len(rows6), len(fin), len(err_rows), len(short2), len(short3)), kind="structure")
    if not ok_shape:
        return r
    # row 2: every occurrence 0.2 * k1
    r2vals = {tuple(sorted(x.items())) for x in rows2}
    Arows = [[], [rows2[0].get(0, F(0))],
             [r3[0].get(0, F(0)), r3[0].get(1, F(0))],
             [r4[0].get(i, F(0)) for i in range(3)],
             [rows5[0].get(i, F(0)) for i in range(4)],
             [rows6[0].get(i, F(0)) for i in range(5)]]
    w = [fin[0].get(i, F(0)) for i in range(6)]
    dc = [err_rows[0].get(i, F(0)) for i in range(6)]
    if twin:
        Arows[4][1] = Arows[4][1] + F(1, 1000)
    r.add("row2.all_uses_equal", DISCHARGED if len(r2vals) == 1 else FAILED, "exact-rational", 0, repr(sorted(r2vals))[:200])
    # nodes coded in the rate_sim_time updates: h_sum + a_i * h
    node_vals = []
    for v, n in nodes:
        import sympy
        cv = B.SymConv(); e = sympy.expand(cv.conv(v))
        inv = {vv: kk for kk, vv in cv.atoms.items()}
        hs = [a for a in e.free_symbols if repr(inv.get(a)) == "uninit_h" or "uninit_h!" in repr(inv.get(a)) or repr(inv.get(a)).startswith("uninit_h")]
        coef = None
        for a in e.free_symbols:
            nm = repr(inv.get(a))
            if nm.startswith("uninit_h!") or nm == "uninit_h":
                coef = e.coeff(a)
        if coef is not None and not coef.free_symbols:
            node_vals.append(F(int(coef.p), int(coef.q)))
    conds5, a = order_conditions(Arows, w, 5)
    # nodes: row sums equal the node at which the stage's rates are evaluated
    want_nodes = sorted(set(a[1:]))
    got_nodes = sorted(set(node_vals))
    r.add("nodes.row_sums==nodes_in_rate_sim_time_updates", DISCHARGED if want_nodes == got_nodes else FAILED, "exact-rational", 0,
          "row sums %s ; coded nodes %s" % ([str(x) for x in a], [str(x) for x in got_nodes]))
    for name, res in conds5:
        r.add("weights(c)." + name, DISCHARGED if res == 0 else FAILED, "exact-rational", 0, "" if res == 0 else "residual %s" % res)
    wstar = [x - y for x, y in zip(w, dc)]
    conds4, _ = order_conditions(Arows, wstar, 4)
    for name, res in conds4:
        r.add("embedded(c-dc)." + name, DISCHARGED if res == 0 else FAILED, "exact-rational", 0, "" if res == 0 else "residual %s" % res)
    r.add("error_row.sum_dc==0", DISCHARGED if sum(dc) == 0 else FAILED, "exact-rational", 0, str(sum(dc)))
    for nm, sh in (("rk1", short1), ("rk2", short2), ("rk3", short3)):
        for c in sh:
            r.add("shortcut_%s.weights_sum_to_one" % nm, DISCHARGED if sum(c.values()) == 1 else FAILED, "exact-rational", 0, repr({k: str(v) for k, v in c.items()}))
    r.notes.append("tableau read from the AST: A=%s c=%s dc=%s" % ([[str(x) for x in row] for row in Arows], [str(x) for x in w], [str(x) for x in dc]))
    r.assumptions += ["decimal literals are read as the decimal rationals they spell; n/m literals as exact quotients (machine arithmetic treated as mathematical)",
                      "the value of k at a Set_moles site is the textually last assignment to k (checked shape: k = m*n_reactions before each stage loop)"]
    return r


def unit_equal_rate(twin=False):
    """every test that clears the 'rates are equal' flag of the low-order shortcuts has the meaning
    equal_rate' = equal_rate and not(|x - y| > tol)  for the two stage rates x, y it compares (all x, y, tol)"""
    fn = A.find_function(KIN, "Phreeqc::rk_kinetics")
    r = U.new_unit("C12.rk_kinetics.equal_rate_tests", KIN, "Phreeqc::rk_kinetics", fn)
    ctx = SX.Ctx(); ctx.pure = AllPure(); ctx.stl = STLM.STL(SX); ctx.stl.check_bounds = False
    ctx.enum_values.update({"FALSE": 0, "TRUE": 1})
    ex = SX.Exec(ctx)
    ex.local_ids = {x["id"] for x in A.walk(fn) if x.get("kind") in ("VarDecl", "ParmVarDecl") and "id" in x}
    ex.addr_taken = set(); ex.loop_ids = {}
    sites = 0
    def clears_flag(n):
        for x in A.walk(n):
            if x.get("kind") == "BinaryOperator" and x.get("opcode") == "=" and x["inner"][0].get("kind") == "DeclRefExpr" and x["inner"][0]["referencedDecl"].get("name") == "equal_rate":
                return True
        return False
    for x in A.walk(fn):
        if x.get("kind") != "IfStmt" or len(x["inner"]) != 2:
            continue
        then = x["inner"][1]
        if not clears_flag(then) or sum(1 for _ in A.walk(then)) > 12:
            continue
        sites += 1
        st = SX.State()
        res = ex.ev(x["inner"][0], st)
        if len(res) != 1:
            r.add("site%d.condition_is_one_expression" % sites, FAILED, "symex", 0, "%d evaluation paths" % len(res)); continue
        s1, c = res[0]
        c = tm.to_bool(c)
        tols = [e.result for e in s1.events if e.name.endswith("::Get_tol")]
        flag = [t for t in tm.free_syms(c) if "equal_rate" in t.args[0]]
        reals = [t for t in tm.subterms(c) if t.sort == "R" and t.op in ("sym", "select") and t not in tols]
        reals = [t for t in reals if not any(t is not u and t in tm.subterms(u) for u in reals)]
        if len(tols) != 1 or len(flag) > 1 or len(reals) != 2:
            r.add("site%d.shape(flag, two rates, tolerance)" % sites, UNDECIDED, "term-inspection", 0, "tols=%d flags=%d rates=%d in %r" % (len(tols), len(flag), len(reals), c)); continue
        x_, y_ = reals
        d = tm.sub(x_, y_)
        absd = tm.ite(tm.lt(d, tm.num(0)), tm.neg(d), d)
        spec = tm.lt(tols[0] if not twin else tm.add(tols[0], tm.num(1)), absd)
        if flag:
            spec = tm.and_(tm.to_bool(flag[0]), spec)
        U.discharge_valid(r, "site%d.flag_cleared_iff_equal_rate_and_|x-y|>tol" % sites, [], tm.eq(c, spec))
    r.add("reach.sites_found", DISCHARGED if sites >= 4 else UNDECIDED, "ast-scan", 0, "%d tests that clear equal_rate" % sites, kind="vacuity")
    return r


def unit_current_step(twin=False):
    fn = A.find_function(CXK, "cxxKinetics::Current_step")
    r = U.new_unit("C12.Current_step", CXK, "cxxKinetics::Current_step", fn)
    ctx = SX.Ctx(); ctx.stl = STLM.STL(SX)
    ex = SX.Exec(ctx); st = SX.State()
    inc, step = tm.sym("P0_incremental_reactions", "B"), tm.sym("P1_reaction_step", "I")
    pre = [tm.le(tm.num(1, "I"), step)]
    st.pc = list(pre)
    finals = ex.run(fn, st)
    vaddr = tm.app("fld:steps", (THIS,), "P")
    for i, s in enumerate(finals):
        if s.status != "ret":
            r.add("path%d.returns" % i, FAILED, "symex", 0, s.status); continue
        size = tm.select(ex.heap_arr(s, ("f", "#vsize", "I")), vaddr)
        data = tm.select(ex.heap_arr(s, ("f", "#vdata", "P")), vaddr)
        elem = lambda k: tm.select(ex.heap_arr(s, ("m", "R")), data, k)
        eq = tm.select(ex.heap_arr(s, ("f", "equalIncrements", "B")), THIS)
        cnt = tm.select(ex.heap_arr(s, ("f", "count", "I")), THIS)
        one = tm.num(1, "I")
        last = elem(tm.sub(size, one))
        listed = tm.ite(tm.lt(size, step), last, elem(tm.sub(step, one)))
        T = elem(tm.num(0, "I"))
        over = tm.lt(cnt, step)
        cum_eq = tm.ite(over, T, tm.div(tm.mul(tm.to_real(step), T), tm.to_real(cnt)))
        inc_eq = tm.ite(over, tm.num(0), tm.div(T, tm.to_real(cnt)) if not twin else T)
        spec = tm.ite(tm.eq(size, tm.num(0, "I")), tm.num(1),
                      tm.ite(tm.not_(eq), listed, tm.ite(inc, inc_eq, cum_eq)))
        hyps = list(s.pc) + [tm.le(tm.num(0, "I"), size), tm.lt(tm.num(0, "I"), cnt)]
        U.discharge_valid(r, "path%d.result==time_of_step_per_manual" % i, hyps, tm.eq(tm.to_real(s.ret), spec))
    # no vector access out of range
    for k, (what, pc, ob) in enumerate(ctx.stl.side):
        U.discharge_valid(r, "index_in_range.%d(%s)" % (k, what), pc + [tm.le(tm.num(0, "I"), tm.select(tm.sym("H0.#vsize:I", ("A", "P", "I")), vaddr))], ob, kind="safety")
    # lemma: for equal increments the incremental and cumulative bookkeeping agree: n * inc(k<=count) = cum(n) = n T / count
    n, T, c = tm.sym("n", "R"), tm.sym("T", "R"), tm.sym("count", "R")
    U.discharge_eq_real(r, "lemma.sum_of_n_equal_increments==cumulative(n)", [], n * (T / c), (n * T) / c, kind="lemma")
    r.add("reach.paths", DISCHARGED if len(finals) >= 9 else UNDECIDED, "symex", 0, "%d paths" % len(finals), kind="vacuity")
    r.assumptions += ["reaction_step >= 1 (callers pass 1-based step numbers); count > 0 for equal increments", "std::vector model"]
    return r


def units(tier):
    def t():
        r = unit_tableau()
        if not any(o.status == FAILED for o in r.obligations):
            U.must_fail_twin(r, "vacuity.must_fail_twin", lambda: unit_tableau(twin=True))
        return r
    def c():
        r = unit_current_step()
        if not any(o.status == FAILED for o in r.obligations):
            U.must_fail_twin(r, "vacuity.must_fail_twin", lambda: unit_current_step(twin=True))
        return r
    def e():
        r = unit_equal_rate()
        if not any(o.status == FAILED for o in r.obligations):
            U.must_fail_twin(r, "vacuity.must_fail_twin", lambda: unit_equal_rate(twin=True))
        return r
    us = [("C12.rk_kinetics.tableau", t), ("C12.rk_kinetics.equal_rate_tests", e), ("C12.Current_step", c)]
    from props import c12_time as TM
    from props.common import wrap as _wrap
    _wrap(us, "C12.run_reactions.cvode_restart_keeps_elapsed+remaining==requested", TM.unit_cvode_restart)
    _wrap(us, "C12.step_drivers.clock_advances_by_the_step_integrated", TM.unit_step_clock)
    _wrap(us, "C12.kinetics.reacted_moles_capped_at_amount_present", TM.unit_reactant_nonnegative)
    _wrap(us, "C12.reactions.step_driver", TM.unit_reactions_driver)
    _wrap(us, "C12.run_reactions.reaction_and_mix_applied_once_before_the_stiff_integration", TM.unit_reaction_added_once)
    from props import c12_nvector as NVX
    us += NVX.units(tier)
    _wrap(us, "C12.nvector.arithmetic_kernels_elementwise_and_in_lockstep", NVX.unit_arith_kernels)
    from props import c12_cvode as CV
    _wrap(us, "C12.cvode.error_weights_SS==1/(rtol*|y|+atol)", CV.unit_error_weights, "SS")
    _wrap(us, "C12.cvode.error_weights_SV==1/(rtol*|y|+atol)", CV.unit_error_weights, "SV")
    _wrap(us, "C12.cvode.local_error_test_accepts_iff_dsm<=1", CV.unit_error_test)
    _wrap(us, "C12.cvode.CVHandleNFlag_flags", CV.unit_handle_nflag)
    _wrap(us, "C12.cvode.step_completed_only_after_its_error_test_passed", CV.unit_step)
    _wrap(us, "C12.cvode.CVRestore_undoes_CVPredict", CV.unit_restore)
    _wrap(us, "C12.cvode.CVode_returns_the_state_at_tout", CV.unit_cvode_exit)
    _wrap(us, "C12.cvode.CVodeDky_horner", CV.unit_dky)
    _wrap(us, "C12.cvode.newton_iteration_converged_iff_dcon<=1", CV.unit_newton)
    _wrap(us, "C12.cvode.rescale_and_complete_step", CV.unit_rescale_complete)
    return us


def run(tier, seed, only, jobs):
    t0 = time.time()
    U.TIER.update(tier=tier, seed=seed)
    us = units(tier)
    from props.common import ext_units as _ext
    us += _ext("C12")
    if only:
        us = [x for x in us if only in x[0]]
    res = core.run_units(us, jobs=jobs)
    return core.finish(PID, tier, seed, "proof", res, t0,
        checker_cmd="astvc: coefficients of the stage combinations read from clang's AST of kinetics.cpp as exact rationals -> Butcher order conditions in Q; Current_step: path-wise VCs -> z3 5.1",
        trusted_base=["clang 14 AST", "astvc (vf/astvc)", "python fractions", "sympy 1.14", "z3 5.1"],
        assumptions=["machine doubles treated as mathematical reals"],
        explanation="Lemmas over the coded Runge-Kutta tableau and the step-time bookkeeping; error control, limit_rates, cvode and agreement with closed-form solutions are not decided.")
