"""C13 — registry and bindings are one API.
Units (Engine B): every extern "C" function of IPhreeqcLib.cpp forwards to the same-named
method of the instance for `id`; every *F function of IPhreeqc_interface_F.cpp forwards to the
same-named C function with the documented 1-based shifts; registry and switch store (c13_store)."""
import re, os, time
from vf import core
from vf.core import Undecided, FAILED, DISCHARGED, UNDECIDED
from vf.astvc import ast as A, terms as tm, unit as U, backends as B
from vf.astvc.symex import Exec, Ctx, State, sort_of, strip_type

PID = "C13"
LIB = "src/IPhreeqcLib.cpp"
FIF = "src/IPhreeqc_interface_F.cpp"
HDR = "src/IPhreeqc.h"
IPQ = {"IPQ_OK": 0, "IPQ_OUTOFMEMORY": -1, "IPQ_BADVARTYPE": -2, "IPQ_INVALIDARG": -3, "IPQ_INVALIDROW": -4, "IPQ_INVALIDCOL": -5, "IPQ_BADINSTANCE": -6}
VR = {"VR_OK": 0, "VR_OUTOFMEMORY": -1, "VR_BADVARTYPE": -2, "VR_INVALIDARG": -3, "VR_INVALIDROW": -4, "VR_INVALIDCOL": -5}


def header_decls():
    """name -> (return type, param text, doc mentions IPQ_BADINSTANCE) from IPhreeqc.h"""
    txt = open(os.path.join(core.REPO, HDR)).read()
    out = {}
    for m in re.finditer(r"IPQ_DLL_EXPORT\s+([\w\s\*]+?)\s*(\w+)\s*\(([^;]*)\)\s*;", txt):
        rt, name, params = m.group(1).strip(), m.group(2), m.group(3)
        doc_start = txt.rfind("/**", 0, m.start())
        doc = txt[doc_start:m.start()] if doc_start >= 0 else ""
        if name in out:
            continue
        out[name] = (rt, params, "IPQ_BADINSTANCE" in doc)
    return out


def enum_tables():
    ev = A.enum_values_compiled("IPhreeqc.h", list(IPQ) + list(VR))
    for k, v in list(IPQ.items()) + list(VR.items()):
        if ev.get(k) != v:
            raise Undecided("enumerator %s has value %s, the documented value is %s" % (k, ev.get(k), v))
    return ev


def method_vresult_range(method):
    """set of VRESULT codes the IPhreeqc method can return, from its return statements; None = any"""
    try:
        fn = A.find_function("src/IPhreeqc.cpp", "IPhreeqc::" + method)
    except Undecided:
        return None
    rng = set()
    for x in A.walk(fn):
        if x.get("kind") != "ReturnStmt" or not x.get("inner"):
            continue
        e = x["inner"][0]
        while e.get("kind") in ("ImplicitCastExpr", "ParenExpr", "CStyleCastExpr"):
            e = e["inner"][0]
        if e.get("kind") == "DeclRefExpr" and e["referencedDecl"].get("kind") == "EnumConstantDecl" and e["referencedDecl"]["name"] in VR:
            rng.add(VR[e["referencedDecl"]["name"]])
        else:
            return None
    return rng or None


def mk_ctx(ev):
    ctx = Ctx()
    ctx.enum_values.update(ev)
    ctx.pure.update({"GetInstance", "IPhreeqcLib::GetInstance"})
    def get_instance(ex, st, n, name, recv, args):
        p = tm.app("GetInstance", (args[0],), "P")
        st.events.append(("GetInstance", args[0]))
        return [(st, p)]
    ctx.handlers["GetInstance"] = get_instance
    ctx.handlers["IPhreeqcLib::GetInstance"] = get_instance
    return ctx


class StaticOK(Exec):
    """const static local arrays (error message literals) are constants, not state"""
    def decl_var(self, d, st):
        if d.get("storageClass") == "static" and "const" in d["type"]["qualType"]:
            st.locals[d["id"]] = ("obj", tm.sym("&static." + d.get("name", "_"), "P"))
            return [st]
        return Exec.decl_var(self, d, st)


def unit_wrapper(name, hdr, ev, twin=False):
    uid = "C13.wrap." + name
    fn = A.find_function(LIB, name, kind="FunctionDecl")
    r = U.new_unit(uid, LIB, name, fn)
    params = A.params_of(fn)
    rt_w = strip_type(fn["type"]["qualType"].split("(")[0])
    ctx = mk_ctx(ev)
    ex = StaticOK(ctx)
    st = State()
    finals = ex.run(fn, st)
    psyms = [tm.sym("P%d_%s" % (i, p.get("name", "arg%d" % i)), sort_of(p["type"]["qualType"])) for i, p in enumerate(params)]
    has_id = bool(params) and params[0].get("name") == "id" and strip_type(params[0]["type"]["qualType"]) == "int"
    if not has_id:
        raise Undecided("no id parameter: needs its own contract")
    inst = tm.app("GetInstance", (psyms[0],), "P")
    doc_bad = hdr.get(name, ("", "", False))[2]
    n_null = n_live = 0
    for i, s in enumerate(finals):
        if s.status not in ("ret",):
            r.add("path%d.terminates_by_return" % i, FAILED, "symex", 0, "path ends with status %s" % s.status)
            continue
        gi = [e for e in s.events if isinstance(e, tuple) and e[0] == "GetInstance"]
        evs = [e for e in s.events if not isinstance(e, tuple)]
        hyps = list(s.pc)
        # which case of the contract?
        is_null = B.z3_prove(hyps, tm.eq(inst, tm.NULL))[0] == "proved"
        is_live = B.z3_prove(hyps, tm.not_(tm.eq(inst, tm.NULL)))[0] == "proved"
        if not gi or any(g[1] is not psyms[0] for g in gi):
            r.add("path%d.instance_looked_up_by_id" % i, FAILED, "symex", 0, "GetInstance not called with the id argument: %r" % (gi,))
            continue
        if is_null:
            n_null += 1
            tag = "bad_id"
            ok = not evs
            r.add(tag + ".calls_nothing", DISCHARGED if ok else FAILED, "trace", 0, "" if ok else "events on the NULL-instance path: %r" % evs, kind="trace")
            if rt_w == "void":
                continue
            if s.ret is None:
                r.add(tag + ".returns_value", FAILED, "symex", 0, "no return value"); continue
            if rt_w in ("IPQ_RESULT",) or (rt_w == "int" and doc_bad):
                want = tm.num(IPQ["IPQ_BADINSTANCE"] if not twin else IPQ["IPQ_OK"], "I")
                U.discharge_valid(r, tag + ".returns_IPQ_BADINSTANCE", hyps, tm.eq(ex.coerce(s.ret, "I"), want))
            else:
                const = not any(x.args[0].startswith(("P", "H", "ret_", "uninit")) for x in tm.free_syms(s.ret))
                r.add(tag + ".returns_instance_independent_constant", DISCHARGED if const else FAILED, "term-inspection", 0, repr(s.ret)[:100])
        elif is_live:
            n_live += 1
            tag = "live%d" % n_live if n_live > 1 else "live"
            # exactly one event: the same-named method on the instance with the C arguments in order
            if len(evs) != 1:
                r.add(tag + ".exactly_one_forwarded_call", FAILED, "trace", 0, "events: %r" % evs, kind="trace"); continue
            e = evs[0]
            okname = e.name == "IPhreeqc::" + name
            r.add(tag + ".forwards_to_same_named_method", DISCHARGED if okname else FAILED, "trace", 0, e.name, kind="trace")
            okrecv = e.recv is inst
            r.add(tag + ".receiver_is_instance_of_id", DISCHARGED if okrecv else FAILED, "trace", 0, repr(e.recv)[:80], kind="trace")
            cargs = psyms[1:]
            if twin and len(cargs) >= 2:
                cargs = [cargs[1], cargs[0]] + cargs[2:]
            if len(e.args) != len(cargs):
                r.add(tag + ".argument_count", FAILED, "trace", 0, "%d method args for %d C args" % (len(e.args), len(cargs)), kind="trace"); continue
            for j, (a, c) in enumerate(zip(e.args, cargs)):
                want = c
                if a.sort == "B" and c.sort != "B":
                    want = tm.to_bool(c)
                elif a.sort != c.sort:
                    want = ex.coerce(c, a.sort)
                U.discharge_valid(r, tag + ".arg%d_passed_in_order" % (j + 1), hyps, tm.eq(a, want), kind="trace")
            if rt_w == "void":
                continue
            if s.ret is None:
                r.add(tag + ".returns_value", FAILED, "symex", 0, "no return value"); continue
            mt = strip_type(e.node.get("type", {}).get("qualType", "")) if e.node else ""
            res = e.result
            got = s.ret
            if mt == "void":
                U.discharge_valid(r, tag + ".returns_IPQ_OK", hyps, tm.eq(ex.coerce(got, "I"), tm.num(0 if not twin else -6, "I")))
            elif mt == "bool":
                want = tm.ite(tm.to_bool(res), tm.num(1 if not twin else 0, "I"), tm.num(0, "I"))
                U.discharge_valid(r, tag + ".result_is_1_or_0_of_the_switch", hyps, tm.eq(ex.coerce(got, "I"), want))
            elif mt == "VRESULT":
                rng = method_vresult_range(name)
                vals = sorted(rng) if rng else sorted(VR.values())
                rr = ex.coerce(res, "I")
                inr = tm.or_(*[tm.eq(rr, tm.num(v, "I")) for v in vals])
                want = rr if not twin else tm.add(rr, tm.num(1, "I"))
                U.discharge_valid(r, tag + ".result_translates_VR_to_IPQ_by_name", hyps + [inr], tm.eq(ex.coerce(got, "I"), want),
                                  detail_ok="method result range %s%s" % (vals, "" if rng else " (whole VRESULT range)"))
            else:
                if got.sort == "I" or res.sort == "I":
                    U.discharge_valid(r, tag + ".result_passed_through", hyps, tm.eq(ex.coerce(got, "I"), ex.coerce(res, "I") if not twin else tm.add(ex.coerce(res, "I"), tm.num(1, "I"))))
                else:
                    same = got is res and not twin
                    r.add(tag + ".result_passed_through", DISCHARGED if same else FAILED, "term-inspection", 0, "%r vs %r" % (got, res))
        else:
            r.add("path%d.case_of_contract" % i, FAILED, "z3-5.1", 0, "path condition %r decides neither instance == NULL nor != NULL" % (s.pc,))
    if n_null == 0:
        r.add("reach.bad_id_path", UNDECIDED, "symex", 0, "no path for an invalid id", kind="vacuity")
    if n_live == 0:
        r.add("reach.live_path", UNDECIDED, "symex", 0, "no path for a live id", kind="vacuity")
    r.notes.append("paths=%d node kinds: %s" % (len(finals), " ".join(sorted(ex.kinds_seen))))
    return r


def lib_function_names():
    txt = open(os.path.join(core.REPO, LIB)).read()
    names = []
    for m in re.finditer(r"^([A-Za-z_][\w:]*)\s*\(.*\)\s*\n\{", txt, re.M):
        names.append(m.group(1))
    return names


def f_function_names():
    txt = open(os.path.join(core.REPO, FIF)).read()
    return list(dict.fromkeys(m.group(1) for m in re.finditer(r"^([A-Za-z_]\w*F)\s*\(.*\)\s*\n\{", txt, re.M)))


def c_param_names(hdr, cname):
    ptxt = hdr[cname][1].strip()
    if ptxt in ("", "void"):
        return []
    out, depth, cur = [], 0, ""
    for ch in ptxt:
        if ch == "(": depth += 1
        if ch == ")": depth -= 1
        if ch == "," and depth == 0:
            out.append(cur); cur = ""
        else:
            cur += ch
    out.append(cur)
    names = []
    for p_ in out:
        m = re.search(r"\(\s*\*\s*(\w+)\s*\)", p_)
        names.append(m.group(1) if m else re.findall(r"\w+", p_)[-1])
    return names


def one_based_params(cname):
    """(C function, parameter) pairs the C header documents as one-based in the Fortran interface"""
    txt = open(os.path.join(core.REPO, HDR)).read()
    m = re.search(r"IPQ_DLL_EXPORT[^;]*\b%s\s*\(" % re.escape(cname), txt)
    if not m:
        return set()
    ds = txt.rfind("/**", 0, m.start())
    doc = txt[ds:m.start()]
    out = set()
    if re.search(r"\bN is one-based for the Fortran interface", doc):
        out.add("n")
    if re.search(r"COL is 1-based for the Fortran interface", doc):
        out.add("col")
    return out


def unit_fglue(fname, hdr, ev, twin=False):
    """generic contract of a *F function: one call of the same-named C function with *id and the
    dereferenced arguments (documented one-based indices shifted by exactly -1), result passed through,
    strings handed to padfstring(dest, <C result>, len)."""
    uid = "C13.fglue." + fname
    cname = fname[:-1]
    fn = A.find_function(FIF, fname, kind="FunctionDecl")
    r = U.new_unit(uid, FIF, fname, fn)
    if cname not in hdr:
        raise Undecided("no C function %s declared in IPhreeqc.h" % cname)
    cparams = c_param_names(hdr, cname)
    shifted = one_based_params(cname)
    ctx = Ctx(); ctx.enum_values.update(ev); ctx.log_stores = True
    ex = StaticOK(ctx); st = State()
    finals = ex.run(fn, st)
    fparams = A.params_of(fn)
    psyms = [tm.sym("P%d_%s" % (i, p.get("name", "arg%d" % i)), sort_of(p["type"]["qualType"])) for i, p in enumerate(fparams)]
    memI = tm.sym("H0.mem:I", ("A", "P", "I", "I")); memR = tm.sym("H0.mem:R", ("A", "P", "I", "R"))
    rt = strip_type(fn["type"]["qualType"].split("(")[0])
    if len(finals) != 1:
        r.add("single_path", FAILED, "symex", 0, "%d paths: a generic *F wrapper is straight-line" % len(finals)); return r
    s = finals[0]
    evs = [e for e in s.events if e.name != "store"]
    stores = [e for e in s.events if e.name == "store"]
    r.add("writes_no_memory_itself", DISCHARGED if not stores else FAILED, "trace", 0, repr(stores)[:200], kind="frame")
    if not evs or evs[0].name != cname:
        r.add("first_call_is_same_named_C_function", FAILED, "trace", 0, repr(evs)[:300], kind="trace"); return r
    r.add("first_call_is_same_named_C_function", DISCHARGED, "trace", 0, cname, kind="trace")
    e = evs[0]
    if len(e.args) != len(cparams):
        r.add("argument_count", FAILED, "trace", 0, "%d args for %d C parameters" % (len(e.args), len(cparams)), kind="trace"); return r
    for j, (a, cn) in enumerate(zip(e.args, cparams)):
        fp = fparams[j]; q = strip_type(fp["type"]["qualType"])
        if q in ("int *", "double *", "unsigned int *", "long *"):
            so = "R" if q.startswith("double") else "I"
            v = tm.select(memR if so == "R" else memI, psyms[j], tm.num(0, "I"))
            if cn in shifted and so == "I":
                v = tm.sub(v, tm.num(1, "I"))
            if twin and j == 0:
                v = tm.sub(v, tm.num(1, "I"))
            U.discharge_valid(r, "arg%d(%s)==%s*%s" % (j + 1, cn, "" if cn not in shifted else "(-1+)", fp.get("name")), list(s.pc), tm.eq(ex.coerce(a, so), v), kind="trace")
        else:
            same = a is psyms[j]
            r.add("arg%d(%s)_passed_through" % (j + 1, cn), DISCHARGED if same else FAILED, "term-inspection", 0, repr(a)[:80], kind="trace")
    rest = evs[1:]
    nextra = len(fparams) - len(cparams)
    if nextra == 2 and rt == "void":
        ok = len(rest) == 1 and rest[0].name == "padfstring"
        r.add("then_exactly_one_padfstring", DISCHARGED if ok else FAILED, "trace", 0, repr(rest)[:200], kind="trace")
        if ok:
            pa = rest[0].args
            k = len(cparams)
            good = pa[0] is psyms[k] and pa[1] is e.result and pa[2] is psyms[k + 1]
            if twin: good = False
            r.add("padfstring(dest=%s, src=<C result>, len=%s)" % (fparams[k].get("name"), fparams[k + 1].get("name")), DISCHARGED if good else FAILED, "term-inspection", 0, repr(pa)[:200], kind="trace")
    elif nextra == 0:
        r.add("no_other_call", DISCHARGED if not rest else FAILED, "trace", 0, repr(rest)[:200], kind="trace")
        if rt != "void":
            if s.ret is None:
                r.add("returns_value", FAILED, "symex", 0, "")
            else:
                want = ex.coerce(e.result, "I")
                if twin and not any(cn in shifted for cn in cparams): want = tm.add(want, tm.num(1, "I"))
                U.discharge_valid(r, "result_passed_through", list(s.pc), tm.eq(ex.coerce(s.ret, "I"), want))
    else:
        r.add("shape", FAILED, "trace", 0, "unexpected parameter shape: %d extra parameters" % nextra)
    return r


def unit_rowcountF(ev, twin=False):
    fname = "GetSelectedOutputRowCountF"
    fn = A.find_function(FIF, fname, kind="FunctionDecl")
    r = U.new_unit("C13.fglue." + fname, FIF, fname, fn)
    ctx = Ctx(); ctx.enum_values.update(ev); ctx.log_stores = True
    ex = StaticOK(ctx); st = State()
    finals = ex.run(fn, st)
    idv = tm.select(tm.sym("H0.mem:I", ("A", "P", "I", "I")), tm.sym("P0_id", "P"), tm.num(0, "I"))
    for i, s in enumerate(finals):
        evs = [e for e in s.events if e.name != "store"]
        ok = len(evs) == 1 and evs[0].name == "GetSelectedOutputRowCount" and len(evs[0].args) == 1
        r.add("path%d.one_call_of_GetSelectedOutputRowCount" % i, DISCHARGED if ok else FAILED, "trace", 0, repr(evs)[:200], kind="trace")
        if not ok: continue
        U.discharge_valid(r, "path%d.called_with_*id" % i, list(s.pc), tm.eq(evs[0].args[0], idv), kind="trace")
        rows = ex.coerce(evs[0].result, "I")
        # Fortran data rows exclude the heading row: rows-1 when rows > 0, else the (error / empty) value itself
        want = tm.ite(tm.lt(tm.num(0, "I"), rows), tm.sub(rows, tm.num(1 if not twin else 2, "I")), rows)
        U.discharge_valid(r, "path%d.result==rows-1_if_rows>0_else_rows" % i, list(s.pc), tm.eq(ex.coerce(s.ret, "I"), want))
    return r


SPECIAL = {"CreateIPhreeqc", "DestroyIPhreeqc", "GetVersionString", "OutputAccumulatedLines", "OutputErrorString", "OutputWarningString"}


def units(tier):
    ev = enum_tables()
    hdr = header_decls()
    names = [n for n in lib_function_names() if "::" not in n]
    us = []
    missing = [n for n in hdr if n not in names]
    def coverage():
        r = core.UnitResult("C13.wrap.coverage", file=LIB, function="(all extern C functions)", engine=U.ENGINE)
        ok = not missing
        r.add("every_function_declared_in_IPhreeqc.h_is_defined_and_under_contract", DISCHARGED if ok else UNDECIDED, "scan", 0,
              "declared=%d defined=%d missing=%s" % (len(hdr), len(names), missing), kind="vacuity")
        return r
    us.append(("C13.wrap.coverage", coverage))
    seen = set()
    for n in names:
        if n in SPECIAL or n in seen:
            continue
        seen.add(n)
        def mk(n=n):
            r = unit_wrapper(n, hdr, ev)
            if not any(o.status == FAILED for o in r.obligations):
                U.must_fail_twin(r, "vacuity.must_fail_twin", lambda: unit_wrapper(n, hdr, ev, twin=True))
            return r
        us.append(("C13.wrap." + n, mk))
    FSPECIAL = {"GetSelectedOutputValueF", "GetSelectedOutputRowCountF", "CreateIPhreeqcF", "GetVersionStringF"}
    for n in f_function_names():
        if n in FSPECIAL:
            continue
        def mkf(n=n):
            r = unit_fglue(n, hdr, ev)
            if not any(o.status == FAILED for o in r.obligations):
                U.must_fail_twin(r, "vacuity.must_fail_twin", lambda: unit_fglue(n, hdr, ev, twin=True))
            return r
        us.append(("C13.fglue." + n, mkf))
    def mkrc():
        r = unit_rowcountF(ev)
        U.must_fail_twin(r, "vacuity.must_fail_twin", lambda: unit_rowcountF(ev, twin=True))
        return r
    us.append(("C13.fglue.GetSelectedOutputRowCountF", mkrc))
    from props import c13_registry as RG
    from props.common import wrap as _wrap
    _wrap(us, "C13.registry.ids_never_reused", RG.unit_registry)
    _wrap(us, "C13.switches.simple_store", RG.unit_switch_store)
    _wrap(us, "C13.file_names.defaults_embed_user_number_and_instance_id", RG.unit_default_file_names)
    return us


def run(tier, seed, only, jobs):
    t0 = time.time()
    U.TIER.update(tier=tier, seed=seed)
    us = units(tier)
    from props.common import ext_units as _ext
    us += _ext("C13")
    if only:
        us = [x for x in us if only in x[0]]
    res = core.run_units(us, jobs=jobs)
    return core.finish(PID, tier, seed, "proof", res, t0,
        checker_cmd="astvc: clang++ -Xclang -ast-dump=json of the real TU -> path-wise symbolic execution with a ghost call trace -> z3 5.1",
        trusted_base=["clang 14 AST", "astvc VC generator (vf/astvc)", "z3 5.1"],
        assumptions=["IPhreeqcLib::GetInstance is a pure function of id (its own contract is unit C13.registry.GetInstance)",
                     "result ranges of forwarded-to VRESULT methods are read from the method's own return statements"],
        explanation="Generic forwarding contract generated per function from IPhreeqc.h; behaviour of the forwarded-to methods is not part of this property's units.")
