"""C14 (helper units, second batch): the TEXT side of the numbered-entity keywords - how "n", "-n", "n-m", "-n-m" on a COPY / SAVE / USE / DELETE
line or in a definition header become the numbers the store is addressed with.

The numbers are produced by library calls whose effect is fixed (sscanf, strstr, std::string::find/replace, std::replace); what the code under contract
decides is WHICH buffer position the range dash is searched from (after the first character: the sign of a negative first number must survive),
WHAT replaces it (one blank for one dash), which text is then scanned with which format into which variables, and where those variables go.
These are obligations on the argument terms of the call events of a symbolic execution, not on source text."""
import re
from vf.core import Undecided, FAILED, DISCHARGED, UNDECIDED
from vf.astvc import ast as A, terms as tm, unit as U, backends as B
from vf.astvc import symex as SX
from props.common import ctx, fld, fld0, live, writes, stop_on_error_msg, THIS, cases, text_of, region, strip, Sel, local

RD = "src/phreeqcpp/read.cpp"
UT = "src/phreeqcpp/utilities.cpp"
NK = "src/phreeqcpp/NumKeyword.cxx"
SBL = "src/phreeqcpp/StorageBinList.cpp"
UTILS = "src/phreeqcpp/common/Utils.cxx"
ZERO, ONE = tm.num(0, "I"), tm.num(1, "I")
DIGIT = tm.num(6, "I")
KINDS = {"SOLUTION": "solution", "EQUILIBRIUM_PHASES": "pp_assemblage", "REACTION": "reaction", "MIX": "mix", "EXCHANGE": "exchange", "SURFACE": "surface",
         "REACTION_TEMPERATURE": "temperature", "REACTION_PRESSURE": "pressure", "GAS_PHASE": "gas_phase", "KINETICS": "kinetics", "SOLID_SOLUTIONS": "ss_assemblage"}


def short(e):
    return e.name.split("::")[-1]


def lval(info, ex, s, name):
    """current value of a (possibly address-taken) scalar local"""
    v = s.locals.get(info["names"][name])
    if isinstance(v, tuple) and v[0] == "obj":
        return tm.select(ex.heap_arr(s, ("m", "I")), v[1], ZERO)
    if isinstance(v, tuple):
        raise Undecided("local %s is not a scalar" % name)
    return v


class Agg(object):
    """many paths, few facts: one obligation per fact, discharged when it held on every path it was demanded on; failures are listed (first few)"""
    def __init__(self, r):
        self.r, self.n, self.bad = r, {}, {}
    def add(self, name, ok, detail=""):
        self.n[name] = self.n.get(name, 0) + 1
        if not ok:
            self.bad.setdefault(name, []).append(detail)
    def valid(self, name, hyps, goal):
        self.add(name, goal is tm.TRUE or B.z3_prove(hyps, goal)[0] == "proved", "counterexample to %r" % (goal,))
    def flush(self, expected=()):
        for name in list(expected) + [k for k in self.n if k not in expected]:
            if name not in self.n:
                self.r.add(name, UNDECIDED, "symex", 0, "no path demanded this fact"); continue
            b = self.bad.get(name)
            self.r.add(name, FAILED if b else DISCHARGED, "symex+z3", 0, ("%d of %d paths: %s" % (len(b), self.n[name], b[0]))[:300] if b else "%d paths" % self.n[name])


def lit(e):
    """text of a string-literal argument term, or None"""
    m = re.match(r'^"(.*)"$', repr(e), re.S)
    return m.group(1) if m else None


def scanning_ctx(**kw):
    """sscanf(text, fmt, p0, p1, ..): j = 0..#conversions values are converted; the first j destinations receive fresh values scan<call>_<k>"""
    c = stop_on_error_msg(ctx(**kw))
    counter = {"n": 0}
    def sscanf(ex_, st, n, name, recv, args):
        fmt = lit(args[1]) or ""
        nconv = fmt.count("%d")
        prev = len([e for e in st.events if short(e) == "sscanf"])
        out = []
        for j in range(0, nconv + 1):
            s2 = st.clone()
            for k, p in enumerate(args[2:2 + j]):
                v = tm.sym("scan%d_%d" % (prev, k), "I")
                if p.op == "app" and str(p.args[0]).startswith("fld:"):
                    ex_.store(s2, ("field", str(p.args[0])[4:], p.args[1]), v, "I")
                else:
                    ex_.store(s2, ("elem", p, ZERO), v, "I")
            res = tm.num(j, "I")
            s2.events.append(SX.Event(name, recv, list(args), res, n))
            out.append((s2, res))
        return out
    c.handlers["sscanf"] = sscanf
    return c


def token_reads(s, events=None):
    """[(copy_token event, [events up to the next copy_token])] of a path"""
    ev = events if events is not None else s.events
    idx = [k for k, e in enumerate(ev) if short(e) == "copy_token"]
    return [(ev[k], ev[k + 1:(idx[j + 1] if j + 1 < len(idx) else len(ev))]) for j, k in enumerate(idx)]


def check_range_surgery(r, label, buf, seg, must_keep_sign=True):
    if isinstance(r, Agg):
        return _check_range_surgery_agg(r, label, buf, seg)
    """the events between reading a token into `buf` and the end of its use: one replace("-", " ", buf + 1), then sscanf(buf, "%d%d", &a, &b)"""
    rp = [e for e in seg if short(e) == "replace"]
    sc = [e for e in seg if short(e) == "sscanf"]
    ok1 = len(rp) == 1 and lit(rp[0].args[0]) == "-" and lit(rp[0].args[1]) == " "
    r.add(label + ".the_range_dash_is_replaced_once_by_one_blank", DISCHARGED if ok1 else FAILED, "trace", 0, repr([e.args for e in rp])[:160])
    if ok1 and must_keep_sign:
        start = rp[0].args[2]
        good = B.z3_prove([], tm.eq(start, tm.add(buf, ONE)))[0] == "proved" if start.sort == buf.sort else False
        r.add(label + ".the_dash_is_searched_from_the_second_character_(a_leading_minus_sign_is_kept)", DISCHARGED if good else FAILED, "trace+z3", 0, "search starts at %r, token at %r" % (start, buf))
    ok2 = len(sc) == 1 and sc[0].args[0] is buf and lit(sc[0].args[1]) == "%d%d" and len(sc[0].args) == 4 and sc[0].args[2] is not sc[0].args[3]
    r.add(label + ".the_whole_token_is_scanned_as_two_integers", DISCHARGED if ok2 else FAILED, "trace", 0, repr([e.args for e in sc])[:200])
    if ok1 and ok2:
        order = seg.index(rp[0]) < seg.index(sc[0])
        r.add(label + ".split_before_scan", DISCHARGED if order else FAILED, "trace", 0, "")
    return sc[0] if ok2 else None


def _check_range_surgery_agg(g, label, buf, seg):
    rp = [e for e in seg if short(e) == "replace"]
    sc = [e for e in seg if short(e) == "sscanf"]
    ok1 = len(rp) == 1 and lit(rp[0].args[0]) == "-" and lit(rp[0].args[1]) == " "
    g.add(label + ".the_range_dash_is_replaced_once_by_one_blank", ok1, repr([e.args for e in rp])[:160])
    if ok1:
        start = rp[0].args[2]
        good = start.sort == buf.sort and B.z3_prove([], tm.eq(start, tm.add(buf, ONE)))[0] == "proved"
        g.add(label + ".the_dash_is_searched_from_the_second_character_(a_leading_minus_sign_is_kept)", good, "search starts at %r, token at %r" % (start, buf))
    ok2 = len(sc) == 1 and sc[0].args[0] is buf and lit(sc[0].args[1]) == "%d%d" and len(sc[0].args) == 4 and sc[0].args[2] is not sc[0].args[3]
    g.add(label + ".the_whole_token_is_scanned_as_two_integers", ok2, repr([e.args for e in sc])[:200])
    if ok1 and ok2:
        g.add(label + ".split_before_scan", seg.index(rp[0]) < seg.index(sc[0]), "")
    return sc[0] if ok2 else None


# ------------------------------------------------------------------------------------------------------------------------ COPY
def unit_read_copy_tokens(twin=False):
    q = "Phreeqc::read_copy"
    fn = A.find_function(RD, q)
    r = U.new_unit("C14.read_copy.source_and_target_numbers_reach_the_request_as_written_(sign_kept,_range_split)", RD, q, fn)
    body = A.body_of(fn).get("inner", [])
    sw = [k for k, x in enumerate(body) if x.get("kind") == "SwitchStmt"]
    if len(sw) != 2:
        raise Undecided("read_copy: two switches expected")
    ev = A.enum_values_compiled("Phreeqc.h", ["Keywords::KEY_" + k for k in list(KINDS) + ["NONE"]])
    c = scanning_ctx(functional=("strstr",))
    c.enum_values.update({k.split("::")[-1]: v for k, v in ev.items()})
    f, ex, fin, info = region(RD, q, body[sw[0] + 1:], c)
    nadd = nerr = 0; kinds = set(); g = Agg(r)
    for s in live(fin, ("ret", "run")):
        reads = token_reads(s)
        adds = [e for e in s.events if short(e) == "copier_add"]
        if not adds:
            continue
        nadd += 1
        if len(reads) != 2:
            g.add("two_tokens_read_(source,_target)", False, "%d copy_token calls" % len(reads)); continue
        (t1, seg1), (t2, seg2) = reads
        buf1, buf2 = t1.args[0], t2.args[0]
        # source: a single integer, sign and all
        sc1 = [e for e in seg1 if short(e) == "sscanf"]; rp1 = [e for e in seg1 if short(e) == "replace"]
        ok = len(sc1) == 1 and sc1[0].args[0] is buf1 and lit(sc1[0].args[1]) == "%d" and not rp1
        g.add("source_token_scanned_as_one_integer_without_any_surgery", ok, repr([e.args for e in sc1 + rp1])[:200])
        sc2 = check_range_surgery(g, "target", buf2, seg2)
        g.valid("request_only_when_both_tokens_are_numbers", list(s.pc), tm.and_(tm.eq(t1.result, DIGIT), tm.eq(t2.result, DIGIT)))
        if not (ok and sc2 is not None):
            continue
        src = tm.sym("scan0_0", "I"); a = tm.sym("scan1_0", "I"); b = tm.sym("scan1_1", "I")
        j1, j2 = sc1[0].result, sc2.result
        if (tm.isnum(j1) and j1.args[0] == 0) or (tm.isnum(j2) and j2.args[0] == 0):
            continue        # nothing converted from a token classified as a number: cannot happen (copy_token's DIGIT means it starts like a number)
        end = a if (tm.isnum(j2) and j2.args[0] == 1) else b
        if twin:
            end = a
        good = all(len(e.args) == 4 and e.args[1] is src and e.args[2] is a and e.args[3] is end for e in adds)
        g.add("every_request_gets_(source,_first,_second_or_first_again_for_a_single_number)", good, repr([e.args[1:] for e in adds[:2]])[:200])
        kinds.add(len(adds))
    for s in live(fin, ("ret",)):
        reads = token_reads(s)
        adds = [e for e in s.events if short(e) == "copier_add"]
        if adds or not reads:
            continue
        # a token that is not a number: ERROR and no request
        bad = [t for t, seg in reads if B.z3_prove(list(s.pc), tm.eq(t.result, DIGIT))[0] != "proved"]
        if bad:
            nerr += 1
            g.valid("non_numeric_token.is_an_error_and_records_nothing", list(s.pc), tm.eq(s.ret, ZERO))
    g.flush()
    r.add("reach.requests_for_single_kinds_and_cell", DISCHARGED if nadd >= 20 and kinds >= {1, 11} and nerr >= 2 else UNDECIDED, "symex", 0, "%d request paths, request counts %r, %d error paths" % (nadd, sorted(kinds), nerr), kind="vacuity")
    r.assumptions += ["sscanf converts leading integers in order and stores them in its destinations, returning their count; copy_token returns DIGIT (6) for a token that starts like a number",
                      "Phreeqc::replace(char*) replaces the first occurrence at or after the position given (C14.replace.*)", "which list a kind's request goes to: C14.read_copy.request_recorded_for_the_named_kind_with_source_and_range"]
    return r


# ------------------------------------------------------------------------------------------------------------------------ SAVE / USE
def _number_loop(q):
    fn = A.find_function(RD, q)
    ls = [x for x in A.walk(fn) if x.get("kind") in ("ForStmt", "WhileStmt", "DoStmt")]
    cand = [k for k, l in enumerate(ls) if any(y.get("kind") == "CallExpr" and text_of(RD, y).startswith("copy_token(") for y in A.walk(l))]
    if len(cand) != 1:
        raise Undecided("%s: number-reading loop not found" % q)
    return fn, cand[0]


def unit_read_save_tokens(twin=False):
    q = "Phreeqc::read_save"
    fn, o = _number_loop(q)
    r = U.new_unit("C14.read_save.number_or_range_is_recorded_as_written_(sign_kept,_range_split,_default_1)", RD, q, fn)
    c = scanning_ctx()
    f, ex, res, info = U.run_loop_isolated(RD, q, o, ctx=c)
    nd = ne = 0; g = Agg(r)
    for s in live(res):
        ev = U.iter_events(s)
        reads = token_reads(s, ev)
        if len(reads) != 1:
            g.add("one_token_per_pass", False, "%d" % len(reads)); continue
        t, seg = reads[0]
        nu, nue = lval(info, ex, s, "n_user"), lval(info, ex, s, "n_user_end")
        sc = [e for e in seg if short(e) == "sscanf"]
        if sc:
            nd += 1
            g.valid("number.only_for_a_numeric_token", list(s.pc), tm.eq(t.result, DIGIT))
            sc2 = check_range_surgery(g, "number", t.args[0], seg)
            if sc2 is not None and s.status == "brk":
                a, b = tm.sym("scan0_0", "I"), tm.sym("scan0_1", "I")
                j = sc2.result
                if tm.isnum(j) and j.args[0] >= 1:
                    g.valid("number.first_number_recorded", list(s.pc), tm.eq(nu, a))
                    g.valid("number.end_is_the_second_number_or_the_first_again", list(s.pc), tm.eq(nue, a if (j.args[0] == 1 or twin) else b))
        elif s.status == "brk":
            ne += 1
            g.valid("no_number.defaults_to_1-1", list(s.pc), tm.and_(tm.eq(nu, ONE), tm.eq(nue, ONE)))
    g.flush()
    r.add("reach.number_and_default", DISCHARGED if nd >= 2 and ne >= 1 else UNDECIDED, "symex", 0, "%d/%d" % (nd, ne), kind="vacuity")
    r.assumptions += ["as C14.read_copy.source_and_target_numbers_reach_the_request_as_written_*", "where the two numbers go: C14.read_save.range_recorded_for_the_named_kind_only",
                      "a negative number is then rejected by the `n_user < 0` test that follows the scan - which can only see it if the sign survived the range surgery"]
    return r


def unit_read_use_tokens(twin=False):
    q = "Phreeqc::read_use"
    fn, o = _number_loop(q)
    r = U.new_unit("C14.read_use.number_is_read_as_written_none_is_-2_default_1", RD, q, fn)
    c = scanning_ctx(functional=("strstr",))
    f, ex, res, info = U.run_loop_isolated(RD, q, o, ctx=c)
    nd = ne = nn = 0
    for s in live(res):
        ev = U.iter_events(s)
        reads = token_reads(s, ev)
        if len(reads) != 1:
            r.add("one_token_per_pass", FAILED, "trace", 0, "%d" % len(reads)); continue
        t, seg = reads[0]
        nu = lval(info, ex, s, "n_user")
        sc = [e for e in seg if short(e) == "sscanf"]; rp = [e for e in seg if short(e) == "replace"]
        if sc:
            nd += 1
            ok = len(sc) == 1 and sc[0].args[0] is t.args[0] and lit(sc[0].args[1]) == "%d" and not rp
            r.add("number#%d.token_scanned_as_one_integer_without_any_surgery" % nd, DISCHARGED if ok else FAILED, "trace", 0, repr([e.args for e in sc + rp])[:200])
            U.discharge_valid(r, "number#%d.only_for_a_numeric_token" % nd, list(s.pc), tm.eq(t.result, DIGIT))
            if tm.isnum(sc[0].result) and sc[0].result.args[0] == 1 and s.status == "brk":
                U.discharge_valid(r, "number#%d.recorded" % nd, list(s.pc), tm.eq(nu, tm.sym("scan0_0", "I") if not twin else ONE))
        elif s.status == "brk":
            if B.z3_prove(list(s.pc), tm.eq(t.result, tm.num(2, "I")))[0] == "proved":
                ne += 1
                r.add("no_number#%d.end_of_line_means_number_1" % ne, DISCHARGED if tm.isnum(nu) and nu.args[0] == 1 else FAILED, "symex", 0, repr(nu))
            else:
                nn += 1
                r.add("none#%d.a_word_(none)_is_recorded_as_-2" % nn, DISCHARGED if tm.isnum(nu) and nu.args[0] == -2 else FAILED, "symex", 0, repr(nu))
                U.discharge_valid(r, "none#%d.only_for_a_token_that_is_neither_a_number_nor_the_end_of_the_line" % nn, list(s.pc), tm.and_(tm.not_(tm.eq(t.result, DIGIT)), tm.not_(tm.eq(t.result, tm.num(2, "I")))))
    r.add("reach.number_default_none", DISCHARGED if nd >= 2 and ne >= 1 and nn >= 1 else UNDECIDED, "symex", 0, "%d/%d/%d" % (nd, ne, nn), kind="vacuity")
    r.assumptions += ["EMPTY == 2 (global_structures.h)", "where the number goes: C14.read_use.number_and_flag_recorded_for_the_named_kind_only"]
    return r


# ------------------------------------------------------------------------------------------------------------------------ replace
def unit_replace_forms(twin=False):
    r = U.new_unit("C14.replace.first_occurrence_is_replaced_the_rest_of_the_text_is_kept_(char*_and_std::string_forms)", UT, "Phreeqc::replace", A.find_function(UT, "Phreeqc::replace", param_types=["const char *", "const char *", "char *"]))
    # (1) char* form
    c = ctx(functional=("strstr", "strlen"))
    f, ex, fin, info = U.run_function(UT, "Phreeqc::replace", ctx=c, find_kw={"param_types": ["const char *", "const char *", "char *"]})
    S, S1, S2 = tm.sym("P2_str", "P"), tm.sym("P0_str1", "P"), tm.sym("P1_str2", "P")
    p = tm.app("call:strstr", (tm.NULL, S, S1), "P")
    L = lambda x: tm.app("call:strlen", (tm.NULL, x), "I")
    off = tm.app("ptrdiff", (p, S), "I")
    nf = nn = 0
    for s in live(fin, ("ret",)):
        mm = [e for e in s.events if short(e) in ("memmove", "memcpy", "strcpy", "strncpy", "memset")]
        for hy, found in cases(list(s.pc), tm.not_(tm.eq(p, tm.NULL))):
            if not found:
                nn += 1
                r.add("char*.absent#%d.returns_FALSE_and_writes_nothing" % nn, DISCHARGED if not mm and tm.isnum(s.ret) and s.ret.args[0] == 0 else FAILED, "trace", 0, repr(mm)[:120])
                continue
            nf += 1
            mv = [e for e in mm if short(e) == "memmove"]; cp = [e for e in mm if short(e) == "memcpy"]
            ok = len(mv) == 1 and len(cp) == 1 and len(mm) == 2 and s.events.index(mv[0]) < s.events.index(cp[0])
            r.add("char*.found#%d.tail_moved_then_replacement_copied_in" % nf, DISCHARGED if ok else FAILED, "trace", 0, repr([short(e) for e in mm]))
            if not ok:
                continue
            U.discharge_valid(r, "char*.found#%d.tail_goes_right_behind_the_replacement" % nf, hy, tm.eq(mv[0].args[0], tm.add(p, L(S2))))
            U.discharge_valid(r, "char*.found#%d.tail_starts_right_behind_the_match" % nf, hy, tm.eq(mv[0].args[1], tm.add(p, L(S1))))
            want_n = tm.add(tm.sub(tm.sub(L(S), off), L(S1)), ONE if not twin else ZERO)
            U.discharge_valid(r, "char*.found#%d.tail_length_is_the_rest_of_the_text_with_its_terminator" % nf, hy, tm.eq(mv[0].args[2], want_n))
            U.discharge_valid(r, "char*.found#%d.replacement_written_over_the_match" % nf, hy, tm.and_(tm.eq(cp[0].args[0], p), tm.eq(cp[0].args[1], S2), tm.eq(cp[0].args[2], L(S2))))
            r.add("char*.found#%d.returns_TRUE" % nf, DISCHARGED if tm.isnum(s.ret) and s.ret.args[0] == 1 else FAILED, "symex", 0, repr(s.ret))
    # (2) std::string forms with a verdict: Phreeqc::replace(const char*, const char*, std::string&) and Utilities::replace
    for rel, q, kw in ((UT, "Phreeqc::replace", {"param_types": ["const char *", "const char *", "std::string &"]}), (UTILS, "Utilities::replace", None)):
        try:
            c2 = ctx(functional=("strlen",))
            f2, ex2, fin2, info2 = U.run_function(rel, q, ctx=c2, find_kw=kw)
        except Undecided as e:
            r.add("%s.string_form_executed" % q, UNDECIDED, "symex", 0, str(e)[:160]); continue
        k1 = k2 = 0
        for s in live(fin2, ("ret",)):
            fd = [e for e in s.events if short(e) == "find"]
            rp = [e for e in s.events if short(e) == "replace"]
            if not fd:
                r.add("%s.searches_the_text" % q, FAILED, "trace", 0, ""); continue
            pos = fd[0].result
            npos = tm.sym("G.npos", pos.sort)
            for hy, found in cases(list(s.pc), tm.not_(tm.eq(pos, npos))):
                if found:
                    k1 += 1
                    ok = len(rp) == 1 and rp[0].args[0] is pos and repr(rp[0].args[1]).startswith("call:strlen(") and repr(fd[0].args[0]) in repr(rp[0].args[1]) and rp[0].args[2] is not fd[0].args[0]
                    r.add("%s.found#%d.exactly_the_match_(position_found,_length_of_the_pattern)_is_replaced_once" % (q, k1), DISCHARGED if ok else FAILED, "trace", 0, repr([e.args for e in rp])[:200])
                    U.discharge_valid(r, "%s.found#%d.returns_true" % (q, k1), hy, tm.to_bool(s.ret))
                    st0 = fd[0].args[1] if len(fd[0].args) > 1 else None
                    r.add("%s.found#%d.search_starts_at_the_beginning" % (q, k1), DISCHARGED if st0 is None or "defaultarg" in repr(st0) or (tm.isnum(st0) and st0.args[0] == 0) else FAILED, "trace", 0, repr(st0))
                else:
                    k2 += 1
                    r.add("%s.absent#%d.text_untouched" % (q, k2), DISCHARGED if not rp else FAILED, "trace", 0, repr(rp)[:100])
                    U.discharge_valid(r, "%s.absent#%d.returns_false" % (q, k2), hy, tm.not_(tm.to_bool(s.ret)))
        r.add("reach.%s" % q, DISCHARGED if k1 >= 1 and k2 >= 1 else UNDECIDED, "symex", 0, "%d/%d" % (k1, k2), kind="vacuity")
    r.add("reach.char*", DISCHARGED if nf >= 1 and nn >= 1 else UNDECIDED, "symex", 0, "%d/%d" % (nf, nn), kind="vacuity")
    r.assumptions += ["strstr returns the first occurrence at or after the start given, strlen the length; memmove/memcpy copy their byte counts (C library)", "std::string::find / replace(pos, len, text) (libstdc++)",
                      "capacity of the destination when the replacement is longer than the match is the caller's business (C08.sites.*); every surgery call here replaces one character by one character",
                      "the void form Phreeqc::replace(std::string&, ..) (replace ALL occurrences) is not used for numbers and is not under this contract"]
    return r


# ---------------------------------------------------------------------------------------------- cxxNumKeyword: header "KEYWORD n[-m] text"
def unit_numkey_string_surgery(twin=False):
    q = "cxxNumKeyword::read_number_description"
    KW = {"type_contains": "std::string"}
    fn0 = A.find_function(NK, q, **KW)
    r = U.new_unit("C14.read_number_description(std::string).range_dash_split_with_the_sign_of_a_negative_first_number_kept", NK, q, fn0)
    blk = [x for x in A.body_of(fn0)["inner"] if x.get("kind") == "IfStmt" and any(y.get("kind") == "CallExpr" and text_of(NK, y).startswith("sscanf(") for y in A.walk(x))]
    if len(blk) != 1:
        raise Undecided("number-reading statement not found")
    c = scanning_ctx(functional=("copy_token",))
    f, ex, fin, info = U.run_region(NK, q, Sel(blk), ctx=c, find_kw=KW)
    nneg = npos = 0
    for s in live(fin, ("run", "ret")):
        sc = [e for e in s.events if short(e) == "sscanf"]
        if not sc:
            continue
        rp = [e for e in s.events if short(e) == "replace" and e.recv is None]
        first = [e for e in s.events if short(e) == "operator[]"]
        minus = None
        if first:
            ch = tm.select(ex.heap_arr(s, ("m", "I")), first[0].result, ZERO)
            minus = tm.eq(ch, tm.num(45, "I"))
        if minus is None or not (tm.isnum(first[0].args[0]) and first[0].args[0].args[0] == 0):
            r.add("first_character_examined", FAILED, "trace", 0, repr(first)[:120]); continue
        cut = [e for e in s.events if short(e) == "operator=" and "substr(" in repr(e.args[0])]
        glue = [e for e in s.events if short(e) == "operator+"]
        ok1 = len(rp) == 1 and lit(rp[0].args[0]) == "-" and lit(rp[0].args[1]) == " "
        for hy, neg in cases(list(s.pc), minus if not twin else tm.not_(minus)):
            if neg:
                nneg += 1
                tag = "negative_first_number#%d" % nneg
                okc = len(cut) == 1 and re.search(r"substr\(\w+, 1, ", repr(cut[0].args[0])) is not None and s.events.index(cut[0]) < (s.events.index(rp[0]) if rp else -1)
                r.add(tag + ".the_dash_is_searched_only_behind_the_sign", DISCHARGED if ok1 and okc else FAILED, "trace", 0, repr([e.args for e in cut + rp])[:200])
                okg = len(glue) == 1 and lit(glue[0].recv.args[1] if glue[0].recv is not None and glue[0].recv.op == "app" else glue[0].recv) == "-" and s.events.index(glue[0]) > (s.events.index(rp[0]) if rp else 10 ** 6)
                r.add(tag + ".the_sign_is_put_back_in_front_before_the_scan", DISCHARGED if okg and s.events.index(glue[0]) < s.events.index(sc[0]) else FAILED, "trace", 0, repr(glue)[:160])
            else:
                npos += 1
                tag = "other_first_character#%d" % npos
                r.add(tag + ".first_dash_replaced_by_a_blank_and_nothing_else_done_to_the_token", DISCHARGED if ok1 and not cut and not glue else FAILED, "trace", 0, repr([e.args for e in rp + cut + glue])[:200])
        oks = lit(sc[0].args[1]) == "%d%d" and repr(sc[0].args[2]) == "fld:n_user(this)" and repr(sc[0].args[3]) == "fld:n_user_end(this)"
        r.add("scan#%d.token_scanned_as_start_then_end_of_this_entity" % (nneg + npos), DISCHARGED if oks else FAILED, "trace", 0, repr(sc[0].args)[:200])
    r.add("reach.both_cases", DISCHARGED if nneg >= 2 and npos >= 2 else UNDECIDED, "symex", 0, "%d/%d" % (nneg, npos), kind="vacuity")
    r.assumptions += ["Utilities::replace replaces the first occurrence (C14.replace.*)", "what the scanned numbers become: C14.read_number_description.one_number_is_the_range_n-n", "45 is '-'"]
    return r


def unit_numkey_parser(twin=False):
    """cxxNumKeyword::read_number_description(CParser&) - the header of every *_RAW / *_MODIFY block: same contract as the std::string form"""
    q = "cxxNumKeyword::read_number_description"
    KW = {"type_contains": "CParser"}
    fn0 = A.find_function(NK, q, **KW)
    r = U.new_unit("C14.read_number_description(CParser).n_is_n-n,_n-m_is_n-max(n,m),_no_number_is_1-1,_negative_accepted", NK, q, fn0)
    c = ctx()
    cnt = {"n": 0}
    def extract(ex_, st, n, name, args):
        # is >> x : x receives a fresh value (int target) / char target likewise
        out = []
        for s1, _l in ex_.lv(args[0], st) if args[0].get("valueCategory") == "lvalue" else [(st, None)]:
            for s2, l in ex_.lv(args[1], s1):
                q_ = ex_.qt(args[1])
                so = SX.sort_of(q_)
                k = len([e for e in s2.events if e.name == "extract"])
                v = tm.sym("extracted%d" % k, so)
                ex_.store(s2, l, v, so)
                s2.events.append(SX.Event("extract", None, [tm.strc(q_), v], v, n))
                out.append((s2, tm.sym("stream", "P")))
        return out
    for objt in ("std::basic_istream<char>", "std::istream", "std::basic_istream<char, std::char_traits<char>>"):
        c.handlers["operator>>@" + objt] = extract
        c.handlers[objt + "::operator>>"] = extract
    nl = len([x for x in A.walk(fn0) if x.get("kind") in ("ForStmt", "WhileStmt", "DoStmt")])
    f, ex, fin, info = U.run_function(NK, q, ctx=c, find_kw=KW, modes={k: "skip" for k in range(nl)})
    n1 = n2 = n0 = 0
    for s in live(fin, ("run", "ret")):
        xs = [e for e in s.events if e.name == "extract" and "int" in repr(e.args[0])]
        pk = [e for e in s.events if short(e) == "peek"]
        dg = [e for e in s.events if short(e) == "isdigit"]
        nu, ne = fld(ex, s, "n_user", "I"), fld(ex, s, "n_user_end", "I")
        if not pk or not dg:
            r.add("next_character_examined", FAILED, "trace", 0, ""); continue
        starts = tm.or_(tm.not_(tm.eq(dg[0].result, ZERO)), *[tm.eq(e.result, tm.num(45, "I")) for e in pk[:2]]) if not twin else tm.not_(tm.eq(dg[0].result, ZERO))
        # the character tested by isdigit and the one compared with '-' are the same next character of the stream
        for hy, number in cases(list(s.pc) + [tm.eq(pk[0].result, pk[1].result)] if len(pk) > 1 else list(s.pc), starts):
            if not number:
                n0 += 1
                U.discharge_valid(r, "no_number#%d.range_1-1" % n0, hy, tm.and_(tm.eq(nu, ONE), tm.eq(ne, ONE)))
                r.add("no_number#%d.nothing_extracted" % n0, DISCHARGED if not xs else FAILED, "trace", 0, "")
                continue
            if len(xs) == 1:
                n1 += 1
                U.discharge_valid(r, "one_number#%d.range_n-n" % n1, hy, tm.and_(tm.eq(nu, xs[0].result), tm.eq(ne, xs[0].result)))
            elif len(xs) == 2:
                n2 += 1
                a, b = xs[0].result, xs[1].result
                U.discharge_valid(r, "two_numbers#%d.start==n" % n2, hy, tm.eq(nu, a))
                U.discharge_valid(r, "two_numbers#%d.end==max(n,m)" % n2, hy, tm.eq(ne, tm.ite(tm.lt(b, a), a, b)))
                dash = [e for e in pk if s.events.index(e) > s.events.index(xs[0])]
                okd = bool(dash) and B.z3_prove(hy, tm.eq(dash[0].result, tm.num(45, "I")))[0] == "proved"
                r.add("two_numbers#%d.second_number_only_after_a_dash" % n2, DISCHARGED if okd else FAILED, "trace+z3", 0, "")
            else:
                r.add("number_branch.extracts_one_or_two_integers", FAILED, "trace", 0, "%d" % len(xs))
    r.add("reach.cases", DISCHARGED if n0 >= 1 and n1 >= 1 and n2 >= 2 else UNDECIDED, "symex", 0, "%d/%d/%d" % (n0, n1, n2), kind="vacuity")
    r.assumptions += ["operator>> into an int stores the integer read (sign included); peek() returns the next character without consuming it; two peeks without a read in between see the same character",
                      "the white-space skipping loops are skipped (they consume blanks only)", "the third overload (std::istream&) has no caller in the tree; it lacks the sign test and the end >= start clamp and is NOT under contract"]
    return r


def unit_set_n_user_both(twin=False):
    H = "src/phreeqcpp/NumKeyword.cxx"
    q = "cxxNumKeyword::Set_n_user_both"
    fn = A.find_function(H, q)
    r = U.new_unit("C14.Set_n_user_both.start_and_end_are_the_number_given", H, q, fn)
    f, ex, fin, info = U.run_function(H, q, ctx=ctx())
    x = tm.sym("P0_user_end", "I")
    for k, s in enumerate(live(fin, ("run", "ret"))):
        U.discharge_valid(r, "path%d.n_user==arg" % k, list(s.pc), tm.eq(fld(ex, s, "n_user", "I"), x))
        U.discharge_valid(r, "path%d.n_user_end==arg" % k, list(s.pc), tm.eq(fld(ex, s, "n_user_end", "I"), x if not twin else tm.add(x, ONE)))
        others = sorted({k_[1] for k_ in s.heap if k_[0] == "f" and writes(s, k_)} - {"n_user", "n_user_end"})
        r.add("path%d.nothing_else_written" % k, DISCHARGED if not others else FAILED, "term-inspection", 0, repr(others), kind="frame")
    return r


# ------------------------------------------------------------------------------------------------ DELETE / DUMP / RUN_CELLS number lists
def unit_augment_surgery(twin=False):
    q = "StorageBinListItem::Augment"
    KW = {"type_contains": "std::string"}
    fn = A.find_function(SBL, q, **KW)
    r = U.new_unit("C14.StorageBinListItem.Augment(token).range_dash_split_keeping_the_signs_of_both_numbers", SBL, q, fn)
    body = A.body_of(fn).get("inner", [])
    k = [i for i, x in enumerate(body) if x.get("kind") == "DeclStmt" and any("istringstream" in (d.get("type", {}).get("qualType", "")) for d in x.get("inner", []))]
    if not k:
        raise Undecided("Augment(token): the statement that starts parsing was not found")
    f, ex, fin, info = U.run_region(SBL, q, Sel(body[:k[0]]), ctx=ctx(), find_kw=KW)
    n = nmark = 0
    for s in live(fin, ("run",)):
        n += 1
        tag = "path%d" % n
        reps = [e for e in s.events if short(e) == "replace" and e.recv is None and len(e.args) == 4]
        starts = []
        for e in reps:
            plus = [x for x in s.events if x.result is e.args[0] and short(x) == "operator+"]
            beg = [x for x in s.events if plus and x.result is plus[0].recv and short(x) == "begin"]
            starts.append(bool(plus) and bool(beg) and tm.isnum(plus[0].args[0]) and plus[0].args[0].args[0] == 1)
        chars = [(int(e.args[2].args[0]), int(e.args[3].args[0])) for e in reps if tm.isnum(e.args[2]) and tm.isnum(e.args[3])]
        want = [(45, 32), (38, 45)] if not twin else [(45, 32), (45, 38)]
        r.add(tag + ".dashes_become_blanks_then_the_marker_becomes_a_dash", DISCHARGED if chars == want else FAILED, "trace", 0, repr(chars))
        r.add(tag + ".both_passes_start_at_the_second_character_(sign_of_the_first_number_kept)", DISCHARGED if starts == [True, True] else FAILED, "trace", 0, repr(starts))
        fd = [e for e in s.events if short(e) == "find"]
        mk = [e for e in s.events if short(e) == "replace" and e.recv is not None]
        if not fd or lit(fd[0].args[0]) != "--":
            r.add(tag + ".double_dash_searched", FAILED, "trace", 0, repr(fd)[:100]); continue
        pos = fd[0].result
        for hy, found in cases(list(s.pc), tm.not_(tm.eq(pos, tm.sym("G.npos", pos.sort)))):
            if found:
                nmark += 1
                ok = len(mk) == 1 and mk[0].args[0] is pos and tm.isnum(mk[0].args[1]) and mk[0].args[1].args[0] == 2 and lit(mk[0].args[2]) == " &" and (not reps or s.events.index(mk[0]) < s.events.index(reps[0]))
                r.add(tag + ".double_dash.second_dash_marked_as_the_sign_of_the_second_number_before_the_blanking", DISCHARGED if ok else FAILED, "trace", 0, repr([e.args for e in mk])[:160])
            else:
                r.add(tag + ".no_double_dash.no_marker_inserted", DISCHARGED if not mk else FAILED, "trace", 0, repr(mk)[:100])
    r.add("reach.with_and_without_a_negative_second_number", DISCHARGED if n >= 2 and nmark >= 1 else UNDECIDED, "symex", 0, "%d/%d" % (n, nmark), kind="vacuity")
    r.assumptions += ["std::replace(first, last, old, new) replaces every occurrence in [first, last); std::string::find/replace (libstdc++)", "'&' (38) does not occur in a number token", "the numbers parsed from the result: C14.StorageBinListItem.Augment.single_number_or_whole_range"]
    return r


UNITS = [
    ("C14.read_copy.source_and_target_numbers_reach_the_request_as_written_(sign_kept,_range_split)", unit_read_copy_tokens),
    ("C14.read_save.number_or_range_is_recorded_as_written_(sign_kept,_range_split,_default_1)", unit_read_save_tokens),
    ("C14.read_use.number_is_read_as_written_none_is_-2_default_1", unit_read_use_tokens),
    ("C14.replace.first_occurrence_is_replaced_the_rest_of_the_text_is_kept_(char*_and_std::string_forms)", unit_replace_forms),
    ("C14.read_number_description(std::string).range_dash_split_with_the_sign_of_a_negative_first_number_kept", unit_numkey_string_surgery),
    ("C14.read_number_description(CParser).n_is_n-n,_n-m_is_n-max(n,m),_no_number_is_1-1,_negative_accepted", unit_numkey_parser),
    ("C14.Set_n_user_both.start_and_end_are_the_number_given", unit_set_n_user_both),
    ("C14.StorageBinListItem.Augment(token).range_dash_split_keeping_the_signs_of_both_numbers", unit_augment_surgery),
]
