"""C03 ext: mb_gases / mb_ss decide whether the gas phase / a solid solution takes part in the model.
An ABSENT reactant enters only when the solution is supersaturated with it (fixed-pressure gas: sum of partial pressures above the total pressure;
ideal solid solution: sum over components of IAP/K > 1; binary non-ideal: Sigma-pi of the solid below Sigma-pi of the solution with Guggenheim
activity coefficients); a PRESENT one (moles > tolerance) is always in."""
from props.c01_ext_util import *

MODEL = "src/phreeqcpp/model.cpp"
FUN = ("Get_ss_comps", "Get_name", "phase_bsearch", "Get_moles", "Get_a0", "Get_a1", "ss_root", "exp", "Get_ss_in", "Vectorize", "Get_ss_assemblage_ptr", "c_str", "size",
       "Get_gas_phase_ptr", "Get_type", "Get_total_p", "Get_pr_in")


def _exp(x):
    return tm.app("call:exp", (NULLP, x), "R")


def unit_mb_gases(twin=False):
    q = "Phreeqc::mb_gases"
    fn = A.find_function(MODEL, q)
    r = U.new_unit("C03.mb_gases.gas_phase_in_only_when_present_or_supersaturated", MODEL, q, fn)
    c = ctx(functional=FUN)
    f, ex, fin, info = U.run_function(MODEL, q, ctx=c)
    gu = fld0(ex, fin[0], "gas_unknown", "P")
    seen = set()
    for s in lives(fin, ("ret",)):
        hy = list(s.pc)
        G = lambda n, so="R": fld0(ex, s, n, so)
        gu = G("gas_unknown", "P")
        gp = tm.app("call:Get_gas_phase_ptr", (tm.app("fld:use", (THIS,), "P"),), "P")
        final = fld(ex, s, "gas_in", "I")
        none = tm.or_(isnull(gu), isnull(gp))
        for h1, absent in cases(hy, none):
            if absent:
                seen.add("no_gas"); valid(r, "no_gas_phase=>out", h1, tm.eq(final, I(0))); continue
            GP_PRESSURE = tm.sym("E.GP_PRESSURE", "I")
            ty = tm.app("call:Get_type", (gp,), "I")
            for h2, fixedp in cases(h1, tm.eq(ty, GP_PRESSURE)):
                if fixedp:
                    ptot = tm.app("call:Get_total_p", (gp,), "R")
                    supers = tm.lt(ptot + tm.Q("1e-7"), fld0(ex, s, "f", "R", gu)) if not twin else tm.lt(fld0(ex, s, "f", "R", gu), ptot)
                    present = tm.lt(G("MIN_TOTAL"), fld0(ex, s, "moles", "R", gu))
                    for h3, on in cases(h2, tm.or_(supers, present)):
                        seen.add("fixed_pressure.%s" % ("in" if on else "out"))
                        valid(r, "fixed_pressure.%s" % ("present_or_sum_of_partial_pressures_above_total=>in" if on else "absent_and_not_supersaturated=>out"), h3, tm.eq(final, I(1 if on else 0)))
                else:
                    want = tm.and_(tm.to_bool(G("numerical_fixed_volume", "B")), tm.or_(tm.to_bool(tm.app("call:Get_pr_in", (gp,), "B")), tm.to_bool(G("force_numerical_fixed_volume", "B"))))
                    for h3, on in cases(h2, want):
                        seen.add("fixed_volume.%s" % ("in" if on else "out"))
                        valid(r, "fixed_volume.%s" % ("numerical_solution_requested=>in" if on else "analytic_solution=>out"), h3, tm.eq(final, I(1 if on else 0)))
        others = [k for k in s.heap if writes(s, k) and k != ("f", "gas_in", "I")]
        put(r, "frame.only_gas_in_written", not others, repr(others), kind="frame") if others else None
    put(r, "reach.cases", seen >= {"no_gas", "fixed_pressure.in", "fixed_pressure.out", "fixed_volume.in", "fixed_volume.out"}, repr(sorted(seen)), kind="vacuity", undecided=True)
    r.assumptions += ["gas_unknown->f is the sum of the partial pressures (build_gas_phase / mb_sums)", "the 1e-7 atm margin and MIN_TOTAL are the program's tolerances (restated)", "cxxGasPhase getters are pure", "TRUE == 1"]
    return r


def unit_mb_ss(twin=False):
    q = "Phreeqc::mb_ss"
    fn = A.find_function(MODEL, q)
    r = U.new_unit("C03.mb_ss.solid_solution_in_only_when_present_or_supersaturated", MODEL, q, fn)
    _done = set()
    _eqr = globals()["eqr"]
    def eqr(r_, name, hyps, a, b, kind="post"):          # identical obligations met on several paths are discharged once
        key = (name, a, b)
        if key in _done:
            return
        _done.add(key)
        return _eqr(r_, name, hyps, a, b, kind=kind)
    k0 = the_loop(fn, MODEL, "Set_ss_in(", innermost=False, what="loop over the solid solutions")
    f, ex, its, info = run_iter(MODEL, q, k0, ctx(functional=FUN), inner_modes={"*": "iter"})
    seen = set()
    for s in lives(its, ("run", "cont")):
        hy = list(s.pc)
        iv = index_of(s)
        ssp = s.locals.get(info["names"]["ss_ptr"])
        st = [e for e in U.iter_events(s) if e.name.endswith("Set_ss_in")]
        if not put(r, "decision.one_per_solid_solution_on_ITS_record", len(st) == 1 and st[0].recv is ssp, repr([(e.recv, e.args) for e in st])[:200], kind="trace"):
            continue
        on = st[0].args[0] is tm.TRUE
        tmol = local(info, s, "total_moles")
        thr = tm.Q("1e10") * fld0(ex, s, "MIN_TOTAL", "R")
        a0 = tm.app("call:Get_a0", (ssp,), "R"); a1 = tm.app("call:Get_a1", (ssp,), "R")
        nonideal = tm.or_(tm.not_(tm.eq(a0, tm.num(0))), tm.not_(tm.eq(a1, tm.num(0))))
        for h1, present in cases(hy, tm.lt(thr, tmol)):
            if present:
                seen.add("present"); put(r, "present(moles above tolerance)=>in", on, repr(st[0].args)); continue
            for h2, ni in cases(h1, nonideal):
                if not ni:
                    tp = local(info, s, "total_p")
                    for h3, sup in cases(h2, tm.lt(tm.num(1) if not twin else tm.num(0), tp)):
                        seen.add("ideal.%s" % ("in" if sup else "out"))
                        put(r, "absent_ideal.%s" % ("sum_of_component_saturation_ratios_above_1=>in" if sup else "not_supersaturated=>out"), on == sup, repr(st[0].args))
                    continue
                # binary non-ideal: the deciding comparison of the path
                cmpt = [p for p in s.pc if "ss_root" in repr(p) and (p.op == "<" or (p.op == "not" and p.args[0].op == "<"))]
                if not put(r, "absent_nonideal.decided_by_one_comparison", len(cmpt) == 1, "%d" % len(cmpt), kind="trace"):
                    continue
                pos = cmpt[0].op == "<"
                lt_ = cmpt[0] if pos else cmpt[0].args[0]
                lhs, rhs = lt_.args
                seen.add("nonideal.%s" % ("in" if pos else "out"))
                put(r, "absent_nonideal.%s" % ("solid_Sigma_pi_below_aqueous=>in" if pos else "otherwise=>out"), on == pos, repr(st[0].args))
                evs = U.iter_events(s)
                rt = [e for e in evs if e.name.endswith("ss_root")]
                ex_ = [e for e in evs if e.name == "exp" or e.name.endswith("::exp")]
                if not put(r, "absent_nonideal.one_root_and_activity_coefficients_computed", len(rt) == 1 and len(ex_) >= 4, "%d/%d" % (len(rt), len(ex_)), kind="trace"):
                    continue
                xb = rt[0].result; xc = tm.num(1) - xb
                lc, lb = ex_[-2], ex_[-1]
                # Guggenheim (two-parameter) excess free energy: ln lambda_1 = x2^2 (a0 - a1 (3 x1 - x2)), ln lambda_2 = x1^2 (a0 + a1 (3 x2 - x1)), x1 = xc, x2 = xb
                eqr(r, "absent_nonideal.ln_lambda_c==xb^2(a0-a1(3xc-xb))", h2, lc.args[0], xb * xb * (a0 - a1 * (tm.num(3) * xc - xb)))
                eqr(r, "absent_nonideal.ln_lambda_b==xc^2(a0+a1(3xb-xc))", h2, lb.args[0], xc * xc * (a0 + a1 * (tm.num(3) * xb - xc)))
                comps = tm.app("call:Get_ss_comps", (ssp,), "P")
                cdat = tm.select(entry_arr(ex, s, ("f", "#vdata", "P")), comps)
                pbs = [e for e in evs if e.name.endswith("phase_bsearch")]
                def phase_of(k):
                    nm = tm.app("c_str", (tm.select(entry_arr(ex, s, ("m", "S")), tm.app("call:Get_name", (cdat + I(k) if k else cdat,), "P"), I(0)),), "P")
                    hit = [e.result for e in pbs if e.args[0] is nm]
                    return hit[-1] if hit else None
                p0, p1 = phase_of(0), phase_of(1)
                if not put(r, "absent_nonideal.end_members_are_components_0_and_1", p0 is not None and p1 is not None, repr([e.args[0] for e in pbs])[:300], kind="trace"):
                    continue
                ln10 = fld0(ex, s, "LOG_10", "R")
                kc = _exp(fld0(ex, s, "lk", "R", p0) * ln10); kb = _exp(fld0(ex, s, "lk", "R", p1) * ln10)
                eqr(r, "absent_nonideal.Sigma_pi_solid==xb*lambda_b*Kb+xc*lambda_c*Kc", h2, lhs, xb * lb.result * kb + xc * lc.result * kc)
                put(r, "absent_nonideal.root_solved_with_a0_a1_Kc_Kb", rt[0].args[0] is a0 and rt[0].args[1] is a1 and rt[0].args[2] is kc and rt[0].args[3] is kb, repr(rt[0].args[:2]), kind="trace")
                xcaq, xbaq = rt[0].args[4], rt[0].args[5]
                # Sigma-pi aq = IAPc + IAPb and the aqueous fractions are IAP_i / Sigma-pi aq
                eqr(r, "absent_nonideal.aqueous_fractions_sum_to_one", h2 + [tm.not_(tm.eq(rhs, tm.num(0)))], (xcaq + xbaq) * rhs, rhs)
                eqr(r, "absent_nonideal.Sigma_pi_aq==x_c,aq*Sigma+x_b,aq*Sigma", h2 + [tm.not_(tm.eq(rhs, tm.num(0)))], xcaq * rhs + xbaq * rhs, rhs)
    put(r, "reach.decisions", seen >= {"present", "ideal.in", "ideal.out", "nonideal.in", "nonideal.out"}, repr(sorted(seen)), kind="vacuity", undecided=True)
    # accumulations
    acc = {"total_moles": 0, "total_p": 0, "iap": 0, "lp": 0}
    for k, sts in sorted(info["inner_iters"].items()):
        for t in lives(sts, ("run", "cont")):
            L = lambda n: local(info, t, n)
            jv = [v for v in index_of(t) if v is not tm.sym("iter_i", "I")]
            ssp = t.locals.get(info["names"]["ss_ptr"])
            if L("total_moles") is not tm.sym("iter_total_moles", "R") and not str(L("total_moles").args[0]).startswith("havoc"):
                acc["total_moles"] += 1
                comp = tm.select(entry_arr(ex, t, ("f", "#vdata", "P")), tm.app("call:Get_ss_comps", (ssp,), "P")) + jv[0]
                eqr(r, "present.total_moles+=moles_of_component_j", list(t.pc), L("total_moles"), tm.sym("iter_total_moles", "R") + tm.app("call:Get_moles", (comp,), "R"))
            if L("total_p") is not tm.sym("iter_total_p", "R") and L("total_p").op != "sym":
                acc["total_p"] += 1
                lp = L("lp")
                eqr(r, "ideal.total_p+=10^(log IAP - log K)_of_component_j", list(t.pc), L("total_p"), tm.sym("iter_total_p", "R") + _exp(lp * fld0(ex, t, "LOG_10", "R")))
            rp = tm.sym("iter_rxn_ptr", "P")
            term = fld0(ex, t, "la", "R", fld0(ex, t, "s", "P", rp)) * fld0(ex, t, "coef", "R", rp)
            if L("log10_iap") is not tm.sym("iter_log10_iap", "R") and L("log10_iap").op == "+":
                acc["iap"] += 1
                eqr(r, "nonideal.log_IAP+=coef*la", list(t.pc), L("log10_iap"), tm.sym("iter_log10_iap", "R") + term)
            if L("lp") is not tm.sym("iter_lp", "R") and L("lp").op == "+":
                acc["lp"] += 1
                eqr(r, "ideal.log_ratio+=coef*la", list(t.pc), L("lp"), tm.sym("iter_lp", "R") + term)
    put(r, "reach.accumulations", all(v >= 1 for v in acc.values()), repr(acc), kind="vacuity", undecided=True)
    # starting values of the accumulators
    starts = {}
    for k, sts in info["inner_entries"].items():
        for t in sts[:1]:
            for nme in ("total_moles", "total_p", "log10_iap", "lp"):
                v = local(info, t, nme)
                if tm.isnum(v):
                    starts.setdefault(nme, set()).add(v.args[0])
                elif nme == "lp" and v.op == "neg" and "lk" in repr(v):
                    starts.setdefault("lp", set()).add("-lk")
    put(r, "start.total_moles_and_total_p_and_log_IAP_from_0_and_log_ratio_from_-logK", starts.get("total_moles") == {0} and starts.get("total_p") == {0} and starts.get("log10_iap") == {0} and starts.get("lp") == {"-lk"}, repr(starts), kind="establishment")
    # only components whose phase is in the model count
    for k, sts in sorted(info["inner_iters"].items()):
        for t in lives(sts, ("run", "cont")):
            if local(info, t, "total_moles") is tm.sym("iter_total_moles", "R") and any("in:I" in repr(p) for p in t.pc) and k == min(info["inner_iters"]):
                pb = [e for e in U.iter_events(t) if e.name.endswith("phase_bsearch")]
                if pb:
                    valid(r, "present.component_skipped_only_when_its_phase_is_not_in_the_model", list(t.pc), tm.eq(fld0(ex, t, "in", "I", pb[0].result), I(0)))
    # every activity-product walk starts at token 1 of the MODEL form (rxn_x) of a phase and ends at the null species
    nw = 0
    for k, lp in enumerate(loops_of(fn)):
        if lp.get("kind") != "ForStmt" or "rxn_ptr" not in text_of(MODEL, lp["inner"][0] or {}):
            continue
        nw += 1
        f2, ex2, fin2, info2 = region(MODEL, q, [lp["inner"][0]], ctx(functional=FUN))
        for t in lives(fin2)[:1]:
            v = local(info2, t, "rxn_ptr")
            okv = v.op == "+" and tm.isnum(v.args[1]) and v.args[1].args[0] == 1 and v.args[0].op == "select" and "#vdata" in repr(v.args[0].args[0]) \
                and v.args[0].args[1][0].op == "app" and v.args[0].args[1][0].args[0] == "fld:token" and v.args[0].args[1][0].args[1].op == "app" and v.args[0].args[1][0].args[1].args[0] == "fld:rxn_x"
            put(r, "walk%d.starts_at_token_1_of_the_model_form_rxn_x" % nw, okv, repr(v)[:200], kind="establishment")
        drop_head(q, k)
    put(r, "reach.walks", nw == 3, "%d" % nw, kind="vacuity", undecided=True)
    r.assumptions += ["ss_root solves the binary solid-solution composition in equilibrium with the aqueous fractions (not under contract)", "exp uninterpreted; LOG_10 = ln 10", "the 1e10*MIN_TOTAL presence threshold is the program's tolerance (restated)",
                      "doubles as reals"]
    return r


def unit_mb_ss_flags(twin=False):
    q = "Phreeqc::mb_ss"
    fn = A.find_function(MODEL, q)
    r = U.new_unit("C03.mb_ss.component_unknown_in_iff_its_phase_and_its_solid_solution_are_in", MODEL, q, fn)
    k = the_loop(fn, MODEL, "->ss_in=", what="loop over the SS_MOLES unknowns")
    f, ex, its, info = run_iter(MODEL, q, k, ctx(functional=FUN))
    drop_head(q, k)
    SSM = int(hdr_val("SS_MOLES"))
    n = 0
    for s in lives(its, ("run", "cont", "brk")):
        i = index_of(s)[0]
        xi = vec_elem(ex, s, "x", i)
        ty = fld0(ex, s, "type", "I", xi)
        w = writes(s, ("f", "ss_in", "I"))
        if s.status == "brk":
            valid(r, "walk.stops_only_at_the_first_unknown_that_is_not_a_solid_solution_component", list(s.pc), tm.not_(tm.eq(ty, I(SSM))))
            put(r, "walk.stop_writes_nothing", not w, "", kind="frame")
            continue
        n += 1
        valid(r, "flag.only_for_solid_solution_component_unknowns", list(s.pc), tm.eq(ty, I(SSM)))
        ssp = fld0(ex, s, "ss_ptr", "P", xi)
        want = tm.and_(tm.eq(fld0(ex, s, "in", "I", fld0(ex, s, "phase", "P", xi)), I(1)), tm.to_bool(tm.app("call:Get_ss_in", (ssp,), "B")))
        if twin:
            want = tm.to_bool(tm.app("call:Get_ss_in", (ssp,), "B"))
        final = tm.select(ex.heap_arr(s, ("f", "ss_in", "I")), xi)
        for hyc, on in cases(list(s.pc), want):
            valid(r, "flag.%s" % ("phase_in_model_and_solid_solution_in=>unknown_in" if on else "otherwise=>unknown_out"), hyc, tm.eq(final, I(1 if on else 0)))
        put(r, "flag.written_for_THIS_unknown_only", all(ix == (xi,) for ix, v in w), repr([ix for ix, v in w])[:200], kind="frame")
    put(r, "reach.flags", n >= 2, "%d" % n, kind="vacuity", undecided=True)
    lp = loops_of(fn)[k]
    f2, ex2, fin2, info2 = region(MODEL, q, [lp["inner"][0]], ctx(functional=FUN))
    for s in lives(fin2)[:1]:
        v = [x for nme, did in info2["names"].items() for x in [s.locals.get(did)] if nme == "i" and x is not None and not isinstance(x, tuple) and x.op != "sym"]
        su = fld0(ex2, s, "ss_unknown", "P")
        okv = any(proved(list(s.pc), tm.eq(x, fld0(ex2, s, "number", "I", su))) for x in v) or any(proved(list(s.pc), tm.eq(s.locals.get(did), fld0(ex2, s, "number", "I", su))) for did in s.locals if s.locals.get(did) is not None and not isinstance(s.locals.get(did), tuple) and s.locals.get(did).sort == "I" and "ss_unknown" in repr(s.locals.get(did)))
        put(r, "walk.starts_at_the_first_solid_solution_unknown", okv, repr(v)[:200], kind="establishment")
    r.assumptions += ["the SS_MOLES unknowns are contiguous from ss_unknown->number (setup_ss_assemblage: C03.setup_ss_assemblage)", "TRUE == 1"]
    return r


def hdr_val(name):
    from vf.astvc import hdr
    return hdr.define_value("src/phreeqcpp/global_structures.h", name)


UNITS = [
    ("C03.mb_gases.gas_phase_in_only_when_present_or_supersaturated", unit_mb_gases),
    ("C03.mb_ss.solid_solution_in_only_when_present_or_supersaturated", unit_mb_ss),
    ("C03.mb_ss.component_unknown_in_iff_its_phase_and_its_solid_solution_are_in", unit_mb_ss_flags),
]
