"""C03 / C02, fifth batch (helper-written): model.cpp reset(), the final loop "Reset total molalities in mass balance equations".

The amount a mineral (pure phase, solid-solution component, gas) gains or loses in a Newton step is routed by build_pure_phases / build_ss_assemblage /
build_min_exchange / build_min_surface (prep.cpp, store_sum_deltas) into the `delta` of the unknowns that hold the matching totals: mass of hydrogen (MH), mass of
oxygen (MH2O), charge balance (CB) and the unknown of an element's master species - a mole balance (MB), or, for an exchanger / surface tied to a mineral, the
exchanger's (EXCH) or the surface's (SURFACE) own unknown.  Contract of one pass of the final loop, from an arbitrary state:
  * for EVERY type that receives such a delta and is not updated elsewhere - MB, MH, MH2O, CB, EXCH - the total becomes moles + delta (the exchange capacity of an
    exchanger tied to a mineral follows the mineral; H, O and charge stay balanced);
  * SURFACE: the site total was already set from the mineral's new amount earlier in reset(); this loop leaves it as it is (adding the delta again would count it twice);
  * no other unknown (pure phases, solid solutions, gas, activities ...) is touched;
  * the loop runs whenever a pure-phase, gas or solid-solution unknown exists (the three sources of routed deltas).
The targets of every store_sum_deltas call in prep.cpp are classified (text of the target expression) and each class must be one of those the loop serves."""
from props.c01_ext_util import *
from vf.astvc import hdr

MODEL = "src/phreeqcpp/model.cpp"
PREP = "src/phreeqcpp/prep.cpp"
GS = "src/phreeqcpp/global_structures.h"
Q = "Phreeqc::reset"
NEEDLE = "->moles+=x[i]->delta"
ADD = ("MB", "MH", "MH2O", "CB", "EXCH")
ALLT = ("MB", "ALK", "CB", "SOLUTION_PHASE_BOUNDARY", "MU", "AH2O", "MH", "MH2O", "PP", "EXCH", "SURFACE", "SURFACE_CB", "SURFACE_CB1", "SURFACE_CB2", "GAS_MOLES", "SS_MOLES", "PITZER_GAMMA", "SLACK")


def _types():
    out = {}
    for n in ALLT:
        try:
            out[n] = hdr.define_value(GS, n)
        except Exception:
            pass
    return out


def unit_reset_totals(pid="C03", twin=False):
    fn = A.find_function(MODEL, Q)
    uid = "%s.reset.every_total_that_receives_a_routed_mineral_delta_is_updated_by_it_once" % pid
    r = U.new_unit(uid, MODEL, Q, fn)
    TY = _types()
    if any(n not in TY for n in ADD + ("SURFACE", "PP")):
        raise Undecided("unknown-type constants not found in global_structures.h")
    sts = [x for x in A.walk(fn) if (x.get("kind") == "CompoundAssignOperator" or (x.get("kind") == "BinaryOperator" and x.get("opcode") == "=")) and text_of(MODEL, x["inner"][0]).endswith("->moles") and "->delta" in text_of(MODEL, x["inner"][1])]
    if len(sts) != 1:
        raise Undecided("statement that adds an unknown's delta to its moles not found in reset (%d)" % len(sts))
    lps = loops_of(fn)
    ks = [k for k, lp in enumerate(lps) if any(y is sts[0] for y in A.walk(lp))]
    if not ks:
        raise Undecided("the update of the totals is not inside a loop")
    k = ks[-1]
    f, ex, its, info = run_iter(MODEL, Q, k, ctx())
    i = tm.sym("iter_i", "I")
    seen = set()
    want_add = ADD if not twin else ("MB", "MH", "MH2O", "CB")
    for s in lives(its, ("run", "cont")):
        hy = list(s.pc)
        xi = vec_elem(ex, s, "x", i)
        ty = fld0(ex, s, "type", "I", xi)
        m0 = fld0(ex, s, "moles", "R", xi); d0 = fld0(ex, s, "delta", "R", xi)
        m1 = fld(ex, s, "moles", "R", xi)
        other_w = [ix for ix, v in writes(s, ("f", "moles", "R")) if ix != (xi,)]
        put(r, "frame.only_the_total_of_unknown_i_is_written", not other_w, repr(other_w)[:200], kind="frame") if other_w else None
        for n in ADD:
            c = tm.eq(ty, I(TY[n]))
            if sat(hy + [c]):
                seen.add(n)
                if n in want_add:
                    eqr(r, "%s.total:=total+routed_delta" % n, hy + [c], m1, m0 + d0)
                else:
                    eqr(r, "%s.total_unchanged(twin)" % n, hy + [c], m1, m0)
        c = tm.eq(ty, I(TY["SURFACE"]))
        if sat(hy + [c]):
            seen.add("SURFACE")
            eqr(r, "SURFACE.site_total_set_from_the_mineral_is_not_changed_again", hy + [c], m1, m0)
        rest = tm.and_(*[tm.not_(tm.eq(ty, I(TY[n]))) for n in ADD + ("SURFACE",)])
        if sat(hy + [rest]):
            seen.add("rest")
            eqr(r, "other_unknowns(PP,SS_MOLES,GAS_MOLES,...).amount_untouched", hy + [rest], m1, m0, kind="frame")
    put(r, "reach.all_types", seen == set(ADD) | {"SURFACE", "rest"}, repr(sorted(seen)), kind="vacuity", undecided=True)
    # the loop covers every unknown
    its_ = lives(its, ("run", "cont"))
    if its_:
        check_loop_range(r, "loop", ex, ctx(), info, its_, "i", I(0), lambda v: tm.lt(v, fld0(ex, its_[0], "count_unknowns", "I")))
    # ---- the loop is reached whenever a source of routed deltas exists
    guards = [x for x in A.walk(fn) if x.get("kind") == "IfStmt" and any(y is lps[k] for y in A.walk(x["inner"][1]))]
    top = guards[0] if guards else lps[k]
    c2 = ctx()
    def loop(ex_, st, node, o):
        from vf.astvc import symex as SX
        st.events.append(SX.Event("loop#%d" % o, None, [], tm.num(0, "I"), node))
        return ex_.havoc_loop(node, st)
    c2.loop = loop
    f2, ex2, fin2, info2 = region(MODEL, Q, [top], c2)
    nin = nout = 0
    for s in lives(fin2):
        inl = any(e.name == "loop#%d" % k for e in s.events)
        srcs = [fld0(ex2, s, n, "P") for n in ("pure_phase_unknown", "gas_unknown", "ss_unknown")]
        none = tm.and_(*[isnull(p) for p in srcs])
        if inl:
            nin += 1
        else:
            nout += 1
            valid(r, "skipped_only_when_there_is_no_pure_phase_gas_or_solid_solution_unknown", list(s.pc), none)
    put(r, "reach.guard_in_and_out", nin >= 1 and (nout >= 1 or not guards), "%d/%d" % (nin, nout), kind="vacuity", undecided=True)
    # ---- every target of a routed delta (prep.cpp) is of a class this loop (or the SURFACE / SURFACE_CB blocks of reset) serves
    CLASS = (("mass_hydrogen_unknown->delta", "MH"), ("mass_oxygen_unknown->delta", "MH2O"), ("charge_balance_unknown->delta", "CB"),
             ("->unknown->delta", "master unknown (MB | EXCH | SURFACE)"), ("unknown_ptr->delta", "master unknown (MB | EXCH | SURFACE) or MH / MH2O"),
             ("->related_moles", "SURFACE_CB related moles (set in the SURFACE_CB block of reset)"))
    ncall = 0; classes = set()
    for qn in ("Phreeqc::build_pure_phases", "Phreeqc::build_ss_assemblage", "Phreeqc::build_min_exchange", "Phreeqc::build_min_surface", "Phreeqc::build_gas_phase"):
        try:
            g = A.find_function(PREP, qn)
        except Exception:
            continue
        for x in A.walk(g):
            if x.get("kind") in ("CallExpr", "CXXMemberCallExpr") and text_of(PREP, x).startswith("store_sum_deltas("):
                args = [a for a in x["inner"][1:]]
                if len(args) < 3:
                    continue
                ncall += 1
                t = text_of(PREP, args[1])
                cl = [lab for pat, lab in CLASS if pat in t]
                if cl:
                    classes.add(cl[0])
                else:
                    put(r, "routed_delta_target_of_a_known_class[%s]" % qn.split("::")[1], False, "target `%s` is of no class served by reset()" % t, kind="trace", undecided=True)
    put(r, "routed_delta_targets_are_MH_MH2O_CB_master_unknown_or_related_moles", ncall >= 8 and len(classes) >= 4, "%d calls, classes %r" % (ncall, sorted(classes)), kind="trace", undecided=ncall < 8)
    r.assumptions += ["the unknown of a master species is of type MB, EXCH (exchange master) or SURFACE (surface master) in a reaction calculation; ALK / SOLUTION_PHASE_BOUNDARY only occur in initial-solution calculations, which have no pure-phase, gas or solid-solution unknowns",
                      "classification of the store_sum_deltas targets in prep.cpp is by the text of the target expression (which member is addressed)",
                      "the routed deltas themselves (sum_delta list applied earlier in reset): C02.reset.mineral_transfer_is_conservative; the SURFACE site total set from the mineral earlier in reset() is not under this contract",
                      "output_msg / sformatf (debug print) do not change the state", "doubles as reals"]
    return r


UNITS = [
    ("C03.reset.every_total_that_receives_a_routed_mineral_delta_is_updated_by_it_once", lambda twin=False: unit_reset_totals("C03", twin)),
]
