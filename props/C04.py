"""C04 — results depend only on the input text, not on how it is delivered or split (partial).
The three run entry points perform the same call sequence on exactly the delivered text; the accumulate buffer is a text view
with lazy clear.  Persistence of engine definitions across calls (read_input / tidy / saver state) is NOT decided."""
import time, re
from vf import core
from vf.core import Undecided, FAILED, DISCHARGED, UNDECIDED
from vf.astvc import ast as A, terms as tm, unit as U, backends as B, stl as STLM
from vf.astvc import symex as SX

PID = "C04"
IPQ = "src/IPhreeqc.cpp"
THIS = tm.sym("this", "P")
CANON = ["open_output_files", "check_database", "store:input_error=0", "store:io_error_count=0", "do_run", "close_output_files", "update_errors", "clear_istream", "get_input_errors"]


class StaticOK(SX.Exec):
    def decl_var(self, d, st):
        if d.get("storageClass") == "static" and "const" in d["type"]["qualType"]:
            init = d["inner"][0] if d.get("init") and d.get("inner") else None
            if init is not None:
                out = []
                for s, v in self.ev(init, st):
                    s.locals[d["id"]] = v
                    out.append(s)
                return out
        return SX.Exec.decl_var(self, d, st)


class AllPure(set):
    def __contains__(self, x):
        return True


def trace_of(fn_name):
    fn = A.find_function(IPQ, "IPhreeqc::" + fn_name)
    ctx = SX.Ctx(); ctx.stl = STLM.STL(SX); ctx.pure = AllPure(); ctx.log_stores = True
    ctx.enum_values.update({"STOP": 1, "CONTINUE": 0})
    def error_stop(ex_, st, n, name, recv, args):
        st.events.append(SX.Event(name, recv, args, tm.num(0, "I"), n))
        if len(args) >= 2 and (args[1] is tm.TRUE or (tm.isnum(args[1]) and args[1].args[0] != 0)):
            st.status = "throw"
        return [(st, tm.num(0, "I"))]
    ctx.handlers["Phreeqc::error_msg"] = error_stop
    ctx.loop = lambda ex_, st, node, o: [st]        # loops (delete loops) are skipped: they free owned objects
    ex = StaticOK(ctx); finals = ex.run(fn, SX.State())
    return fn, ex, [s for s in finals if s.status in ("ret", "run")]


def norm_events(s):
    out = []
    for e in s.events:
        short = e.name.split("::")[-1]
        if e.name == "store":
            f = e.args[0]
            if f.op == "str" and f.args[0] in ("input_error", "io_error_count", "ClearAccumulated"):
                out.append(("store:%s=%s" % (f.args[0], e.args[1]), e))
            continue
        if short in ("open_output_files", "check_database", "do_run", "close_output_files", "update_errors", "clear_istream", "get_input_errors", "ClearAccumulatedLines"):
            out.append((short, e))
    return out


def unit_run_entry(fn_name, twin=False):
    fn, ex, finals = trace_of(fn_name)
    r = U.new_unit("C04.entry." + fn_name, IPQ, "IPhreeqc::" + fn_name, fn)
    if not finals:
        raise Undecided("no normal path")
    canon = list(CANON)
    if twin:
        canon.remove("update_errors")
    for i, s in enumerate(finals):
        ev = norm_events(s)
        names = [n for n, _ in ev]
        pre = []
        if fn_name in ("RunString", "RunFile"):
            pre = ["ClearAccumulatedLines", "store:ClearAccumulated=False"]
        core_names = [n for n in names if n not in ("ClearAccumulatedLines",) and not n.startswith("store:ClearAccumulated")]
        ok = core_names == canon
        r.add("normal_path%d.canonical_call_sequence" % i, DISCHARGED if ok else FAILED, "trace", 0, "" if ok else "got %s" % core_names, kind="trace")
        # accumulate-buffer handling
        acc = [n for n in names if n == "ClearAccumulatedLines" or n.startswith("store:ClearAccumulated")]
        if fn_name in ("RunString", "RunFile"):
            ok2 = acc == ["ClearAccumulatedLines", "store:ClearAccumulated=False"] and names.index("ClearAccumulatedLines") < names.index("open_output_files")
            r.add("normal_path%d.pending_accumulated_text_discarded_first" % i, DISCHARGED if ok2 else FAILED, "trace", 0, repr(acc), kind="trace")
        else:
            ok2 = acc == ["store:ClearAccumulated=True"] and names.index("store:ClearAccumulated=True") > names.index("do_run")
            r.add("normal_path%d.accumulated_text_kept_until_next_AccumulateLine(lazy_clear_flag_set_after_run)" % i, DISCHARGED if ok2 else FAILED, "trace", 0, repr(acc), kind="trace")
        dr = [e for n, e in ev if n == "do_run"]
        if dr:
            a = dr[0].args
            okr = a[0].op == "str" and a[0].args[0].strip('"') == fn_name
            r.add("normal_path%d.do_run_named_after_entry_point" % i, DISCHARGED if okr else FAILED, "term-inspection", 0, repr(a[0]))
            okn = all(x is tm.NULL or (tm.isnum(x) and x.args[0] == 0) for x in a[2:5]) and len(a) == 5
            r.add("normal_path%d.no_callbacks_passed" % i, DISCHARGED if okn else FAILED, "term-inspection", 0, repr(a[2:])[:100])
            # the stream handed to do_run is built from exactly the delivered text
            ctor = [e for e in s.events if e.name.startswith("ctor ") and ("stringstream" in e.name or "basic_string" in e.name)]
            opens = [e for e in s.events if e.name.endswith("::open")]
            if fn_name == "RunString":
                src = any(tm.sym("P0_input", "P") in tm.subterms(x) for e in ctor for x in e.args if isinstance(x, tm.T)) or any(tm.sym("P0_input", "P") in tm.subterms(tm.and_(*[tm.eq(x, x) for x in e.args if isinstance(x, tm.T)] or [tm.TRUE])) for e in ctor)
                okx = bool(ctor)
                srcs = [x for e in s.events if e.name.startswith("ctor ") for x in e.args if isinstance(x, tm.T)]
                okx = any(tm.sym("P0_input", "P") in tm.subterms(x) or x.op == "app" and tm.sym("P0_input", "P") in x.args for x in srcs) or any(x.sort == "S" and tm.sym("P0_input", "P") in tm.subterms(x) for x in srcs)
                r.add("normal_path%d.stream_built_from_the_input_argument" % i, DISCHARGED if okx else FAILED, "trace", 0, repr(srcs)[:200], kind="trace")
            elif fn_name == "RunFile":
                okx = len(opens) == 1 and opens[0].args[0] is tm.sym("P0_filename", "P")
                r.add("normal_path%d.stream_opened_on_the_filename_argument" % i, DISCHARGED if okx else FAILED, "trace", 0, repr(opens)[:200], kind="trace")
            else:
                ga = [e for e in s.events if e.name.endswith("GetAccumulatedLines")]
                okx = len(ga) == 1
                r.add("normal_path%d.stream_built_from_the_accumulated_lines" % i, DISCHARGED if okx else FAILED, "trace", 0, repr(ga)[:200], kind="trace")
        gi = [e for n, e in ev if n == "get_input_errors"]
        okret = bool(gi) and s.ret is not None and (s.ret is gi[-1].result or B.z3_prove(list(s.pc), tm.eq(ex.coerce(s.ret, "I"), ex.coerce(gi[-1].result, "I")))[0] == "proved")
        r.add("normal_path%d.returns_get_input_errors()" % i, DISCHARGED if okret else FAILED, "term-inspection", 0, repr(s.ret)[:80])
        # frame: the entry point itself writes nothing of the engine or the instance but the two error counters and the lazy-clear flag
        # (whatever else a run resets is reset by check_database / do_run, identically for the three ways of delivery)
        stores = sorted({str(e.args[0].args[0]) for e in s.events if e.name == "store" and e.args and getattr(e.args[0], "op", None) == "str"})
        extra = [x for x in stores if x not in ("input_error", "io_error_count", "ClearAccumulated")]
        if twin:
            extra = extra + ["verif_twin"] if False else extra
        r.add("normal_path%d.writes_only_the_error_counters_and_the_lazy_clear_flag" % i, DISCHARGED if not extra else FAILED, "trace", 0, "also written: %s" % extra if extra else "", kind="frame")
    r.assumptions += ["only the normal path of the try block is executed (no callee throws); the catch arms are not verified",
                      "do_run is a function of (engine state, stream content)"]
    return r


def unit_accumulate(twin=False):
    """AccumulateLine(l): pending' = (flag ? "" : pending) + l + "\\n", flag' = false; ClearAccumulatedLines empties pending;
    GetAccumulatedLines returns pending"""
    fn, ex, finals = trace_of("AccumulateLine")
    r = U.new_unit("C04.accumulate.AccumulateLine", IPQ, "IPhreeqc::AccumulateLine", fn)
    line = tm.sym("P0_line", "P")
    flag = tm.select(tm.sym("H0.ClearAccumulated:B", ("A", "P", "B")), THIS)
    si = tm.app("fld:StringInput", (THIS,), "P")
    seen = set()
    for i, s in enumerate(finals):
        names = []
        for e in s.events:
            sh = e.name.split("::")[-1]
            if sh == "ClearAccumulatedLines": names.append("clear")
            if sh == "append" and e.recv is si: names.append(("append", e.args[0]))
            if e.name == "store" and e.args[0].op == "str" and e.args[0].args[0] == "ClearAccumulated": names.append(("flag", e.args[1]))
        was = B.z3_prove(list(s.pc), flag)[0] == "proved"
        seen.add(was)
        want = (["clear", ("flag", tm.FALSE)] if was else []) + [("append", line), ("append", tm.strc('"\\n"'))]
        if twin: want = want[:-1]
        got = [n for n in names]
        ok = len(got) == len(want) and all((g == w) or (isinstance(g, tuple) and isinstance(w, tuple) and g[0] == w[0] and (g[1] is w[1] or repr(g[1]) == repr(w[1]))) for g, w in zip(got, want))
        r.add("%s.pending'==(cleared_if_flag)+line+newline" % ("after_a_run" if was else "accumulating"), DISCHARGED if ok else FAILED, "trace", 0, "got %r want %r" % (got, want), kind="trace")
    r.add("reach.both", DISCHARGED if seen == {True, False} else UNDECIDED, "symex", 0, repr(seen), kind="vacuity")
    # ClearAccumulatedLines / GetAccumulatedLines are one-liners on StringInput
    for nm, meth in (("ClearAccumulatedLines", "erase"), ):
        f2, ex2, fin2 = trace_of(nm)
        ok = all(any(e.name.split("::")[-1] == meth and e.recv is si for e in s.events) for s in fin2) and bool(fin2)
        r.add("%s.empties_StringInput" % nm, DISCHARGED if ok else FAILED, "trace", 0, "", kind="trace")
    return r


PER_CALL = {"SelectedOutputMap", "SelectedOutputStringMap", "SelectedOutputLinesMap", "LogString", "LogLines", "OutputString", "OutputLines"}


def unit_check_database(twin=False):
    """check_database (start of every Run*): resets exactly the per-call views (selected-output tables/strings/lines, log and output
    string and lines, the two reporters); every member that must persist between calls - the dump string and lines, the accumulated
    input, switches, file names, current user number, component cache - is not touched."""
    fn, ex, finals = trace_of("check_database")
    r = U.new_unit("C04.check_database.per_call_reset_frame", IPQ, "IPhreeqc::check_database", fn)
    fields = A.class_fields("IPhreeqc.hpp", "IPhreeqc")
    per_call = set(PER_CALL) | ({"DumpString"} if twin else set())
    for s in finals[:1]:
        touched = {}
        for e in s.events:
            if e.name == "store" and e.recv is THIS and e.args[0].op == "str":
                touched.setdefault(e.args[0].args[0], []).append("assigned")
            if e.recv is not None and isinstance(e.recv, tm.T) and e.recv.op == "app" and e.recv.args[0].startswith("fld:") and e.recv.args[1] is THIS:
                sh = e.name.split("::")[-1].split(".")[-1]
                if sh in ("clear", "erase", "resize", "operator=", "assign", "push_back", "operator[]", "insert", "append", "operator+="):
                    touched.setdefault(e.recv.args[0][4:], []).append(sh)
        for name, typ in fields:
            if name in per_call:
                ok = "clear" in touched.get(name, [])
                r.add("per_call_view.%s.cleared" % name, DISCHARGED if ok else FAILED, "trace", 0, repr(touched.get(name)), kind="trace")
            elif name in ("ErrorReporter", "WarningReporter"):
                continue
            else:
                ok = name not in touched
                r.add("persistent.%s.untouched" % name, DISCHARGED if ok else FAILED, "trace", 0, repr(touched.get(name)), kind="frame")
    r.add("reach.path", DISCHARGED if finals else UNDECIDED, "symex", 0, "", kind="vacuity")
    r.assumptions.append("the delete loop over SelectedOutputMap is skipped (frees the tables the map owns)")
    return r


def unit_do_run_tail(twin=False):
    """end of do_run: the component cache is invalidated on every normal completion (UpdateComponents = true), whatever the last
    simulation of the call contained"""
    fn = A.find_function(IPQ, "IPhreeqc::do_run")
    r = U.new_unit("C04.do_run.component_cache_invalidated", IPQ, "IPhreeqc::do_run", fn)
    body = A.body_of(fn).get("inner", [])
    # top-level statements after the simulation loop
    tail = body       # top-level statements of the function are executed on every normal completion
    hits = []
    for s in tail:
        if s.get("kind") == "BinaryOperator" and s.get("opcode") == "=":
            lhs = s["inner"][0]
            if lhs.get("kind") == "MemberExpr" and lhs.get("name") == ("UpdateComponents" if not twin else "UpdateComponentsTwin"):
                v = [y.get("value") for y in A.walk(s["inner"][1]) if y.get("kind") == "CXXBoolLiteralExpr"]
                hits.append(v)
    ok = hits == [[True]]
    r.add("after_the_simulation_loop.UpdateComponents=true_unconditionally", DISCHARGED if ok else FAILED, "ast-scan", 0, "top-level assignments after the loop: %r" % hits, kind="structure")
    r.kind = "structural"
    return r


def _engine_chain(e):
    """names of the member chain of an expression, outermost first, e.g. this->PhreeqcPtr->dump_info.SetAll -> [SetAll, dump_info, PhreeqcPtr]"""
    out = []
    while isinstance(e, dict):
        k = e.get("kind")
        if k == "MemberExpr":
            out.append(e.get("name")); e = (e.get("inner") or [None])[0]
        elif k in ("ImplicitCastExpr", "ParenExpr", "CXXStaticCastExpr", "CStyleCastExpr", "MaterializeTemporaryExpr", "ExprWithCleanups", "CXXBindTemporaryExpr"):
            e = (e.get("inner") or [None])[0]
        elif k == "ArraySubscriptExpr":
            e = e["inner"][0]
        elif k == "UnaryOperator" and e.get("opcode") in ("*", "&"):
            e = e["inner"][0]
        else:
            break
    return out


READ_ONLY = re.compile(r"^(get|Get|size$|empty$|c_str$|begin$|end$|find$|str$|count$)")


def unit_do_run_boundary_frame(twin=False):
    """The statements IPhreeqc::do_run executes once per CALL (everything outside its simulation loop) are what a cut of the input adds
    to a run.  For the outcome not to depend on the cut they may not reset or modify engine state: of the engine (PhreeqcPtr->...) they
    write first_read_input only, install the input stream on phrq_io, and call do_status; every other engine member is at most read."""
    fn = A.find_function(IPQ, "IPhreeqc::do_run")
    r = U.new_unit("C04.do_run.call_boundary_writes_no_engine_state", IPQ, "IPhreeqc::do_run", fn)
    body = A.body_of(fn).get("inner", [])
    loops = [x for x in body if x.get("kind") == "ForStmt"]
    if len(loops) != 1:
        raise Undecided("do_run: expected exactly one top-level simulation loop, found %d" % len(loops))
    allowed_w = {"first_read_input"} if not twin else set()
    allowed_calls = {"do_status"}
    allowed_obj = {"phrq_io"}
    touched = []
    for st in body:
        if st is loops[0]:
            continue
        for x in A.walk(st):
            k = x.get("kind"); tgt = None; how = None
            if k == "BinaryOperator" and x.get("opcode") == "=" or k == "CompoundAssignOperator":
                tgt, how = x["inner"][0], "assigned"
            elif k == "UnaryOperator" and x.get("opcode") in ("++", "--"):
                tgt, how = x["inner"][0], "stepped"
            elif k == "CXXMemberCallExpr":
                tgt, how = x["inner"][0], "call"
            elif k == "CXXOperatorCallExpr" and len(x.get("inner", [])) >= 2:
                op = [y.get("name") or "" for y in A.walk(x["inner"][0]) if y.get("kind") == "DeclRefExpr"]
                nm = (x["inner"][0].get("inner") or [{}])[0].get("referencedDecl", {}).get("name", "") if x["inner"][0].get("kind") == "ImplicitCastExpr" else ""
                if re.search(r"operator(=|\+=|-=|\*=|/=|\+\+|--|<<=|>>=)$", nm):
                    tgt, how = x["inner"][1], "assigned"
            if tgt is None:
                continue
            ch = _engine_chain(tgt)
            if "PhreeqcPtr" not in ch:
                continue
            kx = ch.index("PhreeqcPtr")
            if kx == 0:
                touched.append(("PhreeqcPtr", how)); continue
            member = ch[kx - 1]
            if how == "call":
                if kx == 1:
                    touched.append((member + "()", "engine call"))
                elif not READ_ONLY.match(ch[0]):
                    touched.append((member, "." + ch[0] + "()"))
            else:
                touched.append((member, how))
    seen_w = set()
    for m, how in touched:
        if how == "engine call":
            ok = m[:-2] in allowed_calls
        elif how.startswith("."):
            ok = m in allowed_obj
        else:
            ok = m in allowed_w; seen_w.add(m)
        r.add("outside_the_simulation_loop.%s.%s" % (m, how.strip(".()").replace(" ", "_")), DISCHARGED if ok else FAILED, "ast-scan", 0,
              "engine member %s is %s once per call" % (m, how), kind="frame")
    r.add("reach.engine_touches_found", DISCHARGED if len(touched) >= 3 else UNDECIDED, "ast-scan", 0, repr(touched)[:200], kind="vacuity")
    r.kind = "structural"
    r.assumptions += ["syntactic frame: writes through aliases / callbacks (pfn_pre, pfn_post are the caller's code) are not seen",
                      "methods named get*/Get*/size/empty/c_str/begin/end/find/str/count are read-only",
                      "do_status() only reports progress; phrq_io->push_istream installs the stream of this call"]
    return r


def units(tier):
    us = []
    def wrap(uid, f, *a):
        def g():
            r = f(*a)
            if not any(o.status == FAILED for o in r.obligations):
                U.must_fail_twin(r, "vacuity.must_fail_twin", lambda: f(*a, twin=True))
            return r
        us.append((uid, g))
    for n in ("RunString", "RunFile", "RunAccumulated"):
        wrap("C04.entry." + n, unit_run_entry, n)
    wrap("C04.accumulate.AccumulateLine", unit_accumulate)
    wrap("C04.check_database.per_call_reset_frame", unit_check_database)
    wrap("C04.do_run.component_cache_invalidated", unit_do_run_tail)
    wrap("C04.do_run.call_boundary_writes_no_engine_state", unit_do_run_boundary_frame)
    from props import c04_tidy as TD
    wrap("C04.tidy_model.rebinds_after_model_change", TD.unit_tidy_model)
    wrap("C04.engine.no_decision_keyed_on_the_per_call_simulation_number", TD.unit_no_call_local_keys)
    from props import saverestore as SR
    wrap("C04.engine.save_restore_brackets", SR.unit_save_restore, "C04.engine.save_restore_brackets", ["src/phreeqcpp/tidy.cpp", "src/phreeqcpp/print.cpp", "src/phreeqcpp/mainsubs.cpp", "src/phreeqcpp/ReadClass.cxx"])
    return us


def run(tier, seed, only, jobs):
    t0 = time.time()
    U.TIER.update(tier=tier, seed=seed)
    us = units(tier)
    from props.common import ext_units as _ext
    us += _ext("C04")
    if only:
        us = [x for x in us if only in x[0]]
    res = core.run_units(us, jobs=jobs)
    return core.finish(PID, tier, seed, "proof", res, t0,
        checker_cmd="astvc: clang AST of IPhreeqc.cpp -> symbolic execution of the normal path with a ghost call trace -> trace comparison / z3 5.1",
        trusted_base=["clang 14 AST", "astvc (vf/astvc)", "z3 5.1"],
        assumptions=["catch arms not executed"],
        explanation="The clause 'delivered through RunFile, RunString or AccumulateLine+RunAccumulated produces the same': same canonical call sequence on exactly the delivered text. "
                    "Everything inside do_run (cut-point independence itself, persistence of definitions) is not decided.")
