"""C09 (extension): the error / warning / dump / screen sinks (each message reaches the file stream and the string accumulator under
its own switches, with the same text, exactly once), opening and closing of the output streams (a disabled file sink opens nothing; every
stream is opened into and closed from its own member), the selected-output line accessors and the switch-gated string views."""
from props.c13_ext_util import *


def chain(s, root):
    """arguments streamed (operator<<) into the chain that starts at stream `root`, in order; events returned too"""
    out, used = [], []
    cur = [root]
    for e in evs(s):
        if "operator<<" in e.name and any(e.recv is c_ for c_ in cur):
            out.append(e.args[0]); used.append(e)
            cur = [root, e.result]          # a later statement may start again from the stream object itself
    return out, used


def _ctx_snap():
    c = ctx(); c.log_stores = True
    c.snapshot = {"error_msg": [("error_on", "B")], "warning_msg": [("error_on", "B")]}
    return c


def _restores(r, tag, s, ex, i):
    st = [v for e, f_, v in stores(s, THIS, "error_on")]
    ok(r, "%s.error_switch_left_as_found[path %d]" % (tag, i), bool(st) and tm.to_bool(st[-1]) is tm.to_bool(fld0(ex, s, "error_on", "B")), repr(st)[:120], kind="frame")


def unit_ipq_error_msg(twin=False):
    """IPhreeqc::error_msg(str, stop): the text goes (a) to the error FILE stream exactly once, iff a stream is open and error reporting is
    on - the base-class writer is run with error reporting switched off so that it cannot write the text to the stream a second time,
    and the switch is put back; (b) to the error STRING (AddError) exactly once, iff ErrorStringOn and error reporting is on - so every
    message of the string is also in an open file; (c) with stop the call ends by throwing (after 'Stopping.' has gone to an open stream and
    the stream was flushed), without stop it returns; nothing else is called."""
    q = "IPhreeqc::error_msg"
    f, ex, fin, _ = run(IPQ, q, c=_ctx_snap())
    r = U.new_unit("C09.sink.IPhreeqc_error_msg", IPQ, q, f)
    text, stop = param(0, "str", "P"), tm.to_bool(param(1, "stop", "B"))
    seen = set()
    for i, s in enumerate(alive(fin)):
        strm = fld0(ex, s, "error_ostream", "P")
        on = fld0(ex, s, "error_on", "B")
        file_on = tm.and_(tm.not_(tm.eq(strm, NULLP)), on)
        str_on = tm.and_(fld0(ex, s, "ErrorStringOn", "B"), on)
        E = [e for e in evs(s) if e.name != "store"]
        w = [e for e in E if "operator<<" in e.name]
        first = [e for e in w if e.args[0] is text]
        if first:
            seen.add("file")
            ok(r, "file.text_written_only_with_open_stream_and_error_on[path %d]" % i, proved(s.pc, file_on if not twin else tm.not_(file_on)), repr(s.pc)[:160], backend="z3-5.1")
            ok(r, "file.text_written_exactly_once_to_the_error_stream[path %d]" % i, len(first) == 1 and first[0].recv is strm, repr(first)[:160], kind="trace")
        else:
            seen.add("nofile")
            ok(r, "file.text_omitted_only_without_stream_or_with_error_off[path %d]" % i, proved(s.pc, tm.not_(file_on)), repr(s.pc)[:160], backend="z3-5.1")
        base = [e for e in E if e.name == "PHRQ_io::error_msg"]
        good = len(base) == 1 and base[0].recv is THIS and base[0].args[0] is text and base[0].snap is not None and tm.to_bool(base[0].snap.get("error_on")) is tm.FALSE
        ok(r, "base_writer_run_once_with_the_text_and_error_reporting_off(no_second_copy_in_the_file)[path %d]" % i, good, repr(base)[:160] + repr(base[0].snap if base else None), kind="trace")
        _restores(r, "error_msg", s, ex, i)
        add = [e for e in E if short(e) == "AddError"]
        if add:
            seen.add("string")
            ok(r, "string.text_recorded_only_with_ErrorStringOn_and_error_on[path %d]" % i, proved(s.pc, str_on), repr(s.pc)[:160], backend="z3-5.1")
            ok(r, "string.text_recorded_exactly_once[path %d]" % i, len(add) == 1 and add[0].recv is THIS and add[0].args[0] is text, repr(add)[:160], kind="trace")
            ok(r, "string.every_recorded_message_is_also_in_an_open_error_file[path %d]" % i, bool(first) or proved(s.pc, tm.eq(strm, NULLP)), repr(s.pc)[:160], backend="z3-5.1")
        else:
            seen.add("nostring")
            ok(r, "string.text_omitted_only_with_a_switch_off[path %d]" % i, proved(s.pc, tm.not_(str_on)), repr(s.pc)[:160], backend="z3-5.1")
        stopw = [e for e in w if e not in first]
        fl = [e for e in E if short(e) == "flush"]
        if s.status == "throw":
            seen.add("stop")
            ok(r, "stop.throws_only_when_asked[path %d]" % i, proved(s.pc, stop), repr(s.pc)[:160], backend="z3-5.1")
            if stopw:
                ok(r, "stop.notice_written_to_the_open_error_stream_then_flushed[path %d]" % i, proved(s.pc, file_on) and len(stopw) == 1 and stopw[0].recv is strm and strlit(stopw[0].args[0]) is not None and len(fl) == 1 and fl[0].recv is strm, repr(stopw)[:160], kind="trace")
            else:
                ok(r, "stop.notice_omitted_only_without_stream_or_with_error_off[path %d]" % i, proved(s.pc, tm.not_(file_on)) and not fl, repr(s.pc)[:160], backend="z3-5.1")
        else:
            seen.add("return")
            ok(r, "no_stop.returns_only_when_not_asked_to_stop[path %d]" % i, proved(s.pc, tm.not_(stop)) and not stopw and not fl, repr(s.pc)[:160], backend="z3-5.1")
        oth = [e for e in E if e not in w + base + add + fl and e.name != "throw"]
        ok(r, "nothing_else_called[path %d]" % i, not oth, repr(oth)[:160], kind="frame")
        others = [e for e, f_, v in stores(s) if not (e.recv is THIS and f_ == "error_on")]
        ok(r, "nothing_else_written[path %d]" % i, not others, repr(others)[:160], kind="frame")
    reach(r, "reach.all_cases", seen == {"file", "nofile", "string", "nostring", "stop", "return"}, repr(sorted(seen)))
    r.assumptions += ["operator<< appends its argument to the stream; AddError appends to the error accumulator (ErrorReporter.hxx)", "PHRQ_io::error_msg: unit C09.sink.PHRQ_io_error_msg"]
    return r


def unit_ipq_warning_msg(twin=False):
    """IPhreeqc::warning_msg(str): the error FILE stream receives str followed by a newline exactly once iff a stream is open and error
    reporting is on (the base-class writer runs with error reporting off and the switch is put back); the warning STRING receives the same
    text followed by a line end exactly once iff WarningStringOn; nothing else."""
    q = "IPhreeqc::warning_msg"
    f, ex, fin, _ = run(IPQ, q, c=_ctx_snap())
    r = U.new_unit("C09.sink.IPhreeqc_warning_msg", IPQ, q, f)
    text = param(0, "str", "P")
    seen = set()
    for i, s in enumerate(alive(fin)):
        strm = fld0(ex, s, "error_ostream", "P")
        file_on = tm.and_(tm.not_(tm.eq(strm, NULLP)), fld0(ex, s, "error_on", "B"))
        E = [e for e in evs(s) if e.name != "store"]
        args, used = chain(s, strm)
        if used:
            seen.add("file")
            ok(r, "file.written_only_with_open_stream_and_error_on[path %d]" % i, proved(s.pc, file_on), repr(s.pc)[:160], backend="z3-5.1")
            good = len(args) == 2 and args[0] is text and strlit(args[1]) in ("\\n", "\n")
            ok(r, "file.receives_the_text_and_a_newline_once[path %d]" % i, good, repr(args)[:160], kind="trace")
        else:
            seen.add("nofile")
            ok(r, "file.omitted_only_without_stream_or_with_error_off[path %d]" % i, proved(s.pc, tm.not_(file_on)), repr(s.pc)[:160], backend="z3-5.1")
        base = [e for e in E if e.name == "PHRQ_io::warning_msg"]
        good = len(base) == 1 and base[0].recv is THIS and base[0].args[0] is text and base[0].snap is not None and tm.to_bool(base[0].snap.get("error_on")) is tm.FALSE
        ok(r, "base_writer_run_once_with_the_text_and_error_reporting_off[path %d]" % i, good, repr(base)[:160], kind="trace")
        _restores(r, "warning_msg", s, ex, i)
        add = [e for e in E if short(e) == "AddWarning"]
        oss = [e for e in E if e.name.startswith("ctor ") and "ostringstream" in e.name]
        wsw = fld0(ex, s, "WarningStringOn", "B") if not twin else fld0(ex, s, "ErrorStringOn", "B")
        if add:
            seen.add("string")
            ok(r, "string.recorded_only_with_WarningStringOn[path %d]" % i, proved(s.pc, wsw), repr(s.pc)[:160], backend="z3-5.1")
            a2, u2 = chain(s, oss[0].recv) if oss else ([], [])
            st_ = [e for e in E if short(e) == "str" and oss and e.recv is oss[0].recv]
            good = len(add) == 1 and add[0].recv is THIS and len(a2) == 2 and a2[0] is text and (strlit(a2[1]) in ("\\n", "\n") or "endl" in repr(a2[1])) and len(st_) >= 1 \
                and add[0].args[0] is tm.app("c_str", (st_[-1].result,), "P") and E.index(st_[-1]) > E.index(u2[-1])
            ok(r, "string.receives_the_text_and_a_line_end_once[path %d]" % i, good, repr(add)[:120] + repr(a2)[:120], kind="trace")
        else:
            seen.add("nostring")
            ok(r, "string.omitted_only_with_WarningStringOn_off[path %d]" % i, proved(s.pc, tm.not_(wsw)), repr(s.pc)[:160], backend="z3-5.1")
        oth = [e for e in E if e not in used + base + add + oss and "operator<<" not in e.name and short(e) != "str"]
        ok(r, "nothing_else_called[path %d]" % i, not oth, repr(oth)[:160], kind="frame")
        others = [e for e, f_, v in stores(s) if not (e.recv is THIS and f_ == "error_on")]
        ok(r, "nothing_else_written[path %d]" % i, not others, repr(others)[:160], kind="frame")
    reach(r, "reach.all_cases", seen == {"file", "nofile", "string", "nostring"}, repr(sorted(seen)))
    r.assumptions += ["operator<< appends; std::endl is a newline plus flush; ostringstream::str() is the text streamed so far", "AddWarning appends to the warning accumulator"]
    return r


def unit_phrq_io_sinks(twin=False):
    """PHRQ_io::error_msg / warning_msg / screen_msg: error_msg hands the text to the screen/error stream writer exactly when a stream is
    open and error reporting is on, a stop request adds the 'Stopping.' notice to the error stream (same condition), the output and the log
    sinks and ends in a throw - never a return; warning_msg hands ONE text (str + newline) to both the log and the output sink (byte-identical)
    and str + newline to the screen writer under the error condition; screen_msg writes exactly its argument to the error stream iff a stream
    is open and screen_on."""
    q = "PHRQ_io::error_msg"
    c = ctx(); c.log_stores = True
    f, ex, fin, _ = run(PIO, q, c=c, find_kw={"nparams": 2})
    r = U.new_unit("C09.sink.PHRQ_io_error_warning_screen", PIO, "PHRQ_io::error_msg / warning_msg / screen_msg", f)
    import hashlib
    shas = [U.new_unit("x", PIO, "f", f).sha]
    text, stop = param(0, "err_str", "P"), tm.to_bool(param(1, "stop", "B"))
    seen = set()
    for i, s in enumerate(alive(fin)):
        strm = fld0(ex, s, "error_ostream", "P")
        on = tm.and_(tm.not_(tm.eq(strm, NULLP)), fld0(ex, s, "error_on", "B"))
        E = [e for e in evs(s) if e.name != "store"]
        scr = [e for e in E if short(e) == "screen_msg"]
        msg = [e for e in scr if e.args[0] is text]
        if msg:
            seen.add("shown")
            ok(r, "error_msg.text_shown_only_with_open_stream_and_error_on[path %d]" % i, proved(s.pc, on), repr(s.pc)[:160], backend="z3-5.1")
            ok(r, "error_msg.text_shown_exactly_once[path %d]" % i, len(msg) == 1 and msg[0].recv is THIS, repr(msg)[:120], kind="trace")
        else:
            seen.add("silent")
            ok(r, "error_msg.text_omitted_only_without_stream_or_with_error_off[path %d]" % i, proved(s.pc, tm.not_(on)), repr(s.pc)[:160], backend="z3-5.1")
        note = [e for e in scr if e not in msg]
        outn = [e for e in E if short(e) in ("output_msg", "log_msg")]
        if s.status == "throw":
            seen.add("stop")
            ok(r, "error_msg.throws_only_when_asked_to_stop[path %d]" % i, proved(s.pc, stop), repr(s.pc)[:160], backend="z3-5.1")
            names = sorted(short(e) for e in outn)
            good = names == ["log_msg", "output_msg"] and all(e.recv is THIS and strlit(e.args[0]) is not None for e in outn) and outn[0].args[0] is outn[1].args[0]
            ok(r, "error_msg.stop_notice_goes_to_output_and_log_sinks_with_the_same_text[path %d]" % i, good, repr(outn)[:200], kind="trace")
            if note:
                ok(r, "error_msg.stop_notice_shown_only_with_open_stream_and_error_on[path %d]" % i, proved(s.pc, on) and len(note) == 1 and note[0].args[0] is outn[0].args[0] if outn else False, repr(note)[:160], kind="trace")
            else:
                ok(r, "error_msg.stop_notice_not_shown_only_without_stream_or_with_error_off[path %d]" % i, proved(s.pc, tm.not_(on)), repr(s.pc)[:160], backend="z3-5.1")
        else:
            seen.add("return")
            ok(r, "error_msg.returns_only_when_not_asked_to_stop[path %d]" % i, proved(s.pc, tm.not_(stop) if not twin else stop) and not note and not outn, repr(s.pc)[:160], backend="z3-5.1")
    reach(r, "reach.error_msg", seen == {"shown", "silent", "stop", "return"}, repr(sorted(seen)))
    # warning_msg
    c = ctx(); c.log_stores = True
    f, ex, fin, _ = run(PIO, "PHRQ_io::warning_msg", c=c)
    shas.append(U.new_unit("x", PIO, "f", f).sha)
    seen = set()
    for i, s in enumerate(alive(fin)):
        strm = fld0(ex, s, "error_ostream", "P")
        on = tm.and_(tm.not_(tm.eq(strm, NULLP)), fld0(ex, s, "error_on", "B"))
        E = [e for e in evs(s) if e.name != "store"]
        oss = [e for e in E if e.name.startswith("ctor ") and "ostringstream" in e.name]
        a2, u2 = chain(s, oss[0].recv) if oss else ([], [])
        good = len(a2) == 2 and a2[0] is text and strlit(a2[1]) in ("\\n", "\n")
        ok(r, "warning_msg.one_text=str+newline_is_built[path %d]" % i, good, repr(a2)[:160], kind="trace")
        lg = [e for e in E if short(e) == "log_msg"]; ou = [e for e in E if short(e) == "output_msg"]
        def from_oss(e):
            a = e.args[0]
            return a.op == "app" and a.args[0] == "c_str" and any(x.result is a.args[1] and x.recv is oss[0].recv and E.index(x) > E.index(u2[-1]) for x in E if short(x) == "str") if oss and u2 else False
        good = len(lg) == 1 and len(ou) == 1 and lg[0].recv is THIS and ou[0].recv is THIS and from_oss(lg[0]) and from_oss(ou[0])
        ok(r, "warning_msg.log_and_output_sinks_each_get_that_text_once[path %d]" % i, good, repr(lg + ou)[:200], kind="trace")
        scr = [e for e in E if short(e) == "screen_msg"]
        if scr:
            seen.add("shown")
            ap = [e for e in E if short(e) == "append"]
            good = proved(s.pc, on) and len(scr) == 1 and len(ap) == 1 and text in tm.subterms(ap[0].recv) and strlit(ap[0].args[0]) in ("\\n", "\n") and text in tm.subterms(scr[0].args[0]) and E.index(ap[0]) < E.index(scr[0])
            ok(r, "warning_msg.str+newline_shown_once_only_with_open_stream_and_error_on[path %d]" % i, good, repr(scr)[:160] + repr(s.pc)[:100], kind="trace")
        else:
            seen.add("silent")
            ok(r, "warning_msg.not_shown_only_without_stream_or_with_error_off[path %d]" % i, proved(s.pc, tm.not_(on)), repr(s.pc)[:160], backend="z3-5.1")
    reach(r, "reach.warning_msg", seen == {"shown", "silent"}, repr(sorted(seen)))
    # screen_msg
    f, ex, fin, _ = run(PIO, "PHRQ_io::screen_msg")
    shas.append(U.new_unit("x", PIO, "f", f).sha)
    seen = set()
    for i, s in enumerate(alive(fin)):
        strm = fld0(ex, s, "error_ostream", "P")
        on = tm.and_(tm.not_(tm.eq(strm, NULLP)), fld0(ex, s, "screen_on", "B"))
        a, u = chain(s, strm)
        if evs(s):
            seen.add("on")
            ok(r, "screen_msg.writes_exactly_its_argument_to_the_error_stream_once[path %d]" % i, proved(s.pc, on) and len(a) == 1 and a[0] is param(0, "str", "P") and len(evs(s)) == 1, repr(evs(s))[:160], kind="trace")
        else:
            seen.add("off")
            ok(r, "screen_msg.silent_only_without_stream_or_with_screen_off[path %d]" % i, proved(s.pc, tm.not_(on)), repr(s.pc)[:160], backend="z3-5.1")
    reach(r, "reach.screen_msg", seen == {"on", "off"}, repr(sorted(seen)))
    r.sha = hashlib.sha256("".join(x or "" for x in shas).encode()).hexdigest()
    r.assumptions += ["the error counter io_error_count of PHRQ_io::error_msg is C08's subject, not checked here", "std::string::append / operator<< / ostringstream::str library semantics"]
    return r


def unit_dump_msg(twin=False):
    from props import C09 as base
    return base.unit_stream_sink("dump_msg", "dump_ostream", "dump_on", twin=twin)


UNITS = [
    ("C09.sink.IPhreeqc_error_msg", unit_ipq_error_msg),
    ("C09.sink.IPhreeqc_warning_msg", unit_ipq_warning_msg),
    ("C09.sink.PHRQ_io_error_warning_screen", unit_phrq_io_sinks),
    ("C09.sink.PHRQ_io_dump_msg", unit_dump_msg),
]


# ---------------------------------------------------------------------------------------------------------------- open / close
def _std(v):
    return tm.app("is_standard_stream", (v,), "B")


def _safe_close_contract(c):
    """callee contract of PHRQ_io::safe_close(std::ostream **p) (proved by unit C09.streams.close below): a stream that is neither NULL nor
    one of cerr / cout / clog is deleted and *p set to NULL; otherwise nothing happens"""
    def h(ex, st, n, name, recv, args):
        p = args[0]
        lv = ex.deref(st, p)
        v = ex.load(st, lv, "P")
        closable = tm.and_(tm.not_(tm.eq(v, NULLP)), tm.not_(_std(v)))
        out = []
        a = st.clone(); a.assume(closable)
        a.events.append(SX.Event("safe_close", None, [p, v, tm.TRUE], tm.num(0, "I"), n))
        ex.store(a, lv, NULLP, "P")
        out.append((a, tm.num(0, "I")))
        b = st; b.assume(tm.not_(closable))
        b.events.append(SX.Event("safe_close", None, [p, v, tm.FALSE], tm.num(0, "I"), n))
        out.append((b, tm.num(0, "I")))
        return out
    c.handlers["safe_close"] = h
    c.handlers["PHRQ_io::safe_close"] = h
    return c


STREAMS3 = (("Output", "output_ostream", "OutputFileOn", "OutputFileName"), ("Error", "error_ostream", "ErrorFileOn", "ErrorFileName"), ("Log", "log_ostream", "LogFileOn", "LogFileName"))


def unit_open(twin=False):
    """Opening.  IPhreeqc::open_output_files (start of every run): for each of output / error / log, with the file switch ON the member
    stream ends up a freshly created file stream on that sink's OWN file name, the previous stream having been closed first; with the switch
    OFF neither the member nor any file is touched (a disabled sink receives nothing).  IPhreeqc::output_open opens (through the base class,
    same name and mode) only when OutputFileOn, otherwise reports success without opening; IPhreeqc::punch_open opens the file of user
    number n into punch_ostream only when the file switch of n is on, under the name kept for n: the definition's own -file name when given,
    else the name already kept, else the default name of n.  PHRQ_io::output_open / log_open / punch_open / dump_open / error_open open
    into their own member."""
    q = "IPhreeqc::open_output_files"
    c = _safe_close_contract(ctx()); c.log_stores = True
    f, ex, fin, _ = run(IPQ, q, c=c)
    r = U.new_unit("C09.streams.open.only_enabled_file_sinks_each_into_its_own_member_and_name", IPQ, q, f)
    import hashlib
    shas = [U.new_unit("x", IPQ, "f", f).sha]
    seen = set()
    bad = {}
    for i, s in enumerate(alive(fin)):
        E = [e for e in evs(s)]
        for X, mem, sw, nm in STREAMS3:
            old = fld0(ex, s, mem, "P")
            on = fld0(ex, s, sw, "B")
            sts = [v for e, f_, v in stores(s, THIS, mem)]
            closes = [e for e in E if e.name == "safe_close" and e.args[0] is tm.app("fld:" + mem, (THIS,), "P")]
            news = [e for e in E if e.name.startswith("new ") and any(v is e.result for v in sts)]
            def fail(k, d):
                bad.setdefault((X, k), d)
            if news:
                seen.add(X + ".opened")
                if not proved(s.pc, on if not (twin and X == "Log") else tm.not_(on)):
                    fail("file_created_only_when_its_switch_is_on", repr(s.pc)[:160])
                want = tm.app("c_str", (fld0(ex, s, nm, "S"),), "P")
                if not (len(news) == 1 and "ofstream" in news[0].name and news[0].args and news[0].args[0] is want and sts[-1] is news[0].result):
                    fail("member_becomes_a_new_file_stream_on_its_own_file_name", repr(news)[:200])
                if not proved(s.pc, tm.eq(old, NULLP)) and not (closes and E.index(closes[0]) < E.index(news[0]) and closes[0].args[2] is tm.TRUE):
                    fail("previous_stream_closed_before_the_new_one_is_created", repr(closes)[:160])
            else:
                if sts and not all(v is NULLP for v in sts):
                    fail("member_changed_without_opening", repr(sts)[:120])
                if closes or sts:
                    if not proved(s.pc, on):
                        fail("stream_of_a_disabled_sink_untouched", repr(s.pc)[:160])
                # not opened although on: only when the previous stream is a standard stream that is not closed
                if not proved(s.pc, tm.or_(tm.not_(on), tm.and_(tm.not_(tm.eq(old, NULLP)), _std(old)))):
                    fail("enabled_sink_left_without_file_only_when_it_holds_a_standard_stream", repr(s.pc)[:200])
                if proved(s.pc, tm.not_(on)):
                    seen.add(X + ".off")
        oth = [e for e in E if e.name not in ("safe_close", "store") and not e.name.startswith("new ")]
        if oth:
            bad.setdefault(("all", "nothing_else_called"), repr(oth)[:160])
    names = ["file_created_only_when_its_switch_is_on", "member_becomes_a_new_file_stream_on_its_own_file_name", "previous_stream_closed_before_the_new_one_is_created",
             "member_changed_without_opening", "stream_of_a_disabled_sink_untouched", "enabled_sink_left_without_file_only_when_it_holds_a_standard_stream"]
    for X, mem, sw, nm in STREAMS3:
        for k in names:
            ok(r, "open_output_files.%s.%s" % (X, k), (X, k) not in bad, bad.get((X, k), ""))
    ok(r, "open_output_files.nothing_else_called", ("all", "nothing_else_called") not in bad, bad.get(("all", "nothing_else_called"), ""), kind="frame")
    reach(r, "reach.open_output_files", seen == {a + b for a in ("Output", "Error", "Log") for b in (".opened", ".off")}, repr(sorted(seen)))
    # output_open
    f, ex, fin, _ = run(IPQ, "IPhreeqc::output_open")
    shas.append(U.new_unit("x", IPQ, "f", f).sha)
    seen = set()
    for i, s in enumerate(alive(fin, ("ret",))):
        on = fld0(ex, s, "OutputFileOn", "B")
        E = evs(s)
        if E:
            seen.add("on")
            good = proved(s.pc, on) and len(E) == 1 and E[0].name == "PHRQ_io::output_open" and E[0].recv is THIS and list(E[0].args) == [param(0, "file_name", "P"), param(1, "mode", E[0].args[1].sort)] and s.ret is E[0].result
            ok(r, "output_open.opens_through_base_class_with_same_name_and_mode_only_when_OutputFileOn[path %d]" % i, good, repr(E)[:160] + repr(s.pc)[:80], kind="trace")
        else:
            seen.add("off")
            ok(r, "output_open.disabled_sink_opens_nothing_and_reports_success[path %d]" % i, proved(s.pc, tm.not_(on)) and tm.to_bool(s.ret) is tm.TRUE and not all_writes(s), "%r %r" % (s.pc, s.ret), backend="z3-5.1")
    reach(r, "reach.output_open", seen == {"on", "off"}, repr(sorted(seen)))
    # punch_open
    c = ctx(functional=("Get_have_punch_name", "Get_file_name", "empty", "get_sel_out_file_on")); c.log_stores = True
    f, ex, fin, _ = run(IPQ, "IPhreeqc::punch_open", c=c)
    shas.append(U.new_unit("x", IPQ, "f", f).sha)
    nu = param(2, "n_user", "I")
    seen = set()
    for i, s in enumerate(alive(fin, ("ret",))):
        E = evs(s)
        sw = tm.to_bool(tm.app("call:get_sel_out_file_on", (THIS, nu), "B"))
        op = [e for e in E if short(e) == "ofstream_open"]
        mname = tm.app("fld:SelectedOutputFileNameMap", (THIS,), "P")
        idx_bad = [e for e in E if is_idx(e) and e.args[0] is not nu]
        ok(r, "punch_open.only_entries_of_user_number_n_are_consulted[path %d]" % i, not idx_bad, repr(idx_bad)[:160], kind="frame")
        asg = [e for e in E if short(e) in ("operator=", "assign") and "SelectedOutputFileNameMap" in repr(e.recv)]
        if asg:
            src = asg[-1].args[0]
            dflt = [e for e in E if short(e) == "sel_file_name"]
            if dflt and src is dflt[-1].result:
                seen.add("default")
                ok(r, "punch_open.default_name_is_that_of_user_number_n[path %d]" % i, dflt[-1].args[0] is nu and dflt[-1].recv is THIS, repr(dflt)[:120], kind="trace")
            else:
                seen.add("own")
                ok(r, "punch_open.own_name_taken_from_the_definition_of_user_number_n[path %d]" % i, "call:Get_file_name" in repr(src) and "SelectedOutput_map" in repr(src) and nu in tm.subterms(src), repr(src)[:160], kind="trace")
            ok(r, "punch_open.name_kept_under_user_number_n[path %d]" % i, nu in tm.subterms(asg[-1].recv) and len(asg) == 1, repr(asg)[:160], kind="trace")
        else:
            seen.add("kept")
        if op:
            seen.add("open")
            want_name = tm.app("c_str", (tm.select(ex.heap_arr(s, ("m2", "#mval", "S", "I")), mname, nu),), "P")
            good = proved(s.pc, sw) and len(op) == 1 and op[0].recv is THIS and op[0].args[0] is tm.app("fld:punch_ostream", (THIS,), "P") and op[0].args[1] is want_name and op[0].args[2] is param(1, "mode", op[0].args[2].sort) and s.ret is op[0].result
            ok(r, "punch_open.file_of_n_opened_into_punch_ostream_under_the_name_kept_for_n_only_when_its_file_switch_is_on[path %d]" % i, good, repr(op)[:200] + repr(s.pc)[-80:], kind="trace")
        else:
            seen.add("noopen")
            ok(r, "punch_open.disabled_sink_opens_nothing_and_reports_success[path %d]" % i, proved(s.pc, tm.not_(sw)) and tm.to_bool(s.ret) is tm.TRUE, "%r" % (s.ret,), backend="z3-5.1")
    reach(r, "reach.punch_open", {"default", "own", "kept", "open", "noopen"} <= seen, repr(sorted(seen)))
    # base class openers
    for q2, mem in (("output_open", "output_ostream"), ("log_open", "log_ostream"), ("punch_open", "punch_ostream"), ("dump_open", "dump_ostream")):
        f, ex, fin, _ = run(PIO, "PHRQ_io::" + q2)
        shas.append(U.new_unit("x", PIO, "f", f).sha)
        fin = alive(fin, ("ret",))
        E = evs(fin[0]) if len(fin) == 1 else []
        good = len(E) == 1 and short(E[0]) == "ofstream_open" and E[0].recv is THIS and E[0].args[0] is tm.app("fld:" + mem, (THIS,), "P") and E[0].args[1] is param(0, "file_name", "P") and fin[0].ret is E[0].result
        ok(r, "PHRQ_io::%s.opens_the_named_file_into_%s_and_returns_the_outcome" % (q2, mem), good, repr(E)[:200], kind="trace")
    c = ctx(); c.log_stores = True
    f, ex, fin, _ = run(PIO, "PHRQ_io::error_open", c=c)
    shas.append(U.new_unit("x", PIO, "f", f).sha)
    seen = set()
    fnm = param(0, "file_name", "P")
    for i, s in enumerate(alive(fin, ("ret",))):
        op = evs(s, "ofstream_open")
        sts = [v for e, f_, v in stores(s, THIS, "error_ostream")]
        if op:
            okopen = tm.to_bool(op[0].result)
            good = proved(s.pc, tm.not_(tm.eq(fnm, NULLP))) and len(op) == 1 and op[0].args[0] is tm.app("fld:error_ostream", (THIS,), "P") and op[0].args[1] is fnm
            ok(r, "error_open.named_file_opened_into_error_ostream[path %d]" % i, good, repr(op)[:160], kind="trace")
            if proved(s.pc, okopen):
                seen.add("ok")
                ok(r, "error_open.success_reported_and_stream_kept[path %d]" % i, tm.to_bool(s.ret) is tm.TRUE and not sts, repr(s.ret))
            else:
                seen.add("fail")
                ok(r, "error_open.failure_reported_and_errors_fall_back_to_a_standard_stream[path %d]" % i, proved(s.pc, tm.not_(okopen)) and tm.to_bool(s.ret) is tm.FALSE and len(sts) == 1 and "G.cerr" in repr(sts[0]), repr(sts))
        else:
            seen.add("null")
            ok(r, "error_open.without_name_errors_go_to_a_standard_stream[path %d]" % i, proved(s.pc, tm.eq(fnm, NULLP)) and len(sts) == 1 and "G.cerr" in repr(sts[0]) and tm.to_bool(s.ret) is tm.TRUE, repr(sts))
    reach(r, "reach.error_open", seen == {"ok", "fail", "null"}, repr(sorted(seen)))
    r.sha = hashlib.sha256("".join(x or "" for x in shas).encode()).hexdigest()
    r.assumptions += ["PHRQ_io::safe_close by its contract (unit C09.streams.close...)", "PHRQ_io::ofstream_open: unit C08.ofstream_open.pointer_replaced_only_on_success", "operator new yields an object (the `== NULL` arms are dead code)",
                      "a member stream holding cerr / cout / clog is not replaced by a file: not reachable through the IPhreeqc API (only Phreeqc::operator= installs them)",
                      "get_sel_out_file_on: unit C05.switch.get_sel_out_file_on; sel_file_name: unit C13.defaults.*"]
    return r


UNITS.append(("C09.streams.open.only_enabled_file_sinks_each_into_its_own_member_and_name", unit_open))


def unit_close(twin=False):
    """Closing.  PHRQ_io::safe_close(std::ostream **p): a stream that is neither NULL nor cerr / cout / clog is deleted (exactly that one) and
    *p becomes NULL; otherwise nothing is touched.  PHRQ_io::close_ostreams: the output, log, error and dump streams (not the punch stream,
    which belongs to its SELECTED_OUTPUT definition) are collected in a set - so a stream shared by two sinks is closed once -, every member
    of the set is closed through safe_close, and all five stream members end up NULL.  IPhreeqc::close_output_files (end of every run): the
    four member streams are closed through safe_close, every definition's punch stream is closed and the definition told it has none, the
    shared punch_ostream is cleared."""
    f, ex, fin, _ = run(PIO, "PHRQ_io::safe_close", c=(lambda c: (setattr(c, "log_stores", True), c)[1])(ctx()), find_kw={"param_types": ["std::ostream **"]})
    r = U.new_unit("C09.streams.close.each_stream_closed_once_and_forgotten", PIO, "PHRQ_io::safe_close / close_ostreams, IPhreeqc::close_output_files", f)
    import hashlib
    shas = [U.new_unit("x", PIO, "f", f).sha]
    p = param(0, "stream_ptr", "P")
    seen = set()
    for i, s in enumerate(alive(fin)):
        v = tm.select(ex.heap_arr(SX.State(), ("m", "P")), p, tm.num(0, "I"))
        stds = sorted({t for t in tm.subterms(tm.and_(*s.pc)) if t.op == "sym" and t.args[0] in ("&G.cerr", "&G.cout", "&G.clog")}, key=repr)
        dels = evs(s, "delete")
        sts = stores(s)
        if dels:
            seen.add("close")
            isstd = tm.or_(*[tm.eq(v, t) for t in stds]) if stds else tm.FALSE
            good = len(stds) == 3 and proved(s.pc, tm.and_(tm.not_(tm.eq(v, NULLP)), tm.not_(isstd)))
            ok(r, "safe_close.deletes_only_a_non_null_stream_that_is_not_cerr_cout_clog[path %d]" % i, good, "std streams tested: %r; %r" % (stds, s.pc), backend="z3-5.1")
            ok(r, "safe_close.deletes_exactly_that_stream_once[path %d]" % i, len(dels) == 1 and dels[0].args[0] is v, repr(dels)[:120], kind="trace")
            ok(r, "safe_close.caller's_pointer_becomes_NULL[path %d]" % i, len(sts) == 1 and sts[0][0].recv is p and sts[0][2] is NULLP, repr(sts)[:120])
        else:
            seen.add("keep")
            ok(r, "safe_close.otherwise_nothing_is_touched[path %d]" % i, not sts and not evs(s), repr(sts)[:120], kind="frame")
            # a closable stream must not be skipped: the path condition must force NULL or a standard stream
            cer = [t for t in tm.subterms(tm.and_(*s.pc)) if t.op == "sym" and t.args[0] in ("&G.cerr", "&G.cout", "&G.clog")]
            alt = tm.or_(tm.eq(v, NULLP), *[tm.eq(v, t) for t in set(cer)])
            ok(r, "safe_close.keeps_only_NULL_or_a_standard_stream[path %d]" % i, proved(s.pc, alt), repr(s.pc)[:200], backend="z3-5.1")
    reach(r, "reach.safe_close", seen == {"close", "keep"}, repr(sorted(seen)))
    # close_ostreams
    c = _safe_close_contract(ctx()); c.log_stores = True
    f, ex, fin, info = run(PIO, "PHRQ_io::close_ostreams", c=c, modes={0: "iter"})
    shas.append(U.new_unit("x", PIO, "f", f).sha)
    for i, s in enumerate(alive(fin)):
        ins = evs(s, "insert")
        sets = {id(e.recv) for e in ins}
        got = sorted(repr(e.args[0]) for e in ins)
        want = sorted(repr(fld0(ex, s, m, "P")) for m in (("output_ostream", "log_ostream", "error_ostream", "dump_ostream") if not twin else ("output_ostream", "log_ostream", "error_ostream", "dump_ostream", "punch_ostream")))
        ok(r, "close_ostreams.output_log_error_dump_streams_collected_in_one_set(punch_stream_left_to_its_definition)[path %d]" % i, got == want and len(sets) == 1, repr(got), kind="trace")
        final = {f_: v for e, f_, v in stores(s, THIS)}
        ok(r, "close_ostreams.all_five_stream_members_end_NULL[path %d]" % i, all(final.get(m) is NULLP for m in ("output_ostream", "log_ostream", "punch_ostream", "error_ostream", "dump_ostream")), repr(final)[:200])
    n = 0
    for s in [x for x in info["iter"].get(0, []) if x.status in ("run", "cont") and B.z3_sat(list(x.pc)) != "unsat"]:
        n += 1
        sc = [e for e in U.iter_events(s) if not isinstance(e, tuple) and e.name == "safe_close"]
        elem = [t for t in tm.subterms(sc[0].args[1])] if sc else []
        good = len(sc) == 1 and "mnode(iter_" in repr(sc[0].args[1])
        ok(r, "close_ostreams.every_member_of_the_set_closed_through_safe_close[iteration path %d]" % n, good, repr(sc)[:160], kind="trace")
    reach(r, "reach.close_ostreams.iteration", n >= 1, "%d" % n)
    ins1 = [e for s in alive(fin) for e in evs(s, "insert")]
    if ins1:
        en_ = [e for x in info["iter"].get(0, []) for e in x.events if not isinstance(e, tuple) and short(e) == "end" and e.recv is ins1[0].recv]
        itv_ = [nm for nm in info["names"] if nm == "it"]
        if en_ and itv_:
            loop_runs_exactly_while(r, "close_ostreams.walk_runs_exactly_until_the_end_of_the_set", info["iter"].get(0, []), tm.not_(tm.eq(tm.sym("iter_it", "P"), en_[0].result)))
    def starts_at_begin(info_, label, container_pred):
        ent = info_["entry"].get(0, [])
        good = bool(ent)
        for s0 in ent:
            bg = [e for e in evs(s0) if short(e) == "begin" and container_pred(e.recv)]
            itv = [v for nm, i_ in info_["names"].items() for v in [s0.locals.get(i_)] if bg and v is bg[-1].result]
            good = good and len(bg) == 1 and bool(itv)
        ok(r, label, good, "%d entry states" % len(ent), kind="establishment")
    ins0 = [e for s in alive(fin) for e in evs(s, "insert")]
    starts_at_begin(info, "close_ostreams.walk_starts_at_the_first_member_of_that_set", lambda rc: bool(ins0) and rc is ins0[0].recv)
    # IPhreeqc::close_output_files
    c = _safe_close_contract(ctx(functional=("Get_punch_ostream",))); c.log_stores = True
    f, ex, fin, info = run(IPQ, "IPhreeqc::close_output_files", c=c, modes={0: "iter"})
    shas.append(U.new_unit("x", IPQ, "f", f).sha)
    badc = None; badi = None
    for s in alive(fin, ("ret",)):
        sc = [e for e in evs(s) if e.name == "safe_close"]
        got = sorted(field_of_recv(e.args[0]) or "?" for e in sc if e.args[0].op == "app")
        if got != ["dump_ostream", "error_ostream", "log_ostream", "output_ostream"] or any(e.args[0].args[1] is not THIS for e in sc if e.args[0].op == "app"):
            badc = repr(got)
        pst = [v for e, f_, v in stores(s, THIS, "punch_ostream")]
        if not (pst and pst[-1] is NULLP):
            badc = "punch_ostream: %r" % (pst,)
    ok(r, "close_output_files.output_log_dump_error_streams_each_closed_once_and_punch_ostream_cleared", badc is None, badc or "", kind="trace")
    n = 0
    for s in [x for x in info["iter"].get(0, []) if x.status in ("run", "cont") and B.z3_sat(list(x.pc)) != "unsat"]:
        n += 1
        E = [e for e in U.iter_events(s) if not isinstance(e, tuple)]
        sc = [e for e in E if e.name == "safe_close"]
        sp = [e for e in E if short(e) == "Set_punch_ostream"]
        gp = [e for e in E if short(e) == "Get_punch_ostream"]
        good = len(sc) == 1 and len(gp) >= 1 and sc[0].args[1] is gp[0].result and len(sp) == 1 and sp[0].recv is gp[0].recv and sp[0].args[0] is NULLP and E.index(sc[0]) < E.index(sp[0]) and "mnode(iter_" in repr(gp[0].recv)
        if not good and badi is None:
            badi = repr(E)[:240]
    starts_at_begin(info, "close_output_files.walk_starts_at_the_first_definition", lambda rc: field_of_recv(rc) == "SelectedOutput_map")
    mp_ = tm.app("fld:SelectedOutput_map", (tm.select(tm.sym("H0.PhreeqcPtr:P", ("A", "P", "P")), THIS),), "P")
    loop_runs_exactly_while(r, "close_output_files.walk_runs_exactly_until_the_end_of_SelectedOutput_map", info["iter"].get(0, []), tm.not_(tm.eq(tm.sym("iter_it", "P"), tm.app("mend", (mp_,), "P"))))
    ok(r, "close_output_files.each_definition's_punch_stream_closed_then_the_definition_told_it_has_none(every_iteration_path)", badi is None and n >= 1, badi or "%d iteration paths" % n, kind="trace")
    reach(r, "reach.close_output_files.iteration", n >= 1, "%d" % n)
    r.sha = hashlib.sha256("".join(x or "" for x in shas).encode()).hexdigest()
    r.assumptions += ["std::set holds each distinct pointer once and the loop visits every member (the loop heads are checked as full traversals by the driver)", "delete of a std::ofstream flushes and closes it (library)",
                      "callers use safe_close by the contract proved in this unit"]
    return r


UNITS.append(("C09.streams.close.each_stream_closed_once_and_forgotten", unit_close))


# ---------------------------------------------------------------------------------------------------------------- views
def _is_static(t):
    return t is not None and t.op == "sym" and (t.args[0].startswith("&static.") or t.args[0].startswith("&G.empty"))


def unit_so_lines(twin=False):
    """GetSelectedOutputStringLineCount(): the number of lines kept for the CURRENT user number (0 when none are kept);
    GetSelectedOutputStringLine(n): for 0 <= n < count exactly line n of the lines kept for the current user number, otherwise the empty
    string; no vector is read outside its range."""
    q = "IPhreeqc::GetSelectedOutputStringLine"
    fc, exc, finc, _ = run(IPQ, q + "Count")
    r = U.new_unit("C09.lines.GetSelectedOutputStringLine", IPQ, q, A.find_function(IPQ, q))
    m = tm.app("fld:SelectedOutputLinesMap", (THIS,), "P")
    seen = set()
    def vec_of(ex, s):
        cur = fld0(ex, s, "CurrentSelectedOutputUserNumber", "I")
        has = tm.select(ex.heap_arr(SX.State(), ("m2", "#mhas", "B", "I")), m, cur)
        v = tm.app("fld:second", (tm.app("mnode", (tm.app("miter", (m, cur), "P"),), "P"),), "P")
        return cur, has, v
    for i, s in enumerate(alive(finc, ("ret",))):
        cur, has, v = vec_of(exc, s)
        size = tm.select(exc.heap_arr(SX.State(), ("f", "#vsize", "I")), v)
        if tm.isnum(s.ret):
            seen.add("c0")
            ok(r, "count.zero_only_when_no_lines_are_kept_for_the_current_user_number[path %d]" % i, s.ret.args[0] == 0 and proved(s.pc, tm.not_(has)), "%r under %r" % (s.ret, s.pc), backend="z3-5.1")
        else:
            seen.add("cn")
            U.discharge_valid(r, "count.number_of_lines_kept_for_the_current_user_number[path %d]" % i, list(s.pc) + [has], tm.eq(exc.coerce(s.ret, "I"), size if not twin else tm.add(size, tm.num(1, "I"))))
            ok(r, "count.entry_present[path %d]" % i, proved(s.pc, has), repr(s.pc)[:160], backend="z3-5.1")
        ok(r, "count.writes_nothing[path %d]" % i, not all_writes(s) and not evs(s), "", kind="frame")
    c = ctx(functional=("GetSelectedOutputStringLineCount",)); c.stl.check_bounds = True
    f, ex, fin, _ = run(IPQ, q, c=c)
    n = param(0, "n", "I")
    cnt = tm.app("call:GetSelectedOutputStringLineCount", (THIS,), "I")
    for i, s in enumerate(alive(fin, ("ret",))):
        cur, has, v = vec_of(ex, s)
        inr = tm.and_(tm.le(tm.num(0, "I"), n), tm.lt(n, cnt))
        if _is_static(s.ret):
            seen.add("out")
            ok(r, "line.empty_string_only_outside_0..count-1[path %d]" % i, proved(s.pc, tm.not_(inr)), repr(s.pc)[:160], backend="z3-5.1")
            ok(r, "line.out_of_range_touches_nothing[path %d]" % i, not all_writes(s), "", kind="frame")
        else:
            seen.add("in")
            data = tm.select(ex.heap_arr(SX.State(), ("f", "#vdata", "P")), v)
            want = tm.app("c_str", (tm.select(ex.heap_arr(SX.State(), ("m", "S")), data, n),), "P")
            ok(r, "line.in_range_only[path %d]" % i, proved(s.pc, inr), repr(s.pc)[:160], backend="z3-5.1")
            ok(r, "line.returns_line_n_of_the_lines_kept_for_the_current_user_number[path %d]" % i, s.ret is want, "%r vs %r" % (s.ret, want))
            wr = [(k, ix, val) for k, ix, val in all_writes(s) if k[1] not in ("#mhas", "#msize")]
            ok(r, "line.no_line_is_changed[path %d]" % i, not wr, repr(wr)[:160], kind="frame")
    for k, (what, pc, ob) in enumerate(c.stl.side):
        cur, has, v = vec_of(ex, SX.State())
        size = tm.select(ex.heap_arr(SX.State(), ("f", "#vsize", "I")), v)
        # the count is, by the first half of this unit, the size of the vector kept for the current user number (or 0 without entry)
        U.discharge_valid(r, "index_in_range.%d(%s)" % (k, what), list(pc) + [tm.eq(cnt, tm.ite(has, size, tm.num(0, "I")))], ob, kind="safety")
    reach(r, "reach.all_cases", seen == {"c0", "cn", "in", "out"}, repr(sorted(seen)))
    r.assumptions += ["std::map / std::vector model; the lines are filled by update_lines (unit C09.lines.split_pairing)"]
    return r


def unit_string_views(twin=False):
    """The string views hand out the accumulator of THEIR OWN stream exactly when its string switch is on, and a fixed explanatory text
    otherwise: GetOutputString / GetLogString / GetDumpString; GetErrorString additionally needs error reporting on and first refreshes
    ErrorString from the error accumulator; GetWarningString refreshes WarningString from the warning accumulator; GetSelectedOutputString
    hands out the string kept for the CURRENT user number (explanatory text when no switch was ever set for it, empty when nothing was
    written)."""
    r = U.new_unit("C09.strings.each_view_is_its_own_accumulator_gated_by_its_switch", IPQ, "IPhreeqc::GetOutputString / GetLogString / GetDumpString / GetErrorString / GetWarningString / GetSelectedOutputString",
                   A.find_function(IPQ, "IPhreeqc::GetOutputString"))
    import hashlib
    shas = []
    for X in ("Output", "Log", "Dump"):
        f, ex, fin, _ = run(IPQ, "IPhreeqc::Get%sString" % X)
        shas.append(U.new_unit("x", IPQ, "f", f).sha)
        seen = set()
        for i, s in enumerate(alive(fin, ("ret",))):
            on = fld0(ex, s, X + "StringOn", "B")
            if _is_static(s.ret):
                seen.add("off")
                ok(r, "%s.explanatory_text_only_when_its_string_switch_is_off[path %d]" % (X, i), proved(s.pc, tm.not_(on)), repr(s.pc)[:120], backend="z3-5.1")
            else:
                seen.add("on")
                want = tm.app("c_str", (fld0(ex, s, (X if not (twin and X == "Log") else "Output") + "String", "S"),), "P")
                ok(r, "%s.its_own_accumulator_only_when_its_string_switch_is_on[path %d]" % (X, i), s.ret is want and proved(s.pc, on), "%r under %r" % (s.ret, s.pc), backend="z3-5.1")
            ok(r, "%s.changes_nothing[path %d]" % (X, i), not all_writes(s) and not evs(s), "", kind="frame")
        reach(r, "reach.%s" % X, seen == {"on", "off"}, repr(sorted(seen)))
    for X, gated in (("Error", True), ("Warning", False)):
        f, ex, fin, _ = run(IPQ, "IPhreeqc::Get%sString" % X)
        shas.append(U.new_unit("x", IPQ, "f", f).sha)
        seen = set()
        for i, s in enumerate(alive(fin, ("ret",))):
            on = tm.and_(fld0(ex, s, "error_on", "B"), fld0(ex, s, "ErrorStringOn", "B")) if gated else tm.TRUE
            if _is_static(s.ret):
                seen.add("off")
                ok(r, "%s.explanatory_text_only_when_a_switch_is_off[path %d]" % (X, i), gated and proved(s.pc, tm.not_(on)) and not evs(s), repr(s.pc)[:120], backend="z3-5.1")
            else:
                seen.add("on")
                E = evs(s)
                os_ = [e for e in E if short(e) == "GetOS"]; st_ = [e for e in E if short(e) == "str"]; asg = [e for e in E if short(e) in ("operator=", "assign")]
                good = len(os_) == 1 and os_[0].recv is fld0(ex, s, X + "Reporter", "P") and len(st_) == 1 and st_[0].recv is os_[0].result and len(asg) == 1 and field_of_recv(asg[0].recv) == X + "String" \
                    and asg[0].recv.args[1] is THIS and asg[0].args[0] is st_[0].result
                ok(r, "%s.view_refreshed_from_its_own_accumulator[path %d]" % (X, i), good, repr(E)[:200], kind="trace")
                ok(r, "%s.refreshed_view_handed_out_only_when_enabled[path %d]" % (X, i), s.ret.op == "app" and s.ret.args[0] == "c_str" and (X + "String:") in repr(s.ret) and proved(s.pc, on), "%r under %r" % (s.ret, s.pc), backend="z3-5.1")
        reach(r, "reach.%s" % X, seen == ({"on", "off"} if gated else {"on"}), repr(sorted(seen)))
    f, ex, fin, _ = run(IPQ, "IPhreeqc::GetSelectedOutputString")
    shas.append(U.new_unit("x", IPQ, "f", f).sha)
    seen = set()
    for i, s in enumerate(alive(fin, ("ret",))):
        cur = fld0(ex, s, "CurrentSelectedOutputUserNumber", "I")
        msw = tm.app("fld:SelectedOutputStringOn", (THIS,), "P"); mst = tm.app("fld:SelectedOutputStringMap", (THIS,), "P")
        hsw = tm.select(ex.heap_arr(s, ("m2", "#mhas", "B", "I")), msw, cur)
        hst = tm.select(ex.heap_arr(s, ("m2", "#mhas", "B", "I")), mst, cur)
        if s.ret.op == "app" and s.ret.args[0] == "c_str":
            seen.add("text")
            want = tm.app("c_str", (tm.select(ex.heap_arr(s, ("m2", "#mval", "S", "I")), mst, cur),), "P")
            ok(r, "SelectedOutput.string_kept_for_the_current_user_number[path %d]" % i, s.ret is want and proved(s.pc, tm.and_(hsw, hst)), "%r under %r" % (s.ret, s.pc), backend="z3-5.1")
        elif s.ret.op == "sym" and s.ret.args[0].startswith("&static."):
            seen.add("notset")
            ok(r, "SelectedOutput.explanatory_text_only_when_no_switch_was_set_for_the_current_user_number[path %d]" % i, proved(s.pc, tm.not_(hsw)), repr(s.pc)[:160], backend="z3-5.1")
        else:
            seen.add("empty")
            ok(r, "SelectedOutput.empty_only_when_nothing_is_kept_for_the_current_user_number[path %d]" % i, _is_static(s.ret) and proved(s.pc, tm.not_(hst)), "%r under %r" % (s.ret, s.pc), backend="z3-5.1")
        ok(r, "SelectedOutput.changes_nothing[path %d]" % i, not all_writes(s), "", kind="frame")
    reach(r, "reach.SelectedOutput", seen == {"text", "notset", "empty"}, repr(sorted(seen)))
    r.sha = hashlib.sha256("".join(x or "" for x in shas).encode()).hexdigest()
    r.assumptions += ["CErrorReporter::GetOS()->str() is the text accumulated by AddError (ErrorReporter.hxx)", "function-local static arrays are the explanatory texts"]
    return r


UNITS += [("C09.lines.GetSelectedOutputStringLine", unit_so_lines),
          ("C09.strings.each_view_is_its_own_accumulator_gated_by_its_switch", unit_string_views)]


def _split_loops(r, tag, ex, info, pairs, twin=False):
    """every line-splitting loop iteration: getline reads the stream that was constructed from string S and the line is appended to
    the vector V paired with S"""
    n = 0
    bad = None
    for o, sts in sorted(info["iter"].items()):
        for s in [x for x in sts if x.status in ("run", "cont") and B.z3_sat(list(x.pc)) != "unsat"]:
            E = [e for e in U.iter_events(s) if not isinstance(e, tuple)]
            gl = [e for e in E if short(e) == "getline"]
            pb = [e for e in E if e.name == "vector.push_back"]
            if not gl and not pb:
                continue
            n += 1
            if len(gl) != 1 or len(pb) != 1:
                bad = bad or "loop %d: %r" % (o, [short(e) for e in E]); continue
            ct = [e for e in s.events if not isinstance(e, tuple) and e.name.startswith("ctor ") and "istringstream" in e.name and e.recv is gl[0].args[0]]
            if len(ct) != 1 or not ct[0].args:
                bad = bad or "loop %d: stream of getline not constructed in this function" % o; continue
            src, dst = repr(ct[0].args[0]), repr(pb[0].recv)
            def ins(a): return (("fld:%s(" % a) in src) if a.endswith("Map") else (("H0.%s:" % a) in src)
            def ind(b): return ("fld:%s(" % b) in dst
            hit = [(a, b) for a, b in pairs if ins(a) and ind(b)]
            good = len(hit) == 1 and not [(a, b) for a, b in pairs if ins(a) != ind(b)]
            if good and hit[0][0] == "SelectedOutputStringMap":
                keys = [t for t in tm.subterms(ct[0].args[0]) if t.op == "app" and t.args[0] == "call:GetNthSelectedOutputUserNumber"]
                good = len(keys) == 1 and keys[0] in tm.subterms(pb[0].recv)
            if twin and hit and hit[0][0] == "LogString":
                good = False
            if not good:
                bad = bad or "loop %d: stream from %s, lines into %s" % (o, src[:80], dst[:80])
    ok(r, tag + ".every_splitting_loop_reads_the_string_paired_with_the_lines_it_fills", bad is None and n >= len(pairs) - (1 if tag == "update_lines" else 0), bad or "%d loop iteration paths" % n, kind="trace")
    return n


def unit_lines_rebuilt(twin=False):
    """The line views are rebuilt FROM SCRATCH from their own strings: IPhreeqc::update_lines clears LogLines, OutputLines and the
    selected-output lines on every path before anything is appended, splits LogString / OutputString only when their string switch is on and
    the string of every user number whose switch is on into the lines kept under the same user number; IPhreeqc::update_errors clears
    ErrorLines / WarningLines, refreshes ErrorString / WarningString from their accumulators and then splits exactly those strings."""
    q = "IPhreeqc::update_lines"
    c = ctx(functional=("GetSelectedOutputCount", "GetNthSelectedOutputUserNumber", "get_sel_out_string_on")); c.log_stores = True
    f, ex, fin, info = run(IPQ, q, c=c, default="iter")
    r = U.new_unit("C09.lines.rebuilt_from_scratch_from_their_own_strings", IPQ, "IPhreeqc::update_lines / update_errors", f)
    import hashlib
    shas = [U.new_unit("x", IPQ, "f", f).sha]
    seen = set()
    for i, s in enumerate(alive(fin)):
        E = [e for e in evs(s) if e.name != "store"]
        pos = {id(e): k for k, e in enumerate(E)}
        clr = {field_of_recv(e.recv): e for e in E if short(e).endswith("clear") and field_of_recv(e.recv)}
        cts = [e for e in E if e.name.startswith("ctor ") and "istringstream" in e.name]
        firstc = min([pos[id(e)] for e in cts] or [len(E)])
        good = all(m in clr and pos[id(clr[m])] < firstc for m in ("LogLines", "OutputLines", "SelectedOutputLinesMap"))
        ok(r, "update_lines.all_line_views_cleared_before_anything_is_split[path %d]" % i, good, repr(sorted(clr))[:160], kind="trace")
        for X in ("Log", "Output"):
            on = fld0(ex, s, X + "StringOn", "B")
            mine = [e for e in cts if e.args and (X + "String:") in repr(e.args[0])]
            if mine:
                seen.add(X + ".on")
                ok(r, "update_lines.%sString_split_only_when_its_switch_is_on[path %d]" % (X, i), proved(s.pc, on) and len(mine) == 1, repr(s.pc)[:160], backend="z3-5.1")
            else:
                seen.add(X + ".off")
                ok(r, "update_lines.%sString_skipped_only_when_its_switch_is_off[path %d]" % (X, i), proved(s.pc, tm.not_(on)), repr(s.pc)[:160], backend="z3-5.1")
    # the per-user-number loop: string of n split only when the switch of n is on
    badn = None; nn = 0
    for o, sts in info["iter"].items():
        for s in [x for x in sts if x.status in ("run", "cont") and B.z3_sat(list(x.pc)) != "unsat"]:
            E = [e for e in U.iter_events(s) if not isinstance(e, tuple)]
            nth = [e for e in E if short(e) == "GetNthSelectedOutputUserNumber"]
            if not nth:
                continue
            nn += 1
            nterm = nth[0].result
            sw = tm.to_bool(tm.app("call:get_sel_out_string_on", (THIS, nterm), "B"))
            cts = [e for e in E if e.name.startswith("ctor ") and "istringstream" in e.name]
            if cts:
                want = tm.select(ex.heap_arr(SX.State(), ("m2", "#mval", "S", "I")), tm.app("fld:SelectedOutputStringMap", (THIS,), "P"), nterm)
                if not (proved(s.pc, sw) and len(cts) == 1 and cts[0].args and cts[0].args[0] is want):
                    badn = badn or repr(cts)[:200]
            elif not proved(s.pc, tm.or_(tm.not_(sw), tm.not_(tm.select(ex.heap_arr(SX.State(), ("m2", "#mhas", "B", "I")), tm.app("fld:SelectedOutputStringMap", (THIS,), "P"), nterm)))):
                badn = badn or "string of n not split although its switch is on: %r" % (s.pc,)
    ok(r, "update_lines.string_of_user_number_n_split_exactly_when_the_string_switch_of_n_is_on", badn is None and nn >= 1, badn or "%d iteration paths" % nn, kind="trace")
    _split_loops(r, "update_lines", ex, info, [("LogString", "LogLines"), ("OutputString", "OutputLines"), ("SelectedOutputStringMap", "SelectedOutputLinesMap")], twin=twin)
    reach(r, "reach.update_lines", seen == {"Log.on", "Log.off", "Output.on", "Output.off"}, repr(sorted(seen)))
    # update_errors
    c = ctx(); c.log_stores = True
    f, ex, fin, info = run(IPQ, "IPhreeqc::update_errors", c=c, default="iter")
    shas.append(U.new_unit("x", IPQ, "f", f).sha)
    for i, s in enumerate(alive(fin)):
        E = [e for e in evs(s) if e.name != "store"]
        pos = {id(e): k for k, e in enumerate(E)}
        for X in ("Error", "Warning"):
            clr = [e for e in E if short(e).endswith("clear") and field_of_recv(e.recv) == X + "Lines"]
            os_ = [e for e in E if short(e) == "GetOS" and e.recv is fld0(ex, s, X + "Reporter", "P")]
            st_ = [e for e in E if short(e) == "str" and os_ and e.recv is os_[0].result]
            asg = [e for e in E if short(e) in ("operator=", "assign") and field_of_recv(e.recv) == X + "String" and st_ and e.args[0] is st_[0].result]
            cts = [e for e in E if e.name.startswith("ctor ") and "istringstream" in e.name and e.args and (X + "String:") in repr(e.args[0])]
            good = len(clr) == 1 and len(asg) == 1 and all(pos[id(clr[0])] < pos[id(x)] and pos[id(asg[0])] < pos[id(x)] for x in cts)
            ok(r, "update_errors.%sLines_cleared_and_%sString_refreshed_from_its_accumulator_before_splitting[path %d]" % (X, X, i), good, repr([short(e) for e in E])[:200], kind="trace")
    _split_loops(r, "update_errors", ex, info, [("ErrorString", "ErrorLines"), ("WarningString", "WarningLines")])
    r.sha = hashlib.sha256("".join(x or "" for x in shas).encode()).hexdigest()
    r.assumptions += ["std::getline(stream, line) yields the next line of the text the stream was constructed from; push_back appends it (library)", "GetNthSelectedOutputUserNumber / GetSelectedOutputCount enumerate the defined user numbers (not under this unit)",
                      "get_sel_out_string_on: unit C05.switch.get_sel_out_string_on (known finding)"]
    return r


UNITS.append(("C09.lines.rebuilt_from_scratch_from_their_own_strings", unit_lines_rebuilt))
from props.c09_ext4 import UNITS as _U4; UNITS = UNITS + _U4
from props.c09_xgas import UNITS as _UX; UNITS = UNITS + _UX
from props.c09_punchframe import UNITS as _UP; UNITS = UNITS + _UP
from props.c09_ext5 import UNITS as _U5; UNITS = UNITS + _U5
