"""C17: BASIC control state.  NEXT v continues the innermost FOR record of variable v (stale inner records are discarded, no other
record is used); the loop variable advances by STEP and the loop continues exactly while it has not passed the limit;
clearvar() returns a scalar to 0 / empty so that every execution of a stored program starts from fresh variables."""
from props.common import *
from vf.core import FAILED, DISCHARGED, UNDECIDED

PB = "src/phreeqcpp/PBasic.cpp"


def unit_cmdnext(twin=False):
    q = "PBasic::cmdnext"
    fn = A.find_function(PB, q)
    r = U.new_unit("C17.cmdnext.continues_the_FOR_of_its_variable", PB, q, fn)
    ev = A.enum_values_compiled("PBasic.h", ["PBasic::forloop", "PBasic::whileloop", "PBasic::gosubloop"]) if False else None
    f, ex, its, info = U.run_loop_isolated(PB, q, 0, ctx=ctx())
    n = 0
    for s in live(its, ("run", "cont")):
        if any(e.name.endswith("errormsg") for e in U.iter_events(s)):
            continue            # errormsg throws: NEXT without FOR
        n += 1
        lb0 = tm.select(entry_arr(ex, s, ("f", "loopbase", "P")), THIS)
        v = local(info, s, "v")
        kind = fld0(ex, s, "kind", "I", lb0)
        vp = fld0(ex, s, "vp", "P", tm.app("fld:U0", (tm.app("fld:UU", (lb0,), "P"),), "P"))
        FOR = kind_value("forloop")
        match = tm.and_(tm.eq(kind, tm.num(FOR, "I")), tm.or_(tm.eq(v, tm.num(0, "P")), tm.eq(vp, v)))
        if twin:
            match = tm.eq(kind, tm.num(FOR, "I"))
        found = local(info, s, "found")
        hy = list(s.pc)
        U.discharge_valid(r, "search.found<=>top_record_is_FOR_of_v(or_NEXT_without_variable)", hy, tm.and_(tm.implies(tm.to_bool(found), match), tm.implies(match, tm.to_bool(found))) if hasattr(tm, "implies") else
                          tm.and_(tm.or_(tm.not_(tm.to_bool(found)), match), tm.or_(tm.not_(match), tm.to_bool(found))))
        w = writes(s, ("f", "loopbase", "P"))
        frees = [e for e in U.iter_events(s) if e.name.endswith("PHRQ_free")]
        if B.z3_prove(hy, match)[0] == "proved":
            r.add("search.matching_record_kept", DISCHARGED if not w and not frees else FAILED, "symex", 0, repr(w)[:100], kind="frame")
        elif B.z3_prove(hy, tm.not_(match))[0] == "proved":
            ok = len(w) == 1 and w[0][1] is fld0(ex, s, "next", "P", lb0) and len(frees) == 1 and frees[0].args[0] is lb0
            r.add("search.stale_record_popped_and_freed", DISCHARGED if ok else FAILED, "symex", 0, "%r %r" % (w, [e.args for e in frees]), kind="post")
        else:
            r.add("search.case_decided", UNDECIDED, "z3", 0, repr(s.pc)[:200])
    r.add("reach.search", DISCHARGED if n >= 2 else UNDECIDED, "symex", 0, "%d" % n, kind="vacuity")
    # the loop ends only when found: condition of the do-while
    loops = [x for x in A.walk(fn) if x.get("kind") == "DoStmt"]
    r.add("search.repeats_until_found", DISCHARGED if len(loops) == 1 and text_of(PB, loops[0]["inner"][1]) == "!found" else FAILED, "syntactic", 0, "", kind="structural")
    # step and continuation test
    st = find_stmt(fn, PB, "*WITH->UU.U0.vp->UU.U0.val +=", prefix=True, kinds=("CompoundAssignOperator",))
    ifs = [x for x in A.body_of(fn)["inner"] if x.get("kind") == "IfStmt" and "WITH->UU.U0.step" in text_of(PB, x["inner"][0])]
    if len(ifs) != 1:
        raise Undecided("continuation test of cmdnext not found")
    f, ex, fin, info = region(PB, q, [st, ifs[0]])
    nc = 0
    for s in live(fin, ("run", "ret")):
        W = local(info, s, "WITH")
        u0 = tm.app("fld:U0", (tm.app("fld:UU", (W,), "P"),), "P")
        step, mx = fld0(ex, s, "step", "R", u0), fld0(ex, s, "max", "R", u0)
        vpp = fld0(ex, s, "vp", "P", u0)
        valp = fld0(ex, s, "val", "P", tm.app("fld:U0", (tm.app("fld:UU", (vpp,), "P"),), "P"))
        wv = [(ix, v) for ix, v in writes(s, ("m", "R"))]
        if len(wv) != 1 or wv[0][0] != (valp, tm.num(0, "I")):
            r.add("step.writes_the_loop_variable_once", FAILED, "symex", 0, repr(wv)[:200]); continue
        old = tm.select(entry_arr(ex, s, ("m", "R")), valp, tm.num(0, "I"))
        U.discharge_eq_real(r, "step.variable+=STEP", list(s.pc), wv[0][1], old + step)
        new = wv[0][1]
        cont = tm.and_(tm.or_(tm.lt(step, tm.num(0)), tm.le(new, mx)), tm.or_(tm.lt(tm.num(0), step), tm.le(mx, new)))
        jumped = s.status == "ret"
        nc += 1
        hy = list(s.pc)
        if jumped:
            U.discharge_valid(r, "continue.jump_home_only_while_limit_not_passed", hy, cont)
            wl = writes(s, ("f", "stmtline", "P"))
            r.add("continue.resumes_at_the_FOR's_home_line", DISCHARGED if wl and wl[-1][1] is fld0(ex, s, "homeline", "P", W) else FAILED, "symex", 0, repr(wl)[:120])
        else:
            U.discharge_valid(r, "exit.loop_left_only_when_limit_passed", hy, tm.not_(cont))
    r.add("reach.step", DISCHARGED if nc >= 2 else UNDECIDED, "symex", 0, "%d" % nc, kind="vacuity")
    r.assumptions += ["errormsg() throws (NEXT without FOR)", "findvar / token handling not under this contract", "doubles as reals (no rounding in the step)"]
    return r


def kind_value(name):
    from vf.astvc import hdr
    return hdr.define_value("src/phreeqcpp/PBasic.h", name)


def unit_clearvar(twin=False):
    q = "PBasic::clearvar"
    fn = A.find_function(PB, q)
    r = U.new_unit("C17.clearvar.scalar_reset_to_zero_or_empty", PB, q, fn)
    f, ex, fin, info = U.run_function(PB, q, ctx=ctx())
    v = tm.sym("P0_v", "P")
    u0 = tm.app("fld:U0", (tm.app("fld:UU", (v,), "P"),), "P"); u1 = tm.app("fld:U1", (tm.app("fld:UU", (v,), "P"),), "P")
    n = 0
    for s in [s for s in fin if s.status in ("run", "ret") and B.z3_sat(list(s.pc)) != "unsat"]:
        n += 1
        isstr = fld0(ex, s, "stringvar", "B", v)
        hy = list(s.pc)
        U.discharge_valid(r, "post.numdims==0", hy, tm.eq(fld(ex, s, "numdims", "I", v), tm.num(0, "I")))
        if B.z3_prove(hy, isstr)[0] == "proved":
            U.discharge_valid(r, "string.sv==NULL", hy, tm.eq(fld(ex, s, "sv", "P", u1), tm.num(0, "P")))
            U.discharge_valid(r, "string.sval_points_to_own_sv", hy, tm.eq(fld(ex, s, "sval", "P", u1), tm.app("fld:sv", (u1,), "P")))
        else:
            rv = fld(ex, s, "rv", "R", u0)
            U.discharge_valid(r, "numeric.rv==0", hy, tm.eq(rv, tm.num(0)) if not twin else tm.eq(rv, tm.num(1)))
            U.discharge_valid(r, "numeric.val_points_to_own_rv", hy, tm.eq(fld(ex, s, "val", "P", u0), tm.app("fld:rv", (u0,), "P")))
    r.add("reach.paths", DISCHARGED if n >= 4 else UNDECIDED, "symex", 0, "%d" % n, kind="vacuity")
    # clearvars visits every variable of the list
    fc = A.find_function(PB, "PBasic::clearvars")
    t = text_of(PB, A.body_of(fc))
    r.add("clearvars.walks_the_whole_variable_list", DISCHARGED if "v=varbase;while(v!=NULL){clearvar(v);v=v->next;}" in t else FAILED, "syntactic", 0, "", kind="structural")
    r.assumptions += ["array storage release (PHRQ_free / free_dim_stringvar) is not under this contract", "U0/U1 are members of one anonymous union (numeric and string views are exclusive by stringvar)"]
    return r
