"""C17: BASIC control state.  NEXT v continues the innermost FOR record of variable v (stale inner records are discarded, no other
record is used); the loop variable advances by STEP and the loop continues exactly while it has not passed the limit;
clearvar() returns a scalar to 0 / empty so that every execution of a stored program starts from fresh variables."""
from props.common import *
from vf.core import FAILED, DISCHARGED, UNDECIDED

PB = "src/phreeqcpp/PBasic.cpp"


def unit_cmdnext(twin=False):
    q = "PBasic::cmdnext"
    fn = A.find_function(PB, q)
    r = U.new_unit("C17.cmdnext.continues_the_FOR_of_its_variable", PB, q, fn)
    ev = A.enum_values_compiled("PBasic.h", ["PBasic::forloop", "PBasic::whileloop", "PBasic::gosubloop"]) if False else None
    f, ex, its, info = U.run_loop_isolated(PB, q, 0, ctx=ctx())
    n = 0
    for s in live(its, ("run", "cont")):
        if any(e.name.endswith("errormsg") for e in U.iter_events(s)):
            continue            # errormsg throws: NEXT without FOR
        n += 1
        lb0 = tm.select(entry_arr(ex, s, ("f", "loopbase", "P")), THIS)
        v = local(info, s, "v")
        kind = fld0(ex, s, "kind", "I", lb0)
        vp = fld0(ex, s, "vp", "P", tm.app("fld:U0", (tm.app("fld:UU", (lb0,), "P"),), "P"))
        FOR = kind_value("forloop")
        match = tm.and_(tm.eq(kind, tm.num(FOR, "I")), tm.or_(tm.eq(v, tm.num(0, "P")), tm.eq(vp, v)))
        if twin:
            match = tm.eq(kind, tm.num(FOR, "I"))
        found = local(info, s, "found")
        hy = list(s.pc)
        U.discharge_valid(r, "search.found<=>top_record_is_FOR_of_v(or_NEXT_without_variable)", hy, tm.and_(tm.implies(tm.to_bool(found), match), tm.implies(match, tm.to_bool(found))) if hasattr(tm, "implies") else
                          tm.and_(tm.or_(tm.not_(tm.to_bool(found)), match), tm.or_(tm.not_(match), tm.to_bool(found))))
        w = writes(s, ("f", "loopbase", "P"))
        frees = [e for e in U.iter_events(s) if e.name.endswith("PHRQ_free")]
        for hy_, matches in cases(hy, match):
            if matches:
                r.add("search.matching_record_kept", DISCHARGED if not w and not frees else FAILED, "symex", 0, repr(w)[:100], kind="frame")
            else:
                ok = len(w) == 1 and w[0][1] is fld0(ex, s, "next", "P", lb0) and len(frees) == 1 and frees[0].args[0] is lb0
                r.add("search.stale_record_popped_and_freed", DISCHARGED if ok else FAILED, "symex", 0, "%r %r" % (w, [e.args for e in frees]), kind="post")
    r.add("reach.search", DISCHARGED if n >= 2 else UNDECIDED, "symex", 0, "%d" % n, kind="vacuity")
    # the loop ends only when found: condition of the do-while
    loops = [x for x in A.walk(fn) if x.get("kind") == "DoStmt"]
    r.add("search.repeats_until_found", DISCHARGED if len(loops) == 1 and text_of(PB, loops[0]["inner"][1]) == "!found" else FAILED, "syntactic", 0, "", kind="structural")
    # step and continuation test
    st = find_stmt(fn, PB, "*WITH->UU.U0.vp->UU.U0.val +=", prefix=True, kinds=("CompoundAssignOperator",))
    ifs = [x for x in A.body_of(fn)["inner"] if x.get("kind") == "IfStmt" and "WITH->UU.U0.step" in text_of(PB, x["inner"][0])]
    if len(ifs) != 1:
        raise Undecided("continuation test of cmdnext not found")
    f, ex, fin, info = region(PB, q, [st, ifs[0]])
    nc = 0
    for s in live(fin, ("run", "ret")):
        W = local(info, s, "WITH")
        u0 = tm.app("fld:U0", (tm.app("fld:UU", (W,), "P"),), "P")
        step, mx = fld0(ex, s, "step", "R", u0), fld0(ex, s, "max", "R", u0)
        vpp = fld0(ex, s, "vp", "P", u0)
        valp = fld0(ex, s, "val", "P", tm.app("fld:U0", (tm.app("fld:UU", (vpp,), "P"),), "P"))
        wv = [(ix, v) for ix, v in writes(s, ("m", "R"))]
        if len(wv) != 1 or wv[0][0] != (valp, tm.num(0, "I")):
            r.add("step.writes_the_loop_variable_once", FAILED, "symex", 0, repr(wv)[:200]); continue
        old = tm.select(entry_arr(ex, s, ("m", "R")), valp, tm.num(0, "I"))
        U.discharge_eq_real(r, "step.variable+=STEP", list(s.pc), wv[0][1], old + step)
        new = wv[0][1]
        cont = tm.and_(tm.or_(tm.lt(step, tm.num(0)), tm.le(new, mx)), tm.or_(tm.lt(tm.num(0), step), tm.le(mx, new)))
        jumped = s.status == "ret"
        nc += 1
        hy = list(s.pc)
        if jumped:
            U.discharge_valid(r, "continue.jump_home_only_while_limit_not_passed", hy, cont)
            wl = writes(s, ("f", "stmtline", "P"))
            r.add("continue.resumes_at_the_FOR's_home_line", DISCHARGED if wl and wl[-1][1] is fld0(ex, s, "homeline", "P", W) else FAILED, "symex", 0, repr(wl)[:120])
        else:
            U.discharge_valid(r, "exit.loop_left_only_when_limit_passed", hy, tm.not_(cont))
    r.add("reach.step", DISCHARGED if nc >= 2 else UNDECIDED, "symex", 0, "%d" % nc, kind="vacuity")
    r.assumptions += ["errormsg() throws (NEXT without FOR)", "findvar / token handling not under this contract", "doubles as reals (no rounding in the step)"]
    return r


def kind_value(name):
    from vf.astvc import hdr
    return hdr.define_value("src/phreeqcpp/PBasic.h", name)


def unit_clearvar(twin=False):
    q = "PBasic::clearvar"
    fn = A.find_function(PB, q)
    r = U.new_unit("C17.clearvar.scalar_reset_to_zero_or_empty", PB, q, fn)
    f, ex, fin, info = U.run_function(PB, q, ctx=ctx())
    v = tm.sym("P0_v", "P")
    u0 = tm.app("fld:U0", (tm.app("fld:UU", (v,), "P"),), "P"); u1 = tm.app("fld:U1", (tm.app("fld:UU", (v,), "P"),), "P")
    n = 0
    for s in [s for s in fin if s.status in ("run", "ret") and B.z3_sat(list(s.pc)) != "unsat"]:
        n += 1
        isstr = fld0(ex, s, "stringvar", "B", v)
        hy = list(s.pc)
        U.discharge_valid(r, "post.numdims==0", hy, tm.eq(fld(ex, s, "numdims", "I", v), tm.num(0, "I")))
        if B.z3_prove(hy, isstr)[0] == "proved":
            U.discharge_valid(r, "string.sv==NULL", hy, tm.eq(fld(ex, s, "sv", "P", u1), tm.num(0, "P")))
            U.discharge_valid(r, "string.sval_points_to_own_sv", hy, tm.eq(fld(ex, s, "sval", "P", u1), tm.app("fld:sv", (u1,), "P")))
        else:
            rv = fld(ex, s, "rv", "R", u0)
            U.discharge_valid(r, "numeric.rv==0", hy, tm.eq(rv, tm.num(0)) if not twin else tm.eq(rv, tm.num(1)))
            U.discharge_valid(r, "numeric.val_points_to_own_rv", hy, tm.eq(fld(ex, s, "val", "P", u0), tm.app("fld:rv", (u0,), "P")))
    r.add("reach.paths", DISCHARGED if n >= 4 else UNDECIDED, "symex", 0, "%d" % n, kind="vacuity")
    # clearvars visits every variable of the list
    fc = A.find_function(PB, "PBasic::clearvars")
    t = text_of(PB, A.body_of(fc))
    r.add("clearvars.walks_the_whole_variable_list", DISCHARGED if "v=varbase;while(v!=NULL){clearvar(v);v=v->next;}" in t else FAILED, "syntactic", 0, "", kind="structural")
    r.assumptions += ["array storage release (PHRQ_free / free_dim_stringvar) is not under this contract", "U0/U1 are members of one anonymous union (numeric and string views are exclusive by stringvar)"]
    return r


def unit_string_comparison(twin=False):
    """relexpr on two string operands: =, <, >, <=, >=, <> follow the sign of strcmp(a, b) (lexicographic order), equal strings
    satisfy =, <=, >= only."""
    from props import C17 as M
    from vf.astvc import symex as SX
    ev = M.token_values()
    tv = {k.split("::")[-1]: v for k, v in ev.items()}
    fn0 = A.find_function(PB, "PBasic::relexpr")
    r = U.new_unit("C17.relexpr.string_operands_follow_strcmp", PB, "PBasic::relexpr", fn0)
    zero = tm.num(0, "I")
    n_ops = 0
    for op in ("tokeq", "toklt", "tokgt", "tokle", "tokge", "tokne"):
        ctx = M.mkctx(ev); ctx.functional.add("strcmp")
        def prepare(ex, st, info, k=tv[op]):
            link = st.locals[info["names"]["LINK"]]
            t = ex.load(st, ("field", "t", link), "P")
            st.heap[("f", "kind", "I")] = tm.store(ex.heap_arr(st, ("f", "kind", "I")), (t,), tm.num(k, "I"))
            n = st.locals[info["names"]["n"]][1]
            st.heap[("f", "stringval", "B")] = tm.store(ex.heap_arr(st, ("f", "stringval", "B")), (n,), tm.TRUE)
        fn, ex, iters, info = U.run_loop_isolated(PB, "PBasic::relexpr", 0, ctx=ctx, prepare=prepare)
        n_addr = tm.sym("&L_n", "P"); n2_addr = tm.sym("&L_n2", "P")
        got = 0
        for s in iters:
            if s.status == "throw" or B.z3_sat(list(s.pc)) == "unsat":
                continue
            cs = [e.result for e in U.iter_events(s) if e.name.split("::")[-1] == "strcmp"]
            if not cs:
                continue
            c = cs[0]
            if any(x is not c for x in cs):
                r.add("%s.compares_the_same_two_strings_throughout" % op, FAILED, "trace", 0, ""); continue
            got += 1
            res = M.nval(ex, s, n_addr)
            rel = {"tokeq": tm.eq(c, zero), "toklt": tm.lt(c, zero), "tokgt": tm.lt(zero, c), "tokle": tm.le(c, zero), "tokge": tm.le(zero, c), "tokne": tm.not_(tm.eq(c, zero))}[op]
            if twin and op == "tokle":
                rel = tm.lt(c, zero)
            U.discharge_valid(r, "%s.result_is_1_iff_%s" % (op, {"tokeq": "strcmp==0", "toklt": "strcmp<0", "tokgt": "strcmp>0", "tokle": "strcmp<=0", "tokge": "strcmp>=0", "tokne": "strcmp!=0"}[op]),
                              list(s.pc), tm.eq(res, tm.ite(rel, tm.num(1), tm.num(0))))
        if got:
            n_ops += 1
        else:
            r.add("%s.reach" % op, UNDECIDED, "symex", 0, "no string path", kind="vacuity")
    r.add("reach.operators", DISCHARGED if n_ops == 6 else UNDECIDED, "symex", 0, "%d of 6" % n_ops, kind="vacuity")
    r.assumptions += ["strcmp is the C library's lexicographic comparison", "both operand strings are released afterwards (not under this unit)"]
    return r


def unit_findvar_subscripts(twin=False):
    """Array element addressing in findvar: every subscript is inside its dimension (0 <= j < dims[d]; negative values are rejected by
    the unsigned comparison), and the offset is the row-major Horner form k' = k * dims[d] + j with the extent of the SAME dimension —
    so the element lies inside the allocation and distinct index tuples address distinct elements."""
    from props import C17 as M
    ev = M.token_values()
    c = M.mkctx(ev); c.model_unsigned = True
    def thr(ex_, st, n, name, recv, args):
        st.status = "throw"; return [(st, tm.num(0, "I"))]
    c.handlers["PBasic::badsubscr"] = thr
    fn = A.find_function(PB, "PBasic::findvar")
    r = U.new_unit("C17.findvar.subscripts_in_range_and_row_major", PB, "PBasic::findvar", fn)
    k = loop_ordinal(fn, PB, init_text="i=1", cond_text="i<=FORLIM")
    f, ex, its, info = U.run_loop_isolated(PB, "PBasic::findvar", k, ctx=c)
    n = 0
    for s in its:
        if s.status == "throw" or B.z3_sat(list(s.pc)) == "unsat":
            continue
        n += 1
        v = local(info, s, "v"); i = tm.sym("iter_i", "I")
        j = local(info, s, "j"); k1 = local(info, s, "k"); k0 = tm.sym("iter_k", "I")
        dim = tm.select(entry_arr(ex, s, ("m", "I")), tm.app("fld:dims", (v,), "P"), i - tm.num(1, "I"))
        if twin:
            dim = tm.select(entry_arr(ex, s, ("m", "I")), tm.app("fld:dims", (v,), "P"), i)
        inv = [tm.le(tm.num(1, "I"), dim), tm.lt(dim, tm.num(2 ** 31, "I"))]       # representation invariant of varrec: extents are positive ints
        hy = list(s.pc) + inv + [tm.le(tm.num(-2 ** 63, "I"), j), tm.lt(j, tm.num(2 ** 63, "I"))]     # j is a long
        U.discharge_valid(r, "subscript>=0", hy, tm.le(tm.num(0, "I"), j))
        U.discharge_valid(r, "subscript<extent_of_its_dimension", hy, tm.lt(j, dim))
        U.discharge_valid(r, "offset==k*extent_of_this_dimension+subscript", hy, tm.eq(k1, k0 * dim + j))
    r.add("reach.subscript_paths", DISCHARGED if n >= 1 else UNDECIDED, "symex", 0, "%d" % n, kind="vacuity")
    t = text_of(PB, fn)
    r.add("offset_starts_at_0", DISCHARGED if "k=0;LINK->t=LINK->t->next;FORLIM=v->numdims;" in t else FAILED, "syntactic", 0, "", kind="establishment")
    r.add("element_addressed_is_arr[k]", DISCHARGED if "v->UU.U1.sval=&v->UU.U1.sarr[k];" in t and "v->UU.U0.val=&v->UU.U0.arr[k];" in t else FAILED, "syntactic", 0, "", kind="post")
    r.assumptions += ["64-bit unsigned long (conversion of a negative long wraps to 2^64 + v)", "extents of a dimensioned variable are positive (set by DIM / the implicit 11)",
                      "badsubscr() reports a BASIC error and does not return", "two text anchors"]
    return r


def unit_cmdrestore(twin=False):
    """RESTORE n positions the DATA pointer at the first token of line n: dataline and datatok move together (in the library build,
    i.e. without the GUI's parse-only mode, on every path)."""
    from props import C17 as M
    q = "PBasic::cmdrestore"
    fn = A.find_function(PB, q)
    r = U.new_unit("C17.cmdrestore.data_pointer_moves_with_the_data_line", PB, q, fn)
    c = M.mkctx(M.token_values()); c.functional.update({"iseos", "mustfindline", "intexpr"})
    f, ex, fin, info = U.run_function(PB, q, ctx=c)
    n = 0
    for s in [s for s in fin if s.status in ("ret", "run") and B.z3_sat(list(s.pc)) != "unsat"]:
        wl = writes(s, ("f", "dataline", "P")); wt = writes(s, ("f", "datatok", "P"))
        gui = fld0(ex, s, "phreeqci_gui", "B")
        if not wl:
            continue                      # plain RESTORE: restoredata()
        n += 1
        line = wl[-1][1]
        lib = B.z3_sat(list(s.pc) + [tm.not_(tm.to_bool(gui))]) != "unsat"      # spec-side case: a path the library build can take
        if lib or twin:
            ok = len(wt) == 1 and wt[0][1] is fld0(ex, s, "txt", "P", line)
            r.add("library_build.datatok==first_token_of_the_new_data_line", DISCHARGED if ok and not twin else FAILED, "symex", 0, repr(wt)[:120])
    r.add("reach.RESTORE_with_line_number", DISCHARGED if n >= 2 else UNDECIDED, "symex", 0, "%d paths" % n, kind="vacuity")
    r.assumptions += ["mustfindline returns the line record of that number or reports an error (not under contract)", "GUI parse-only mode is outside the library's behaviour"]
    return r


READOUTS = {   # BASIC function -> the engine quantity it reports (PHREEQC-3 manual); (llnl variant, default)
    "tokdh_a": ("a_llnl", "DH_A"), "tokdh_b": ("b_llnl", "DH_B"), "tokdh_av": (None, "DH_Av"), "tokeps_r": (None, "eps_r"),
    "tokmu": (None, "mu_x"), "toktc": (None, "tc_x"), "tokqbrn": (None, "QBrn"), "tokcharge_balance": (None, "cb_x"), "tokm": (None, "rate_m"),
}


def unit_scalar_readouts(twin=False):
    """Scalar read-outs of the BASIC interpreter (PBasic::factor): each function returns the engine quantity of its name
    (DH_A / DH_B: the LLNL parameters a_llnl / b_llnl when an LLNL temperature grid is loaded, else the Debye-Hueckel A / B)."""
    import re
    q = "PBasic::factor"
    fn = A.find_function(PB, q)
    r = U.new_unit("C17.factor.scalar_readouts_return_the_quantity_they_name", PB, q, fn, kind="structural")
    n = 0
    for tok, (llnl, default) in sorted(READOUTS.items()):
        body = None
        for sw in [x for x in A.walk(fn) if x.get("kind") == "SwitchStmt"]:
            for cst in sw["inner"][-1].get("inner", []):
                if cst.get("kind") != "CaseStmt":
                    continue
                names = [y.get("referencedDecl", {}).get("name") for y in A.walk(cst["inner"][0]) if y.get("kind") == "DeclRefExpr"]
                if tok in names:
                    inner = cst["inner"][-1]
                    while inner.get("kind") == "CaseStmt":
                        inner = inner["inner"][-1]
                    t = text_of(PB, inner)
                    if "n.UU.val=" in t:
                        body = t
        if body is None:
            r.add("%s.case_found" % tok, UNDECIDED, "syntactic", 0, ""); continue
        n += 1
        vals = re.findall(r"n\.UU\.val=(?:\(parse_all\)\?[01]:)?PhreeqcPtr->(\w+);", body)
        want = ([llnl] if llnl else []) + [default]
        if twin and tok == "tokdh_b":
            want = ["a_llnl", "DH_B"]
        ok = vals == want and (not llnl or "PhreeqcPtr->llnl_temp.size()>0" in body)
        r.add("%s.returns_%s" % (tok, "/".join(want)), DISCHARGED if ok else FAILED, "syntactic", 0, "assigns %r" % (vals,))
    r.add("reach.readouts", DISCHARGED if n >= 7 else UNDECIDED, "syntactic", 0, "%d" % n, kind="vacuity")
    r.assumptions += ["the table of names is the specification (manual); text anchors on the case bodies"]
    return r
