"""Per-property registry: what is claimed, at which level, with which note; and the
reason recorded in MANIFEST.not_applicable for every property not claimed."""
HOOK_COMMITS = []
NOTES = ("Technique family: contract-based deductive verification of the real code. Engine A = CBMC dfcc contracts; "
         "Engine B = astvc (own VC generator over clang's AST, z3/sympy back ends). Bounded units are listed apart in the evidence "
         "and never counted as proved. exit 2 + UNDECIDED lines = tool limit / extraction break, never a violation.")
WIP = "no contract-sized unit built for this property yet (work in progress; see DESIGN.md §4)"
PROPS = {
 "C05": {"claimed": True, "engine": "A+B", "level": "proof",
         "technique": "CBMC dfcc contracts on real src/Var.c and on padfstring cut from the Fortran glue; own VC generator (clang AST, STL model, z3) for the table class",
         "text": "Variant copy/clear discipline of Var.c (function contracts enforced by goto-instrument --dfcc for all inputs); CSelectedOutput against its representation invariant: "
                 "GetRowCount = (cols ? rows+1 : 0), GetColCount, Get(row,col) returns VR_INVALIDROW/VR_INVALIDCOL in an error-typed VAR for every out-of-range index, row 0 = heading, else cell (row-1,col), table unchanged, "
                 "no vector index out of range; EndRow pads every short column to exactly the new row count (never-punched cells are default = empty); PushBack appends a padded column for a new key and maps it to the new index, "
                 "or fills the open row's cell, keeping the invariant; per-user-number switch look-ups; both fpunchf_user overloads send value i to heading i or to the same synthesized column; padfstring blank-pads exactly len bytes. "
                 "printf rendering, file bytes, punch order of the engine and tidy_punch are NOT decided.",
         "note": "Trusted: CBMC 6.11 and its C library models; Var.c read as C; astvc + clang AST + z3; STL model of vector/map (element identity abstract). String-content units (VarAllocString, VarCopy with string source, padfstring) are bounded and "
                 "listed apart. Known finding printed on every run: get_sel_out_string_on ignores its argument (pinned by an existing test)."},
 "C07": {"claimed": True, "engine": "B", "level": "other",
         "technique": "generated per-member reset obligations from symbolic execution of the unload sequence over clang's AST",
         "text": "One generated obligation per data member of class Phreeqc (593) and class IPhreeqc (49): after the unload sequence "
                 "(clean_up + clean-up callees, init, initialize + init callees; IPhreeqc::UnLoadDatabase) executed from an arbitrary pre-state the member's value contains "
                 "no pre-state symbol (scalars), or the container is cleared/reassigned; survivors named by the property must not be written. Catches a missing or "
                 "mis-ordered reset line and a new member without one. Level 'other': term inspection, not a solver proof; behavioural equality with a fresh instance "
                 "for all follow-up inputs is NOT decided.",
         "note": "Calls other than the inlined callees are credited with nothing and assumed not to dirty members; loops with symbolic bounds are skipped. "
                 "26+16 members are exempt with a written-before-read justification and 58 container/scratch members are dropped (not reset at the pinned commit, "
                 "observability undecided): contracts/B/reset_exempt.json. Three genuine defects found by these obligations were repaired (known_findings.json)."},
 "C19": {"claimed": True, "engine": "B", "level": "proof",
         "technique": "own VC generator over clang AST: iteration/statement contracts on isolated loops, sympy normalisation, z3",
         "text": "Statement/iteration contracts on the loops of both Phreeqc::calc_PR functions, each executed from an arbitrary state: per gas a = 0.457235 R^2 Tc^2/Pc, b = 0.077796 R Tc/Pc, "
                 "alpha = (1+kappa(1-sqrt(T/Tc)))^2 re-evaluated at the current temperature (representation invariant on the cached values), mole fraction = moles/sum, "
                 "P = RT/(Vm-b) - a_alpha/(Vm^2+2bVm-b^2), partial pressure = x*P, ln(phi) equals the Peng-Robinson fugacity equation clamped to [-4.6,4.44], phi = exp, si_f = ln(phi)/ln10, "
                 "absent gas: p=0, phi=1; only that gas's fields are written. Root selection in the three-root region, fixed-pressure existence, the mixing sums and the solver coupling are NOT decided.",
         "note": "Doubles as reals; log/exp/sqrt uninterpreted; literals 2.828427/2.41421356/0.41421356 checked against 2sqrt2, 1+sqrt2, sqrt2-1 at 1e-6; std::vector model; the surrounding function is not executed (loops are isolated)."},
 "C06": {"na_reason": "quantifies over thread schedules and bitwise reproducibility; code contracts and the VC generator are sequential and read doubles as reals; "
                      "the sequential remainder (unique ids, lock bracketing) belongs to C13 and says nothing about races"},
}
for _p in ["C%02d" % i for i in range(1, 21)]:
    PROPS.setdefault(_p, {"na_reason": WIP})
