"""Per-property registry (data in registry.json): what is claimed, at which level, with which note; and the
reason recorded in MANIFEST.not_applicable for every property not claimed.  Edit with tools/reg.py."""
import json, os
_d = json.load(open(os.path.join(os.path.dirname(os.path.abspath(__file__)), "registry.json")))
HOOK_COMMITS = _d["hook_commits"]
NOTES = _d["notes"]
WIP = "no contract-sized unit built for this property yet (work in progress; see DESIGN.md section 4)"
PROPS = dict(_d["props"])
for _p in ["C%02d" % i for i in range(1, 21)]:
    PROPS.setdefault(_p, {"na_reason": WIP})
