"""Per-property registry: what is claimed, at which level, with which note; and the
reason recorded in MANIFEST.not_applicable for every property not claimed."""
HOOK_COMMITS = []
NOTES = ("Technique family: contract-based deductive verification of the real code. Engine A = CBMC dfcc contracts; "
         "Engine B = astvc (own VC generator over clang's AST, z3/sympy back ends). Bounded units are listed apart in the evidence "
         "and never counted as proved. exit 2 + UNDECIDED lines = tool limit / extraction break, never a violation.")
WIP = "no contract-sized unit built for this property yet (work in progress; see DESIGN.md §4)"
PROPS = {
 "C05": {"claimed": True, "engine": "A+B", "level": "proof",
         "technique": "CBMC dfcc function contracts on real src/Var.c",
         "text": "Function contracts (requires/ensures/assigns/frees) enforced per function by goto-instrument --dfcc + CBMC for all inputs: "
                 "variant copy/clear discipline of Var.c. Says nothing about printf rendering, file bytes or the engine's punch order.",
         "note": "Trusted: CBMC 6.11 and its C library models; Var.c read as C. String-content units (VarAllocString, VarCopy with a string source) are "
                 "bounded by VERIF_MAXN and listed under bounded_units, not counted in obligations/discharged."},
 "C01": {"claimed": True, "engine": "B", "level": "proof",
         "technique": "own VC generator over clang AST + exact polynomial normalisation (sympy) / z3",
         "text": "Function contract on Phreeqc::k_calc: for all T>0, P and log K coefficient arrays the result is the database expression "
                 "(van 't Hoff + analytical expression + molar-volume pressure term); the difference code - specification normalises to 0 exactly. "
                 "The fixed point of the Newton solver (mass action / mole balance at convergence for every input and database) is NOT decided.",
         "note": "Doubles read as mathematical reals; log10 uninterpreted; astvc (vf/astvc) and clang's AST are trusted. Partial claim: only the named function-level facts."},
 "C08": {"claimed": True, "engine": "A+B", "level": "proof",
         "technique": "CBMC contracts on functions cut mechanically from utilities.cpp (loop contracts for read-only walks, bounded unwinding otherwise) + AST-typed call-site capacity obligations",
         "text": "C-string helpers of utilities.cpp (copy_token, str_tolower/upper, squeeze_white, isamong, strcmp_nocase, strcmp_nocase_arg1) cut from /repo on every run: memory safety and functional result "
                 "for all byte strings (isamong/strcmp_nocase*: unbounded, loop contracts; the writing loops: bounded by unwinding, listed apart). copy_token(char*) bounds itself to MAX_LENGTH, and every one of its 126 call "
                 "sites with a fixed-size destination provides >= MAX_LENGTH bytes; every strcpy_safe/strcat_safe site passes max <= capacity; the heap-buffer copies in cleanup_after_parser/get_line fit on every path; "
                 "strcpy_safe/strcat_safe stay within max on the normal path; the tail of set_and_run_wrapper reports non-convergence (error) and MASS_BALANCE faithfully. "
                 "Absence of crashes in the 125 k-line engine as a whole, leaks, file faults and everything that reaches the helpers as std::string is NOT decided.",
         "note": "Known finding (printed as KNOWN-FINDING): strcpy_safe/strcat_safe terminate the process on an oversize source. Bounded units are not counted as proved. "
                 "Counterexamples of Engine A units are replayed natively under ASan/UBSan. C locale models of ctype; call sites located by text scan then typed by clang."},
 "C12": {"claimed": True, "engine": "B", "level": "proof",
         "technique": "coefficients read from clang's AST as exact rationals; Butcher order conditions in Q; path-wise VCs with z3",
         "text": "Lemmas over the Runge-Kutta tableau literally coded in Phreeqc::rk_kinetics: every stage combination is linear in the stored stage rates with the strides "
                 "stage*n_reactions+j, row sums equal the nodes used in the rate_sim_time updates, the weights satisfy all 17 order conditions to order 5 and the embedded weights c-dc all 8 to order 4, "
                 "sum dc = 0, low-order shortcut weights sum to one; every test that clears the equal-rate flag means |x-y| > tol; cxxKinetics::Current_step returns the step time per manual with all "
                 "vector indices in range and incremental = cumulative bookkeeping. Step-size control, limit_rates, cvode and agreement with closed-form solutions are NOT decided.",
         "note": "Decimal literals read as the rationals they spell; value of k at a site = textually last assignment; reaction_step >= 1 and count > 0 assumed; std::vector model."},
 "C13": {"claimed": True, "engine": "B", "level": "proof",
         "technique": "own VC generator over clang AST: symbolic execution with ghost call trace, z3",
         "text": "Generated forwarding contract for every extern \"C\" function of IPhreeqcLib.cpp (same-named method, receiver = instance of id, arguments in order, "
                 "documented result translation, nothing called on a bad id) and every *F function of IPhreeqc_interface_F.cpp (same-named C function, *id, documented -1 shifts, "
                 "padfstring on the result). All paths, all argument values.",
         "note": "GetInstance assumed pure (own unit). Behaviour of the forwarded-to methods is outside these units. astvc and clang's AST trusted."},
 "C16": {"claimed": True, "engine": "B", "level": "proof",
         "technique": "own VC generator over clang AST: iteration contract + symbolic derivative lemma (sympy), z3",
         "text": "Iteration contract on the species loop of Phreeqc::gammas: for gflag 0,1,2,3,5,7 log gamma equals the model's defining equation "
                 "(neutral, Davies, extended/WATEQ Debye-Hueckel, unit, LLNL B-dot) and dg = moles*ln10*d(lg)/d(mu) with the derivative taken symbolically from the specification; "
                 "only lg/dg of that species are written. Statement contract: a_llnl/b_llnl/bdot_llnl are the linear interpolation between table entries. "
                 "Pitzer and SIT sums, Gibbs-Duhem consistency, the DH A/B parameters and exchange/surface cases are NOT decided.",
         "note": "Doubles as reals; sqrt/log10 uninterpreted (sqrt(x)^2=x); std::vector model; error_msg(.., STOP) assumed not to return; search loop over the LLNL table over-approximated (havoc)."},
 "C07": {"claimed": True, "engine": "B", "level": "other",
         "technique": "generated per-member reset obligations from symbolic execution of the unload sequence over clang's AST",
         "text": "One generated obligation per data member of class Phreeqc (593) and class IPhreeqc (49): after the unload sequence "
                 "(clean_up + clean-up callees, init, initialize + init callees; IPhreeqc::UnLoadDatabase) executed from an arbitrary pre-state the member's value contains "
                 "no pre-state symbol (scalars), or the container is cleared/reassigned; survivors named by the property must not be written. Catches a missing or "
                 "mis-ordered reset line and a new member without one. Level 'other': term inspection, not a solver proof; behavioural equality with a fresh instance "
                 "for all follow-up inputs is NOT decided.",
         "note": "Calls other than the inlined callees are credited with nothing and assumed not to dirty members; loops with symbolic bounds are skipped. "
                 "26+16 members are exempt with a written-before-read justification and 58 container/scratch members are dropped (not reset at the pinned commit, "
                 "observability undecided): contracts/B/reset_exempt.json. Three genuine defects found by these obligations were repaired (known_findings.json)."},
 "C19": {"claimed": True, "engine": "B", "level": "proof",
         "technique": "own VC generator over clang AST: iteration/statement contracts on isolated loops, sympy normalisation, z3",
         "text": "Statement/iteration contracts on the loops of both Phreeqc::calc_PR functions, each executed from an arbitrary state: per gas a = 0.457235 R^2 Tc^2/Pc, b = 0.077796 R Tc/Pc, "
                 "alpha = (1+kappa(1-sqrt(T/Tc)))^2 re-evaluated at the current temperature (representation invariant on the cached values), mole fraction = moles/sum, "
                 "P = RT/(Vm-b) - a_alpha/(Vm^2+2bVm-b^2), partial pressure = x*P, ln(phi) equals the Peng-Robinson fugacity equation clamped to [-4.6,4.44], phi = exp, si_f = ln(phi)/ln10, "
                 "absent gas: p=0, phi=1; only that gas's fields are written. Root selection in the three-root region, fixed-pressure existence, the mixing sums and the solver coupling are NOT decided.",
         "note": "Doubles as reals; log/exp/sqrt uninterpreted; literals 2.828427/2.41421356/0.41421356 checked against 2sqrt2, 1+sqrt2, sqrt2-1 at 1e-6; std::vector model; the surrounding function is not executed (loops are isolated)."},
 "C06": {"na_reason": "quantifies over thread schedules and bitwise reproducibility; code contracts and the VC generator are sequential and read doubles as reals; "
                      "the sequential remainder (unique ids, lock bracketing) belongs to C13 and says nothing about races"},
}
for _p in ["C%02d" % i for i in range(1, 21)]:
    PROPS.setdefault(_p, {"na_reason": WIP})
