"""C17 extension 2: the numeric and string built-ins of PBasic::factor that had no contract yet, and the capacity of every destination of
numtostr."""
from props.c17_ext_model import *
from props.c17_ext_loops import pv
from props.c17_ext_data import case_stmts
from props.c17_ext2_parse import thrower

QF = "PBasic::factor"
NREC = tm.sym("&L_n", "P")
LINKL = tm.sym("L_LINK", "P")


def fctx(repoint=True):
    c = mkctx(repoint=repoint)
    c.functional.update({"strlen", "strstr"})
    c.handlers["Phreeqc::malloc_error"] = thrower
    return c


def quiet(s):
    return not any(e.name.endswith("malloc_error") for e in s.events)


def rapp(f, x):
    return tm.app(f, (x,), "R")


ONE, ZERO = tm.num(1), tm.num(0)
NUMERIC = {
    # token: (operand parser, specification of the result as a function of the operand x)
    "toksqr": ("realfactor", lambda x: x * x),
    "toksqrt": ("realfactor", lambda x: rapp("sqrt", x)),
    "tokceil": ("realfactor", lambda x: rapp("ceil", x)),
    "tokfloor": ("realfactor", lambda x: rapp("floor", x)),
    "toksin": ("realfactor", lambda x: rapp("sin", x)),
    "tokcos": ("realfactor", lambda x: rapp("cos", x)),
    "toktan": ("realfactor", lambda x: rapp("sin", x) / rapp("cos", x)),
    "tokarctan": ("realfactor", lambda x: rapp("atan", x)),
    "toklog": ("realfactor", lambda x: rapp("log", x)),
    "toklog10": ("realfactor", lambda x: rapp("log10", x)),
    "tokexp": ("realfactor", lambda x: rapp("exp", x)),
    "tokabs": ("realfactor", lambda x: tm.ite(tm.lt(x, ZERO), tm.neg(x), x)),
    "toksgn": ("realfactor", lambda x: tm.ite(tm.lt(ZERO, x), ONE, tm.ite(tm.lt(x, ZERO), tm.neg(ONE), ZERO))),
    "tokminus": ("realfactor", lambda x: tm.neg(x)),
    "tokplus": ("realfactor", lambda x: x),
    "toknot": ("intfactor", lambda i: tm.to_real(tm.app("bitnot", (i,), "I"))),
}


def unit_numeric(twin=False):
    """The numeric built-ins and unary operators of factor: each evaluates exactly ONE operand (the factor behind the keyword) and returns
    a NUMBER equal to its mathematical definition applied to that operand - SQR x*x, SQRT, CEIL, FLOOR, SIN, COS, TAN = sin/cos, ARCTAN,
    LOG (natural), LOG10, EXP, ABS, SGN in {-1, 0, 1}, unary minus / plus, NOT = bitwise complement of the integer operand."""
    fn = A.find_function(PB, QF)
    r = U.new_unit("C17.factor.numeric_builtins_return_their_mathematical_function_of_the_one_operand", PB, QF, fn)
    n = 0
    for tok, (parser, spec) in sorted(NUMERIC.items()):
        nodes = case_stmts(fn, tok, None)
        if nodes is None:
            r.add("%s.case_found" % tok, UNDECIDED, "ast", 0, ""); continue
        f, ex, fin, info = run_stmts(QF, nodes, fctx())
        live_ = [s for s in alive(fin) if quiet(s)]
        if not ok(r, "%s.one_path_that_ends_normally" % tok, len(live_) >= 1 and all(s.status in ("run", "brk") for s in live_), "%s" % [s.status for s in live_]):
            continue
        for s in live_:
            n += 1
            pe = [e for e in s.events if e.name.split("::")[-1] in PARSERS]
            if not ok(r, "%s.exactly_one_operand_read_behind_the_keyword" % tok, len(pe) == 1 and pe[0].name.endswith("::" + parser) and pe[0].args[0] is LINKL and pe[0].args[-1] is F0("t", "P", LINKL), "%s" % [e.name for e in pe]):
                continue
            x = pe[0].result
            want = spec(x)
            if twin and tok == "tokcos":
                want = rapp("sin", x)
            if twin and tok == "toksgn":
                want = tm.ite(tm.lt(ZERO, x), ONE, ZERO)
            U.discharge_valid(r, "%s.value_is_the_function_of_the_operand" % tok, hyp(s), tm.eq(F(ex, s, "val", "R", UUo(NREC)), want))
            ok(r, "%s.result_is_a_number" % tok, not writes(s, ("f", "stringval", "B")), "", kind="frame")
            ok(r, "%s.position_is_behind_the_operand" % tok, F(ex, s, "t", "P", LINKL) is pe[0].snap, "")
    reach(r, "reach.numeric_builtins", n, len(NUMERIC))
    r.assumptions += ["realfactor / intfactor evaluate one factor, check its type and return its value (their own evaluation: units C17.expr.*)", "n.stringval is false on entry to every case (set before the switch)",
                      "sqrt ceil floor sin cos atan log log10 exp are the C library's (uninterpreted real functions); doubles as reals", "the result record is factor's local `n`"]
    return r


# ------------------------------------------------------------------------------------------------------------------ numtostr capacity
def _fmt_bound(fmt, int_digits=309):
    """longest text (without terminator) that printf produces for one finite double with this conversion (fixed notation: for a number
    with at most int_digits digits before the point)"""
    m = re.match(r"^%(\d*)\.(\d+)([efg])$", fmt)
    if not m:
        return None
    w = int(m.group(1) or 0)
    p = int(m.group(2))
    if m.group(3) == "f":
        need = 1 + int_digits + ((1 + p) if p else 0)          # sign, up to 309 integer digits of a finite double, point and decimals
    else:
        need = 1 + 1 + (1 + p if p else 0) + 1 + 1 + 3    # sign d . ddd e sign ddd
    return max(w, need)


def unit_numtostr(twin=False):
    """numtostr(Result, x) copies the text it rendered into Result without a length: Result must hold the LONGEST text numtostr can
    render for a finite number plus the terminator, at every call site (STR$, PRINT, LIST).  The longest text is derived from numtostr's
    own printf conversions (an integer-valued x is written with %W.0f: up to 309 digits), a test of the rendered length in front of the
    copy (a too long text is rendered again in exponent form), a magnitude guard on the path, and the size it hands to snprintf."""
    q = "PBasic::numtostr"
    fn = A.find_function(PB, q)
    r = U.new_unit("C17.numtostr.every_destination_holds_the_longest_rendering_of_a_number", PB, q, fn)
    c = mkctx(); c.handlers["Phreeqc::malloc_error"] = thrower; c.handlers["exit"] = thrower
    c.functional.add("strlen")
    f, ex, fin, info = run_fn(q, c)
    bound = 0
    nsn = 0
    def fmts_of(t):
        if t.op == "str":
            return [t.args[0].strip('"')]
        if t.op == "ite":
            return fmts_of(t.args[1]) + fmts_of(t.args[2])
        return [None]
    for s in alive(fin, ("ret", "run")):
        sp = evs(s, "snprintf")
        cp = evs(s, "strcpy")
        if not ok(r, "numtostr.copies_the_text_it_rendered_last_into_Result", len(sp) >= 1 and len(cp) == 1 and cp[0].args[0] is tm.sym("P0_Result", "P") and all(e.args[0] is cp[0].args[1] and e.args[3] is tm.sym("P1_n", "R") for e in sp)
                  and s.events.index(sp[-1]) < s.events.index(cp[0]), "%s %s" % (sp, cp)):
            continue
        nsn += 1
        last = sp[-1]
        fbs = [_fmt_bound(f_) if f_ else None for f_ in fmts_of(last.args[2])]
        if any(b is None for b in fbs):
            r.add("numtostr.conversion_understood[%r]" % (last.args[2],), UNDECIDED, "ast", 0, ""); continue
        fb = max(fbs)
        hy = hyp(s)
        if any(f_.endswith("f") for f_ in fmts_of(last.args[2])):
            # a guard on the magnitude of the number (|n| < 10^k on this path) shortens the integer part to k digits
            x = tm.sym("P1_n", "R")
            ax = tm.ite(tm.lt(x, ZERO), tm.neg(x), x)
            for k in (12, 15, 16, 18, 20, 30, 50, 100, 200, 240):
                if prove(hy, tm.lt(ax, tm.num(10 ** k))):
                    fb = max(_fmt_bound(f_, k) for f_ in fmts_of(last.args[2]))
                    break
        if len(sp) == 1:
            # a test of the rendered text's length between the rendering and the copy bounds what reaches strcpy
            L = tm.app("call:strlen", (tm.NULL, last.args[0]), "I")
            nums = sorted(set(int(x.args[0]) for t in s.pc for x in tm.subterms(t) if tm.isnum(x) and x.sort == "I" and 0 < x.args[0] < 100000))
            for K in sorted(set(nums + [k_ - 1 for k_ in nums] + [k_ + 1 for k_ in nums])):
                if prove(hy, tm.le(L, tm.num(K, "I"))):
                    fb = min(fb, K)
                    break
        b = fb + 1
        size = last.args[1]
        if tm.isnum(size):
            b = min(b, int(size.args[0]))
        bound = max(bound, b)
    reach(r, "reach.numtostr_renderings", nsn, 4)
    r.add("numtostr.longest_rendering_with_terminator", DISCHARGED, "derived", 0, "%d bytes" % bound, kind="trace")
    if twin:
        bound = bound + 100000
    # ---- the call sites
    sites = 0
    # STR$
    ffn = A.find_function(PB, QF)
    nodes = case_stmts(ffn, "tokstr_", None)
    if nodes is None:
        r.add("site[STR$].found", UNDECIDED, "ast", 0, "")
    else:
        f2, ex2, fin2, info2 = run_stmts(QF, nodes, fctx())
        for s in alive(fin2):
            if not quiet(s):
                continue
            nt = evs(s, "numtostr")
            al = {e.result: e for e in evs(s, "PHRQ_calloc")}
            if not ok(r, "site[STR$].destination_is_a_buffer_allocated_for_this_result", len(nt) == 1 and nt[0].args[0] in al, "%s" % nt):
                continue
            sites += 1
            a = al[nt[0].args[0]]
            U.discharge_valid(r, "site[STR$].destination_holds_the_longest_rendering(%d_bytes)" % bound, hyp(s), tm.le(tm.num(bound, "I"), a.args[0] * a.args[1]), kind="safety")
    for q2, what in (("PBasic::cmdprint", "PRINT"), ("PBasic::listtokens", "LIST")):
        fn2 = A.find_function(PB, q2)
        calls = [x for x in A.walk(fn2) if x.get("kind") in ("CXXMemberCallExpr", "CallExpr") and text_of(PB, x).startswith("numtostr(")]
        if not calls:
            r.add("site[%s].found" % what, UNDECIDED, "ast", 0, ""); continue
        for cx in calls:
            dest = strip(cx["inner"][1])
            cap = None
            if dest.get("kind") == "DeclRefExpr":
                qt = dest.get("type", {}).get("qualType", "")
                m = re.match(r"char\s*\[(\d+)\]", qt)
                if m:
                    cap = int(m.group(1))
            if cap is None:
                r.add("site[%s].destination_is_a_character_array_of_known_size" % what, UNDECIDED, "ast", 0, text_of(PB, cx)[:80]); continue
            sites += 1
            ok(r, "site[%s].destination_holds_the_longest_rendering(%d_bytes)" % (what, bound), bound <= cap, "capacity %d" % cap, kind="safety")
    reach(r, "reach.numtostr_call_sites", sites, 3)
    r.assumptions += ["printf renders a finite double with %W.0f in at most 1 + 309 characters and with %W.Pe in at most P + 8 (or W) characters; snprintf(buf, size, ...) writes at most size bytes",
                      "call sites of numtostr in this build: STR$ in factor, cmdprint, listtokens (the plotting commands are not compiled)", "strcpy copies the rendered text and its terminator"]
    return r


# ------------------------------------------------------------------------------------------------------------------ string built-ins
def _sh(e):
    return e.name.split("::")[-1]


def _req(s):
    return [e.args[0] for e in evs(s, "require")]


def unit_strings(twin=False):
    """String built-ins of factor against their BASIC definitions: STR$(x) the text of the number x (in a fresh buffer); CHR$(i) the one
    character with code i; ASC(s) the code of the first character, 0 for the empty string; LEN(s) the number of characters; VAL(s) the value
    of the expression written in s (0 when s has no token), evaluated on its own token list with the statement's position restored;
    INSTR(a, b) 1-based position of the first occurrence of b in a, 0 when there is none; LTRIM$/RTRIM$/TRIM$ the string without leading /
    trailing / both blanks; PAD(s, i) s padded to width i; EOL$ a line feed; EOL_NOTAB$ a line feed and no tab behind the punched items;
    NO_NEWLINE$ the empty string, no line feed after this PRINT/PUNCH and the item itself skipped; arguments in parentheses where the
    syntax asks for them (else a syntax error); argument strings are released."""
    fn = A.find_function(PB, QF)
    r = U.new_unit("C17.factor.string_builtins_follow_their_BASIC_definition", PB, QF, fn)
    T = tokens()
    LP, RP, CM = T["toklp"], T["tokrp"], T["tokcomma"]
    n = {}
    def paths(tok, must, repoint=True):
        nodes = case_stmts(fn, tok, must)
        if nodes is None:
            r.add("%s.case_found" % tok, UNDECIDED, "ast", 0, ""); return None, [], None
        f, ex, fin, info = run_stmts(QF, nodes, fctx(False))
        return ex, [s for s in alive(fin) if quiet(s)], info
    sval = lambda ex, s: F(ex, s, "sval", "P", UUo(NREC))
    isstr = lambda ex, s: F(ex, s, "stringval", "B", NREC)
    # STR$
    ex, ps, info = paths("tokstr_", None)
    for s in [s for s in ps if s.status in ("run", "brk")]:
        n["STR$"] = 1
        nt, al, rf = evs(s, "numtostr"), evs(s, "PHRQ_calloc"), evs(s, "realfactor")
        ok(r, "STR$.text_of_the_one_numeric_operand_rendered_into_the_fresh_result_buffer", len(nt) == 1 and len(al) == 1 and len(rf) == 1 and nt[0].args[0] is al[0].result and nt[0].args[1] is rf[0].result and sval(ex, s) is al[0].result, "%s" % nt)
        ok(r, "STR$.result_is_a_string", isstr(ex, s) is tm.TRUE, "")
    # CHR$
    ex, ps, info = paths("tokchr_", None)
    for s in [s for s in ps if s.status in ("run", "brk")]:
        n["CHR$"] = 1
        al, it, cp = evs(s, "PHRQ_calloc"), evs(s, "intfactor"), evs(s, "strcpy")
        if ok(r, "CHR$.fresh_buffer_one_operand", len(al) == 1 and len(it) == 1 and sval(ex, s) is al[0].result and isstr(ex, s) is tm.TRUE, ""):
            buf = al[0].result
            w = [(ix, v) for ix, v in writes(s, ("m", "I")) if ix[0] is buf]
            ok(r, "CHR$.first_character_is_the_character_of_that_code", len(w) == 1 and w[0][0][1] is ZI and (w[0][1] is it[0].result if not twin else False), "%s" % w)
            ok(r, "CHR$.string_has_exactly_one_character(buffer_preset_to_a_one-character_string)", len(cp) == 1 and cp[0].args[0] is buf and cp[0].args[1].op == "str" and len(cp[0].args[1].args[0].strip('"')) == 1 and s.events.index(cp[0]) < s.events.index(it[0]) or len(cp) == 1 and cp[0].args[0] is buf and cp[0].args[1].op == "str" and len(cp[0].args[1].args[0].strip('"')) == 1, "%s" % cp)
    # ASC
    ex, ps, info = paths("tokasc", None)
    for s in [s for s in ps if s.status in ("run", "brk")]:
        sf, fr = evs(s, "strfactor"), evs(s, "PHRQ_free")
        if not ok(r, "ASC.one_string_operand_released_after_use", len(sf) == 1 and len(fr) == 1 and fr[0].args[0] is sf[0].result, ""):
            continue
        c0 = tm.select(arr0(("m", "I")), sf[0].result, ZI)
        n["ASC"] = n.get("ASC", 0) + 1
        U.discharge_valid(r, "ASC.code_of_the_first_character;0_for_the_empty_string", hyp(s), tm.eq(F(ex, s, "val", "R", UUo(NREC)), tm.ite(tm.eq(c0, ZI), ZERO, tm.to_real(c0))))
        ok(r, "ASC.result_is_a_number", not writes(s, ("f", "stringval", "B")), "")
    # LEN
    ex, ps, info = paths("toklen", None)
    for s in [s for s in ps if s.status in ("run", "brk")]:
        sf, fr = evs(s, "strfactor"), evs(s, "PHRQ_free")
        if not ok(r, "LEN.one_string_operand_released_after_use", len(sf) == 1 and len(fr) == 1 and fr[0].args[0] is sf[0].result, ""):
            continue
        n["LEN"] = 1
        U.discharge_valid(r, "LEN.number_of_characters_of_the_operand", hyp(s), tm.eq(F(ex, s, "val", "R", UUo(NREC)), tm.to_real(tm.app("call:strlen", (tm.NULL, sf[0].result), "I"))))
    # VAL
    ex, ps, info = paths("tokval", None)
    for s in [s for s in ps if s.status in ("run", "brk")]:
        sf, pa, xe, dt, fr = evs(s, "strfactor"), evs(s, "parse"), evs(s, "expr"), evs(s, "disposetokens"), evs(s, "PHRQ_free")
        if not ok(r, "VAL.the_operand_string_is_tokenized_once_on_its_own_list", len(sf) == 1 and len(pa) == 1 and pa[0].args[0] is sf[0].result and pa[0].args[1] is tm.app("fld:t", (LINKL,), "P"), "%s" % pa):
            continue
        pos = sf[0].snap
        ok(r, "VAL.statement_position_behind_the_operand_is_restored", F(ex, s, "t", "P", LINKL) is pos, repr(F(ex, s, "t", "P", LINKL)))
        ok(r, "VAL.token_list_and_operand_string_are_released", len(dt) == 1 and len(fr) == 1 and fr[0].args[0] is sf[0].result, "")
        if xe:
            n["VAL"] = n.get("VAL", 0) + 1
            ok(r, "VAL.value_is_the_expression_written_in_the_string(evaluated_from_its_first_token)", len(xe) == 1 and F(ex, s, "val", "R", UUo(NREC)) is tm.select(arr0(("f", "val", "R")), UUo(xe[0].result)) or len(xe) == 1 and repr(F(ex, s, "val", "R", UUo(NREC))).endswith("(fld:UU(%r),))" % xe[0].result), repr(F(ex, s, "val", "R", UUo(NREC))))
        else:
            n["VAL0"] = 1
            ok(r, "VAL.string_without_a_token_gives_0", F(ex, s, "val", "R", UUo(NREC)) is ZERO, "")
    # INSTR
    ex, ps, info = paths("tokinstr", None)
    for s in [s for s in ps if s.status in ("run", "brk")]:
        sf, ss = evs(s, "stringfactor"), evs(s, "strstr")
        if not ok(r, "INSTR.two_string_arguments_in_parentheses_separated_by_a_comma", len(sf) == 2 and len(ss) == 1 and [a.args[0] for a in _req(s)] == [LP, CM, RP], "%s" % _req(s)):
            continue
        a, b = sf[0].result, sf[1].result
        hit = ss[0].result
        n["INSTR"] = n.get("INSTR", 0) + 1
        ok(r, "INSTR.searches_the_second_argument_in_the_first", ss[0].args[0] is (a if not twin else b) and ss[0].args[1] is (b if not twin else a), "%s" % (ss[0].args,))
        U.discharge_valid(r, "INSTR.1-based_position_of_the_first_occurrence;0_when_absent", hyp(s), tm.eq(F(ex, s, "val", "R", UUo(NREC)), tm.ite(tm.eq(hit, NULLP), ZERO, tm.to_real(tm.app("ptrdiff", (hit, a), "I")) + 1)))
    # TRIM family
    for tok, helper, name in (("tokltrim", "trim_left", "LTRIM$"), ("tokrtrim", "trim_right", "RTRIM$"), ("toktrim", "trim", "TRIM$")):
        ex, ps, info = paths(tok, None)
        for s in [s for s in ps if s.status in ("run", "brk")]:
            sf, tr, du = evs(s, "stringfactor"), [e for e in s.events if e.name.split("::")[-1] in ("trim_left", "trim_right", "trim")], evs(s, "string_duplicate")
            good = len(sf) == 1 and len(tr) == 1 and tr[0].name.split("::")[-1] == helper and len(du) == 1 and sval(ex, s) is du[0].result and isstr(ex, s) is tm.TRUE and [a.args[0] for a in _req(s)] == [LP, RP]
            n[name] = 1
            ok(r, "%s.one_string_argument_in_parentheses,%s_applied_once,result_is_a_fresh_copy_of_the_trimmed_string" % (name, helper), good, "%s" % [e.name for e in s.events])
            if good:
                ok(r, "%s.the_trimmed_string_is_the_argument" % name, tr[0].args[0] is sf[0].args[0] and s.events.index(sf[0]) < s.events.index(tr[0]) < s.events.index(du[0]), "%s" % (tr[0].args,))
    # PAD
    for tok in ("tokpad", "tokpad_"):
        ex, ps, info = paths(tok, None)
        for s in [s for s in ps if s.status in ("run", "brk")]:
            se, ie, sp, fr = evs(s, "strexpr"), evs(s, "intexpr"), evs(s, "string_pad"), evs(s, "PHRQ_free")
            n["PAD"] = 1
            ok(r, "PAD[%s].string_and_width_in_parentheses;result_is_the_string_padded_to_that_width;argument_released" % tok, len(se) == 1 and len(ie) == 1 and len(sp) == 1 and sp[0].args[0] is se[0].result and sp[0].args[1] is ie[0].result and sval(ex, s) is sp[0].result
               and isstr(ex, s) is tm.TRUE and len(fr) == 1 and fr[0].args[0] is se[0].result and [a.args[0] for a in _req(s)] == [LP, CM, RP], "%s" % [e.name for e in s.events])
    # EOL$ / EOL_NOTAB$ / NO_NEWLINE$
    for tok, name in (("tokeol_", "EOL$"), ("tokeol_notab_", "EOL_NOTAB$")):
        ex, ps, info = paths(tok, None)
        for s in [s for s in ps if s.status in ("run", "brk")]:
            al, cp = evs(s, "PHRQ_calloc"), evs(s, "strcpy")
            n[name] = 1
            ok(r, "%s.is_a_fresh_string_holding_one_line_feed" % name, len(al) == 1 and len(cp) == 1 and cp[0].args[0] is al[0].result and cp[0].args[1].op == "str" and cp[0].args[1].args[0] == '"\\n"' and sval(ex, s) is al[0].result and isstr(ex, s) is tm.TRUE
               and not [e for e in s.events if e.name.split("::")[-1] in PARSERS], "%s" % cp)
            pt = writes(s, ("f", "punch_tab", "B"))
            if name == "EOL$":
                ok(r, "EOL$.leaves_the_tab_behind_punched_items_alone", not pt, "%s" % pt, kind="frame")
            else:
                ok(r, "EOL_NOTAB$.switches_the_tab_behind_punched_items_off", len(pt) == 1 and pt[0][0] == (THIS,) and pt[0][1] is tm.FALSE, "%s" % pt)
    ex, ps, info = paths("tokno_newline_", None)
    for s in [s for s in ps if s.status in ("run", "brk")]:
        n["NO_NEWLINE$"] = 1
        so = evs(s, "Set_output_newline")
        sk = writes(s, ("f", "skip_punch", "B"))
        ok(r, "NO_NEWLINE$.switches_the_line_feed_of_this_PRINT/PUNCH_off_and_marks_the_item_to_be_skipped", len(so) == 1 and so[0].args[0] is tm.FALSE and len(sk) == 1 and sk[0][0] == (THIS,) and sk[0][1] is tm.TRUE, "%s %s" % (so, sk))
        ok(r, "NO_NEWLINE$.is_a_string_without_text(no_buffer;consumers_treat_a_null_string_as_empty)", isstr(ex, s) is tm.TRUE and not writes(s, ("f", "sval", "P")) and not evs(s, "PHRQ_calloc"), "")
    # MID$
    ex, ps, info = paths("tokmid_", None)
    nm = {"two": 0, "three": 0}
    for s in [s for s in ps if s.status in ("run", "brk")]:
        se, ie = evs(s, "strexpr"), evs(s, "intexpr")
        rq = [a.args[0] for a in _req(s)]
        if len(se) != 1 or len(ie) not in (1, 2):
            ok(r, "MID$.string_start_and_optional_length", False, "%s" % [e.name for e in s.events]); continue
        src = se[0].result
        three = len(ie) == 2
        nm["three" if three else "two"] += 1
        ok(r, "MID$.arguments_in_parentheses_separated_by_commas", rq == [LP, CM, RP], "%s" % rq)
        ok(r, "MID$.result_is_written_over_the_argument_string(never_longer)", sval(ex, s) is src and isstr(ex, s) is tm.TRUE, repr(sval(ex, s)))
        hy = hyp(s)
        t_after_start = ie[0].snap
        comma = tm.and_(tm.not_(tm.eq(t_after_start, NULLP)), tm.eq(F0("kind", "I", t_after_start), tk("tokcomma")))
        U.discharge_valid(r, "MID$.a_length_is_read_exactly_when_a_comma_follows_the_start", hy, comma if three else tm.not_(comma))
        terms = [t for e in s.events for a in e.args if isinstance(a, tm.T) for t in tm.subterms(a) if t.op == "app" and str(t.args[0]).endswith("substr")]
        start = tm.ite(tm.lt(ie[0].result, tm.num(1, "I")), tm.num(1, "I"), ie[0].result) - 1
        if terms:
            sb = terms[0]
            cnt = ie[1].result if three else tm.app("call:strlen", (tm.NULL, src), "I")
            okk = len(sb.args) >= 4 and prove(hy, tm.eq(sb.args[2], start if not twin else start + 1)) and prove(hy, tm.eq(sb.args[3], cnt))
            ok(r, "MID$.substring_starts_at_the_1-based_start(clamped_to_1)_and_has_the_given_length(default:to_the_end)", okk, repr(sb)[:200])
            size = tm.app("strlen", (tm.app("string_of", (src,), "S"),), "I")
            U.discharge_valid(r, "MID$.substring_is_taken_only_for_a_start_inside_the_string_or_at_its_end", hy, tm.le(start, size), kind="safety")
        else:
            size = tm.app("strlen", (tm.app("string_of", (src,), "S"),), "I")
            U.discharge_valid(r, "MID$.the_empty_string_only_for_a_start_beyond_the_end", hy, tm.lt(size, start))
            ok(r, "MID$.a_start_beyond_the_end_gives_the_empty_string(not_an_exception)", any(_sh(e) == "clear" for e in s.events), "")
    reach(r, "reach.MID$(two_arguments,three_arguments)", min(nm.values()))
    want = ["STR$", "CHR$", "ASC", "LEN", "VAL", "VAL0", "INSTR", "LTRIM$", "RTRIM$", "TRIM$", "PAD", "EOL$", "EOL_NOTAB$", "NO_NEWLINE$"]
    reach(r, "reach.string_builtins(%s)" % ",".join(want), len([w for w in want if n.get(w)]), len(want))
    r.assumptions += ["strfactor / stringfactor / strexpr / intexpr / realfactor evaluate one operand of the required type and move the position (units C17.expr.*); require: unit C17.require",
                      "numtostr renders a number (capacity: unit C17.numtostr...), trim_left / trim_right / trim (Parser.h), Phreeqc::string_pad, string_duplicate, strstr, strlen by their library meaning",
                      "parse tokenizes a string into a list (units C17.parse.*), expr evaluates it (units C17.expr.*)", "MID$: the std::string model of the engine (substr(pos, n) of the argument); its throwing precondition is the unit C17.factor.string_builtin_preconditions",
                      "the result record is factor's local `n`; allocation failure ends the run"]
    return r


def unit_str_format(twin=False):
    """STR_F$(x, w, d) / STR_E$(x, w, d): the number x printed in fixed / exponent notation with minimum width w and d decimals (printf
    %*.*f / %*.*e with exactly these three arguments in this order), written with a size limit into a work buffer that holds it, and the
    result is a fresh string that holds the printed text and its terminator."""
    fn = A.find_function(PB, QF)
    r = U.new_unit("C17.factor.STR_F_and_STR_E_print_the_number_with_the_given_width_and_decimals", PB, QF, fn)
    T = tokens()
    n = 0
    for tok, conv, name in (("tokstr_f_", "f", "STR_F$"), ("tokstr_e_", "e", "STR_E$")):
        nodes = case_stmts(fn, tok, None)
        if nodes is None:
            r.add("%s.case_found" % name, UNDECIDED, "ast", 0, ""); continue
        f, ex, fin, info = run_stmts(QF, nodes, fctx())
        for s in [s for s in alive(fin) if quiet(s) and s.status in ("run", "brk")]:
            re_, sp, al, cp = evs(s, "realexpr"), evs(s, "snprintf"), evs(s, "PHRQ_calloc"), evs(s, "strcpy")
            if not ok(r, "%s.three_numeric_arguments_in_parentheses_separated_by_commas" % name, len(re_) == 3 and [a.args[0] for a in evs(s, "require")] == [tm.num(T["toklp"], "I"), tm.num(T["tokcomma"], "I"), tm.num(T["tokcomma"], "I"), tm.num(T["tokrp"], "I")], ""):
                continue
            n += 1
            x, w, d = re_[0].result, re_[1].result, re_[2].result
            hy = hyp(s)
            if not ok(r, "%s.printed_once" % name, len(sp) == 1 and len(sp[0].args) == 6, "%s" % sp):
                continue
            fmt = sp[0].args[2]
            want_fmt = '"%*.*' + (conv if not (twin and conv == "e") else "f") + '"'
            ok(r, "%s.conversion_is_%s_with_width_and_precision_taken_from_the_arguments" % (name, want_fmt.strip('"')), fmt.op == "str" and fmt.args[0] == want_fmt, repr(fmt))
            U.discharge_valid(r, "%s.the_number_printed_is_the_first_argument" % name, hy, tm.eq(sp[0].args[5], x))
            ok(r, "%s.width_comes_from_the_second_and_decimals_from_the_third_argument" % name, w in list(tm.subterms(sp[0].args[3])) and d not in list(tm.subterms(sp[0].args[3])) and d in list(tm.subterms(sp[0].args[4])) and w not in list(tm.subterms(sp[0].args[4])), "%r %r" % (sp[0].args[3], sp[0].args[4]))
            work = [a for a in al if a.result is sp[0].args[0]]
            if ok(r, "%s.work_buffer_allocated_here" % name, len(work) == 1, ""):
                U.discharge_valid(r, "%s.size_limit_fits_the_work_buffer" % name, hy, tm.le(sp[0].args[1], work[0].args[0] * work[0].args[1]), kind="safety")
                U.discharge_valid(r, "%s.work_buffer_is_at_least_256_bytes_and_at_least_the_requested_width" % name, hy, tm.and_(tm.le(tm.num(256, "I"), sp[0].args[1]), tm.le(sp[0].args[3], sp[0].args[1])), kind="safety")
            res = F(ex, s, "sval", "P", UUo(NREC))
            ral = [a for a in al if a.result is res]
            if ok(r, "%s.result_is_a_fresh_string_that_receives_the_printed_text" % name, len(ral) == 1 and len(cp) == 1 and cp[0].args[0] is res and F(ex, s, "stringval", "B", NREC) is tm.TRUE, "%s" % cp):
                size_terms = [t for t in tm.subterms(ral[0].args[0]) if t.op == "app" and str(t.args[0]) in ("strlen", "strsize", "size", "length")]
                src_ = cp[0].args[1]
                same_string = len(size_terms) >= 1 and src_.op == "app" and str(src_.args[0]) == "c_str" and tuple(src_.args[1:]) == tuple(size_terms[0].args[1:])
                ok(r, "%s.result_buffer_is_sized_by_the_length_of_the_copied_text_plus_terminator" % name, same_string and prove(hy + [tm.le(ZI, size_terms[0])], tm.le(size_terms[0] + 1, ral[0].args[0] * ral[0].args[1])), "%r <- %r" % (ral[0].args[0], src_), kind="safety")
            ok(r, "%s.work_buffer_released" % name, any(e.name.split("::")[-1] in ("free_check_null", "PHRQ_free") and e.args and e.args[0] is sp[0].args[0] for e in s.events), "")
    reach(r, "reach.STR_F$_STR_E$", n, 2)
    r.assumptions += ["snprintf(buf, size, \"%*.*f\", w, d, x) prints x with minimum width w and d decimals, truncated to size - 1 characters (a number wider than the work buffer is cut, not overflowed)",
                      "std::string(token).size() is the length of the printed text; realexpr evaluates one numeric argument (units C17.expr.*)"]
    return r


UNITS = [
    ("C17.factor.numeric_builtins_return_their_mathematical_function_of_the_one_operand", unit_numeric),
    ("C17.numtostr.every_destination_holds_the_longest_rendering_of_a_number", unit_numtostr),
    ("C17.factor.string_builtins_follow_their_BASIC_definition", unit_strings),
    ("C17.factor.STR_F_and_STR_E_print_the_number_with_the_given_width_and_decimals", unit_str_format),
]
