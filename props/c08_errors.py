"""C08, "the return value is non-zero exactly when at least one ERROR message was recorded for that call": the chain of small functions
that makes it true -
  Phreeqc::error_msg      : after it (returning or throwing) get_input_errors() is positive; the message is forwarded once with the caller's
                            stop flag; it throws PhreeqcStop iff stop;
  Phreeqc::get_input_errors : input_error when non-zero, else the I/O layer's error count;
  PHRQ_io::error_msg      : counts the error exactly once; throws iff stop;
  IPhreeqc::error_msg     : forwards exactly once WITHOUT the stop flag (so the count is one and the base class never throws first), records the
                            text in the error string iff the string switch and error_on are set, restores error_on, throws IPhreeqcStop iff stop;
  IPhreeqc::warning_msg, PHRQ_io::warning_msg : a warning never counts as an error;
  the entry points reset both counters before the run and return get_input_errors() (C04.entry.* obligations, repeated under C08)."""
from props.common import *
from vf.core import FAILED, DISCHARGED, UNDECIDED

OUT = "src/phreeqcpp/PHRQ_io_output.cpp"
UTIL = "src/phreeqcpp/utilities.cpp"
PIO = "src/phreeqcpp/common/PHRQ_io.cpp"
IPQ = "src/IPhreeqc.cpp"
STOP = tm.sym("P1_stop", "B")


def _throws_iff_stop(r, fin, label, twin=False):
    nt = nr = 0
    for s in fin:
        if s.status == "throw":
            nt += 1
            U.discharge_valid(r, "%s.throws_only_if_stop#%d" % (label, nt), list(s.pc), STOP if not twin else tm.not_(STOP))
        elif s.status in ("run", "ret"):
            nr += 1
            U.discharge_valid(r, "%s.returns_only_if_not_stop#%d" % (label, nr), list(s.pc), tm.not_(STOP))
    r.add("reach.%s.throw_and_return" % label, DISCHARGED if nt and nr else UNDECIDED, "symex", 0, "%d/%d" % (nt, nr), kind="vacuity")


def unit_phreeqc_error_msg(twin=False):
    q = "Phreeqc::error_msg"
    fn, ex, fin, info = U.run_function(OUT, q, ctx=ctx(functional=("get_input_errors",)))
    r = U.new_unit("C08.errors.Phreeqc_error_msg_makes_the_call_fail", OUT, q, fn)
    n = 0
    for s in fin:
        if s.status not in ("run", "ret", "throw"):
            continue
        n += 1
        g = [e for e in s.events if e.name.endswith("get_input_errors")]
        if len(g) != 1:
            r.add("error_state_consulted_once", FAILED, "trace", 0, ""); continue
        r0 = g[0].result
        ie1 = fld(ex, s, "input_error", "I"); ie0 = fld0(ex, s, "input_error", "I")
        for hy, none_yet in cases(list(s.pc), tm.le(r0, tm.num(0, "I"))):
            if none_yet:
                U.discharge_valid(r, "no_error_so_far.input_error_becomes_positive#%d" % n, hy, tm.lt(tm.num(0, "I"), ie1) if not twin else tm.eq(ie1, tm.num(0, "I")))
            else:
                U.discharge_valid(r, "error_already_recorded.count_not_lowered#%d" % n, hy, tm.eq(ie1, ie0))
        fw = [e for e in s.events if e.name.split("::")[-1] == "error_msg"]
        has_io = tm.not_(tm.eq(fld0(ex, s, "phrq_io", "P"), tm.num(0, "P")))
        for hy, io in cases(list(s.pc), has_io):
            if io:
                ok = len(fw) == 1 and fw[0].args[1] is STOP and fw[0].recv is fld0(ex, s, "phrq_io", "P")
                r.add("forwarded_once_to_the_io_layer_with_the_stop_flag#%d" % n, DISCHARGED if ok else FAILED, "trace", 0, repr([e.args for e in fw])[:160])
            else:
                r.add("no_io_layer.nothing_forwarded#%d" % n, DISCHARGED if not fw else FAILED, "trace", 0, "")
    _throws_iff_stop(r, fin, "error_msg")
    r.assumptions += ["get_input_errors() is a pure read (C08.errors.get_input_errors)", "the I/O layer's error_msg does not lower input_error", "message formatting not under this contract"]
    return r


def unit_get_input_errors(twin=False):
    q = "Phreeqc::get_input_errors"
    fn, ex, fin, info = U.run_function(UTIL, q, ctx=ctx(functional=("Get_io_error_count",)))
    r = U.new_unit("C08.errors.get_input_errors", UTIL, q, fn)
    n = 0
    for s in live(fin, ("ret",)):
        n += 1
        ie = fld0(ex, s, "input_error", "I")
        io = [e for e in s.events if e.name.endswith("Get_io_error_count")]
        for hy, z in cases(list(s.pc), tm.eq(ie, tm.num(0, "I"))):
            if z:
                ok = len(io) == 1 and s.ret is io[0].result and io[0].recv is fld0(ex, s, "phrq_io", "P")
                r.add("no_engine_error.returns_the_io_layer's_error_count#%d" % n, DISCHARGED if ok and not twin else FAILED, "trace", 0, repr(s.ret)[:80])
            else:
                U.discharge_valid(r, "engine_error.returns_input_error#%d" % n, hy, tm.eq(s.ret, ie))
        r.add("pure#%d" % n, DISCHARGED if all(not writes(s, k) for k in s.heap) else FAILED, "symex", 0, "", kind="frame")
    r.add("reach", DISCHARGED if n >= 2 else UNDECIDED, "symex", 0, str(n), kind="vacuity")
    return r


def unit_io_error_msg(twin=False):
    q = "PHRQ_io::error_msg"
    fn, ex, fin, info = U.run_function(PIO, q, ctx=ctx(functional=()))
    r = U.new_unit("C08.errors.PHRQ_io_error_msg_counts_once", PIO, q, fn)
    n = 0
    for s in fin:
        if s.status not in ("run", "ret", "throw"):
            continue
        n += 1
        U.discharge_valid(r, "io_error_count+=1#%d" % n, list(s.pc), tm.eq(fld(ex, s, "io_error_count", "I"), fld0(ex, s, "io_error_count", "I") + tm.num(1 if not twin else 2, "I")))
    _throws_iff_stop(r, fin, "error_msg")
    r.assumptions += ["screen_msg / output_msg / log_msg / error_flush do not touch io_error_count"]
    return r


def unit_ipq_error_msg(twin=False):
    q = "IPhreeqc::error_msg"
    fn, ex, fin, info = U.run_function(IPQ, q, ctx=ctx(functional=()))
    r = U.new_unit("C08.errors.IPhreeqc_error_msg", IPQ, q, fn)
    n = 0
    for s in fin:
        if s.status not in ("run", "ret", "throw"):
            continue
        n += 1
        fw = [e for e in s.events if e.name.split("::")[-1] == "error_msg"]
        ok = len(fw) == 1 and fw[0].args[0] is tm.sym("P0_str", "P") and (len(fw[0].args) == 1 or repr(fw[0].args[1]).startswith("defaultarg") or (tm.isnum(fw[0].args[1]) and fw[0].args[1].args[0] == 0) or fw[0].args[1] is tm.FALSE)
        r.add("counted_exactly_once_by_the_base_class_without_stop#%d" % n, DISCHARGED if ok else FAILED, "trace", 0, repr([e.args for e in fw])[:160])
        U.discharge_valid(r, "error_on_restored#%d" % n, list(s.pc), tm.eq(fld(ex, s, "error_on", "B"), fld0(ex, s, "error_on", "B")))
        add = [e for e in s.events if e.name.endswith("AddError")]
        want = tm.and_(fld0(ex, s, "ErrorStringOn", "B"), fld0(ex, s, "error_on", "B"))
        for hy, on in cases(list(s.pc), want if not twin else fld0(ex, s, "ErrorStringOn", "B")):
            if on:
                r.add("string_on.text_recorded_once#%d" % n, DISCHARGED if len(add) == 1 and add[0].args[0] is tm.sym("P0_str", "P") else FAILED, "trace", 0, "")
            else:
                r.add("string_off.text_not_recorded#%d" % n, DISCHARGED if not add else FAILED, "trace", 0, "")
        # the count happens before the throw: the forwarding call precedes the throw event
        names = [e.name.split("::")[-1] for e in s.events]
        if s.status == "throw":
            r.add("counted_before_throwing#%d" % n, DISCHARGED if "error_msg" in names and names.index("error_msg") < names.index("throw") else FAILED, "trace", 0, ",".join(names))
    _throws_iff_stop(r, fin, "error_msg")
    fnh = A.find_function(IPQ, q)
    thr = [x for x in A.walk(fnh) if x.get("kind") == "CXXThrowExpr"]
    tys = {y.get("type", {}).get("qualType") for x in thr for y in A.walk(x) if y.get("kind") in ("CXXTemporaryObjectExpr", "CXXConstructExpr", "CXXFunctionalCastExpr")}
    r.add("throws_IPhreeqcStop_only", DISCHARGED if thr and tys <= {"IPhreeqcStop"} else FAILED, "syntactic", 0, repr(tys), kind="structural")
    r.assumptions += ["PHRQ_io::error_msg(str) with the default stop=false (C08.errors.PHRQ_io_error_msg_counts_once)"]
    return r


def unit_warnings_do_not_count(twin=False):
    r = U.new_unit("C08.errors.warnings_are_not_errors", IPQ, "IPhreeqc::warning_msg", A.find_function(IPQ, "IPhreeqc::warning_msg"))
    n = 0
    for rel, q in ((IPQ, "IPhreeqc::warning_msg"), (PIO, "PHRQ_io::warning_msg"), (OUT, "Phreeqc::warning_msg")):
        fn, ex, fin, info = U.run_function(rel, q, ctx=ctx(functional=()))
        for s in fin:
            n += 1
            bad = [e.name for e in s.events if e.name.split("::")[-1] in ("error_msg", "AddError")]
            if twin:
                bad = [e.name for e in s.events]
            r.add("%s.no_error_recorded#%d" % (q.split("::")[0], n), DISCHARGED if not bad and s.status != "throw" else FAILED, "trace", 0, repr(bad))
            w = [k for k in s.heap if k[0] == "f" and k[1] in ("io_error_count", "input_error") and writes(s, k)]
            r.add("%s.error_counters_untouched#%d" % (q.split("::")[0], n), DISCHARGED if not w else FAILED, "symex", 0, repr(w), kind="frame")
    r.add("reach", DISCHARGED if n >= 3 else UNDECIDED, "symex", 0, str(n), kind="vacuity")
    r.assumptions += ["IPhreeqc::AddWarning goes to the warning reporter (WarningReporter->AddError is the reporter's method name, not an error)"]
    return r
