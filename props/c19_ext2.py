"""C19 extension units, second batch: the single GAS_MOLES unknown of setup_gas_phase (and the agreement of every site that chooses between one
unknown and one unknown per component), the critical constants read by read_phases, the remaining parts of tidy_gas_phase, the read-outs of
print_gas_phase and the BASIC functions GAS / GAS_P / GAS_VM / PR_P / PR_PHI."""
from props.common import *
from vf.core import FAILED, DISCHARGED, UNDECIDED
from vf.astvc import symex as SX, hdr
from props.c16_ext import case_split, decide, norm_key, base_arr, same_real, loc, error_stop, loop_doing, loop_bound_list, innermost_ifs_doing, if_without_else

GASES = "src/phreeqcpp/gases.cpp"
MODEL = "src/phreeqcpp/model.cpp"
PREP = "src/phreeqcpp/prep.cpp"
READ = "src/phreeqcpp/read.cpp"
ENUMS = ["TRUE", "FALSE", "OK", "ERROR", "STOP", "cxxGasPhase::GP_PRESSURE", "cxxGasPhase::GP_VOLUME", "GAS_MOLES"]


def enum_vals():
    ev = A.enum_values_compiled("Phreeqc.h", ENUMS)
    return {k.split("::")[-1]: v for k, v in ev.items()}


def R_gas():
    return tm.num(hdr.define_value("src/phreeqcpp/global_structures.h", "R_LITER_ATM"))

TIDY = "src/phreeqcpp/tidy.cpp"
PRINT = "src/phreeqcpp/print.cpp"
BASICSUBS = "src/phreeqcpp/basicsubs.cpp"


def numerical_cond(ex, s, gp, ev):
    """`one unknown per component` is chosen exactly for a fixed-volume phase solved numerically: type == GP_VOLUME and the numerical switch is on
    and (the phase carries Peng-Robinson state or the method is forced)"""
    G = lambda nm: tm.to_bool(tm.select(entry_arr(ex, s, ("f", nm, "B")), THIS))
    return tm.and_(tm.eq(tm.app("call:Get_type", (gp,), "I"), tm.num(ev["GP_VOLUME"], "I")), G("numerical_fixed_volume"),
                   tm.or_(tm.to_bool(tm.app("call:Get_pr_in", (gp,), "B")), G("force_numerical_fixed_volume")))


def gp_of(s):
    g = [e.recv for e in s.events if e.name.endswith("Get_type")]
    return g[0] if g else None


def unit_setup_gas_phase(twin=False):
    """setup_gas_phase: without a gas phase nothing is set up; a fixed-volume phase that is solved numerically is handed to
    setup_fixed_volume_gas (one unknown per component); every other gas phase - in particular EVERY fixed-pressure phase - gets exactly one
    unknown of type GAS_MOLES whose moles are the sum of the moles of all gas components (the floor MIN_TOTAL when the sum is not positive) with
    ln_moles = ln(moles); gas_unknown points to it and count_unknowns advances by one.  The same choice (one unknown / one per component) is
    made where the unknowns are counted (setup_unknowns) and where the gas rows are built (build_gas_phase)."""
    q = "Phreeqc::setup_gas_phase"
    fnames = ("Get_gas_phase_ptr", "Get_gas_comps", "Get_moles", "Get_type", "Get_pr_in")
    c = ctx(functional=fnames, enums_from="Phreeqc.h", enums=ENUMS)
    fn = A.find_function(PREP, q)
    loops = [x for x in A.walk(fn) if x.get("kind") in ("ForStmt", "WhileStmt", "DoStmt")]
    if len(loops) != 1:
        raise Undecided("setup_gas_phase: expected the one loop over the gas components, found %d" % len(loops))
    fn, ex, fin, info = U.run_function(PREP, q, modes={0: "iter"}, ctx=c)
    r = U.new_unit("C19.setup_gas_phase.one_GAS_MOLES_unknown_holding_the_total_moles_of_the_gas_phase", PREP, q, fn)
    ev = enum_vals(); n = {}
    gm = A.enum_values_compiled("Phreeqc.h", ["GAS_MOLES"])["GAS_MOLES"]
    OK = ev["OK"]
    gpt = tm.app("call:Get_gas_phase_ptr", (tm.app("fld:use", (THIS,), "P"),), "P")
    def unknown_at(ex, s):
        cu = tm.select(entry_arr(ex, s, ("f", "count_unknowns", "I")), THIS)
        return cu, tm.select(entry_arr(ex, s, ("m", "P")), tm.select(entry_arr(ex, s, ("f", "#vdata", "P")), tm.app("fld:x", (THIS,), "P")), cu)
    for s in live(fin, ("ret",)):
        evs = [e.name.split("::")[-1] for e in s.events]
        w = U.iter_writes(s)
        if "setup_fixed_volume_gas" in evs:
            cond = numerical_cond(ex, s, gpt, ev) if not twin else tm.eq(tm.app("call:Get_type", (gpt,), "I"), tm.num(ev["GP_PRESSURE"], "I"))
            U.discharge_valid(r, "numerical_fixed_volume.handed_to_setup_fixed_volume_gas_only_for_a_fixed_volume_phase_solved_numerically", list(s.pc), tm.and_(tm.not_(tm.eq(gpt, tm.num(0, "P"))), cond))
            call = [e for e in s.events if e.name.endswith("setup_fixed_volume_gas")]
            r.add("numerical_fixed_volume.nothing_set_up_here_and_its_result_returned", DISCHARGED if not w and len(call) == 1 and s.ret is call[0].result else FAILED, "symex", 0, repr(w)[:200], kind="frame")
            n["num"] = 1
        elif not w:
            U.discharge_valid(r, "no_gas_phase.nothing_set_up_only_when_there_is_no_gas_phase", list(s.pc), tm.eq(gpt, tm.num(0, "P")))
            r.add("no_gas_phase.returns_OK", DISCHARGED if tm.isnum(s.ret) and s.ret.args[0] == OK else FAILED, "symex", 0, repr(s.ret)); n["none"] = 1
        else:
            U.discharge_valid(r, "one_unknown.chosen_for_every_phase_not_solved_numerically(every_fixed_pressure_phase)#%d" % len(r.obligations), list(s.pc),
                              tm.and_(tm.not_(tm.eq(gpt, tm.num(0, "P"))), tm.not_(numerical_cond(ex, s, gpt, ev))))
            # after the loop: moles is whatever the loop left (havocked); the floor and the logarithm
            cu = tm.select(base_h0(ex, s, ("f", "count_unknowns", "I")), THIS)
            xs = [ix[0] for k, ix, v in w if k == ("f", "ln_moles", "R")]
            if len(xs) != 1:
                r.add("one_unknown.ln_moles_written_once", FAILED, "symex", 0, repr(xs)[:200]); continue
            un = xs[0]
            moles_after_loop = [c_ for c_ in s.pc if "moles:R" in repr(c_)]
            mfin = tm.select(ex.heap_arr(s, ("f", "moles", "R")), un)
            mloop = tm.select(loop_exit_arr(s, ("f", "moles", "R")), un)
            def body(dec, hyps, s=s, un=un, mfin=mfin, mloop=mloop):
                pos = dec(tm.lt(tm.num(0), mloop))
                want = mloop if (pos or twin) else tm.select(ex.heap_arr(s, ("f", "MIN_TOTAL", "R")), THIS)
                tag = "sum>0" if pos else "sum<=0"
                U.discharge_eq_real(r, "one_unknown.%s.moles==%s" % (tag, "sum_of_component_moles" if pos else "MIN_TOTAL"), hyps, mfin, want)
                U.discharge_eq_real(r, "one_unknown.%s.ln_moles==ln(moles)" % tag, hyps, tm.select(ex.heap_arr(s, ("f", "ln_moles", "R")), un), tm.app("log", (want,), "R"))
                n[tag] = 1
            case_split(list(s.pc), body)
            gu = [v for k, ix, v in w if k == ("f", "gas_unknown", "P")]
            cus = [(ix, v) for k, ix, v in w if k == ("f", "count_unknowns", "I")]
            r.add("one_unknown.gas_unknown_points_to_the_unknown_set_up#%d" % len(r.obligations), DISCHARGED if len(gu) == 1 and gu[0] is un else FAILED, "symex", 0, repr(gu)[:200])
            okc = len(cus) == 1 and cus[0][0][0] is THIS and B.z3_prove(list(s.pc), tm.eq(cus[0][1], tm.add(tm.select(loop_exit_arr(s, ("f", "count_unknowns", "I")), THIS), tm.num(1, "I"))))[0] == "proved"
            r.add("one_unknown.exactly_one_unknown_consumed(count_unknowns+1)#%d" % len(r.obligations), DISCHARGED if okc else FAILED, "symex", 0, repr(cus)[:200])
            r.add("one_unknown.returns_OK#%d" % len(r.obligations), DISCHARGED if tm.isnum(s.ret) and s.ret.args[0] == OK else FAILED, "symex", 0, repr(s.ret))
            n["one"] = 1
    # what is established before the loop
    for s in info["entry"].get(0, []):
        if B.z3_sat(list(s.pc)) == "unsat": continue
        cu, un = unknown_at(ex, s)
        w = {(k[1], ix[0]): v for k, ix, v in U.iter_writes(s)}
        ty = w.get(("type", un)); m0 = w.get(("moles", un))
        r.add("one_unknown.type==GAS_MOLES", DISCHARGED if ty is not None and tm.isnum(ty) and ty.args[0] == gm else FAILED, "symex", 0, repr(ty))
        r.add("one_unknown.sum_of_moles_starts_at_0", DISCHARGED if m0 is not None and tm.isnum(m0) and m0.args[0] == 0 else FAILED, "symex", 0, repr(m0), kind="establishment")
        r.add("one_unknown.unknown_is_x[count_unknowns]", DISCHARGED if ("count_unknowns", THIS) not in w else FAILED, "symex", 0, "", kind="frame")
        n["entry"] = 1
    # one iteration: the moles of component i are added, nothing else is written
    for s in live(info["iter"].get(0, []), ("run", "cont")):
        cu, un = unknown_at(ex, s)
        w = U.iter_writes(s)
        comps = tm.app("call:Get_gas_comps", (gpt,), "P")
        comp_i = tm.add(tm.select(entry_arr(ex, s, ("f", "#vdata", "P")), comps), tm.sym("iter_i", "I"))
        add = tm.app("call:Get_moles", (comp_i,), "R")
        if twin:
            add = tm.app("call:Get_p_read", (comp_i,), "R")
        ok = len(w) == 1 and w[0][0] == ("f", "moles", "R") and w[0][1][0] is un
        r.add("iteration.writes_only_the_moles_of_the_unknown", DISCHARGED if ok else FAILED, "symex", 0, repr([(k, ix) for k, ix, v in w])[:200], kind="frame")
        if ok:
            U.discharge_eq_real(r, "iteration.moles+=moles_of_component_i", list(s.pc), w[0][2], tm.select(entry_arr(ex, s, ("f", "moles", "R")), un) + add)
        n["iter"] = 1
    check_loop_range_size(r, "components", ex, info["iter"].get(0, []), tm.select(tm.sym("H0.#vsize:I", ("A", "P", "I")), tm.app("call:Get_gas_comps", (gpt,), "P")))
    # the same choice at the sites that must agree
    pair_sites(r, n, ev, twin)
    need = {"num", "none", "one", "sum>0", "sum<=0", "entry", "iter", "site.setup_unknowns", "site.build_gas_phase"}
    r.add("reach.cases", DISCHARGED if need <= set(n) else UNDECIDED, "symex", 0, "missing %r" % sorted(need - set(n)), kind="vacuity")
    r.assumptions += ["Get_gas_phase_ptr / Get_gas_comps / Get_moles / Get_type / Get_pr_in are plain accessors (functional)", "x[count_unknowns] is a pre-allocated unknown record",
                      "setup_fixed_volume_gas is under its own unit (C19.setup_fixed_volume_gas.*)", "the loop is summarised by its iteration contract: at loop exit moles is the accumulated sum",
                      "doubles as reals; log uninterpreted", "description string not checked"]
    return r


def base_h0(ex, s, key):
    return entry_arr(ex, s, key)


def loop_exit_arr(s, key):
    """the memory component as the (havocked) loop left it: the array below the stores made after the loop"""
    a = s.heap.get(key)
    while a is not None and a.op == "store":
        a = a.args[0]
    return a


def check_loop_range_size(r, label, ex, iters, size):
    """the loop condition an iteration assumed is `iter_i < size` and the loop starts at 0 (the generic head check covers the start)"""
    for s in iters[:1]:
        conds = [c_ for c_ in s.pc if "iter_i" in repr(c_)]
        want = tm.lt(tm.sym("iter_i", "I"), size)
        ok = conds and B.z3_prove([want], conds[0])[0] == "proved" and B.z3_prove([conds[0]], want)[0] == "proved"
        r.add("%s.loop_runs_over_every_component(i<size)" % label, DISCHARGED if ok else FAILED, "z3", 0, repr(conds)[:200])


def pair_sites(r, n, ev, twin):
    """setup_unknowns reserves size() unknowns exactly when setup_gas_phase creates one per component, else one; build_gas_phase hands over to
    build_fixed_volume_gas exactly in that case"""
    fnames = ("Get_gas_phase_ptr", "Get_gas_comps", "Get_moles", "Get_type", "Get_pr_in")
    # setup_unknowns: located by what the branch does (adds the number of components to max_unknowns)
    q = "Phreeqc::setup_unknowns"
    fn = A.find_function(PREP, q)
    ifs = [x for x in A.walk(fn) if x.get("kind") == "IfStmt" and len(x["inner"]) >= 2 and "max_unknowns" in text_of(PREP, x["inner"][1]) and "Get_gas_comps().size()" in text_of(PREP, x["inner"][1])]
    ifs = [x for x in ifs if not any(y is not x and y in ifs for y in A.walk(x))]
    if len(ifs) != 1:
        raise Undecided("setup_unknowns: the statement that reserves the gas unknowns was not found (%d)" % len(ifs))
    c = ctx(functional=fnames, enums_from="Phreeqc.h", enums=ENUMS)
    f, ex, fin, info = region(PREP, q, [ifs[0]], c)
    for s in live(fin, ("run",)):
        gp = gp_of(s)
        w = [(ix, v) for k, ix, v in U.iter_writes(s) if k == ("f", "max_unknowns", "I")]
        if gp is None or len(w) != 1:
            r.add("site.setup_unknowns.reserves_unknowns_on_every_path", FAILED, "symex", 0, repr(w)[:200]); continue
        mu0 = tm.select(entry_arr(ex, s, ("f", "max_unknowns", "I")), THIS)
        size = tm.select(entry_arr(ex, s, ("f", "#vsize", "I")), tm.app("call:Get_gas_comps", (gp,), "P"))
        for hy, isnum in cases(list(s.pc), numerical_cond(ex, s, gp, ev)):
            want = tm.add(mu0, size) if isnum else tm.add(mu0, tm.num(1, "I"))
            U.discharge_valid(r, "site.setup_unknowns.reserves_%s#%d" % ("one_per_component_when_solved_numerically" if isnum else "one_otherwise", len(r.obligations)), hy, tm.eq(w[0][1], want))
        n["site.setup_unknowns"] = 1
    # build_gas_phase
    q = "Phreeqc::build_gas_phase"
    c = ctx(functional=fnames, enums_from="Phreeqc.h", enums=ENUMS)
    f, ex, fin, info = U.run_function(PREP, q, ctx=c)
    gpt = tm.app("call:Get_gas_phase_ptr", (tm.app("fld:use", (THIS,), "P"),), "P")
    for s in live(fin, ("ret",)):
        gu = tm.select(entry_arr(ex, s, ("f", "gas_unknown", "P")), THIS)
        if decide(s, tm.eq(gu, tm.num(0, "P"))) is not False:
            continue
        hand = any(e.name.endswith("build_fixed_volume_gas") for e in s.events)
        cond = numerical_cond(ex, s, gpt, ev)
        U.discharge_valid(r, "site.build_gas_phase.%s#%d" % ("hands_over_to_build_fixed_volume_gas_only_when_solved_numerically" if hand else "builds_the_single_row_only_otherwise", len(r.obligations)),
                          list(s.pc), cond if hand else tm.not_(cond))
        n["site.build_gas_phase"] = 1


def outer_switch(fn):
    allsw = [x for x in A.walk(fn) if x.get("kind") == "SwitchStmt"]
    sws = [x for x in allsw if not any(y is not x and any(z is x for z in A.walk(y)) for y in allsw)]
    if len(sws) != 1:
        raise Undecided("option switch not found (%d)" % len(sws))
    return sws[0]


def option_table(fn, var="opt_list", count="count_opt_list"):
    names, cnt = None, None
    for x in A.walk(fn):
        if x.get("kind") == "VarDecl" and x.get("name") == var:
            names = [y.get("value", "").strip('"') for y in A.walk(x) if y.get("kind") == "StringLiteral"]
        if x.get("kind") == "VarDecl" and x.get("name") == count:
            lits = [y for y in A.walk(x) if y.get("kind") == "IntegerLiteral"]
            cnt = int(lits[0]["value"]) if lits else None
    if not names:
        raise Undecided("option table %s not found" % var)
    return names, cnt


def opt_of(s, opt):
    ks = [int(c_.args[1].args[0]) for c_ in s.pc if c_.op == "==" and c_.args[0] is opt and tm.isnum(c_.args[1])]
    return ks[0] if len(ks) == 1 else None


def unit_read_phases_critical(twin=False):
    """PHASES input: the options -T_c, -P_c and -Omega store the number on the line in the critical temperature t_c, critical pressure p_c and
    acentric factor omega OF THE PHASE WHOSE DEFINITION PRECEDES THEM (the record phase_store returned for the name on the equation's line; no
    record when that definition was rejected) - these are the constants calc_PR builds a_i, b_i, kappa_i from; no other option touches them.
    The three readers store exactly the number scanned, report OK when a number was read and count an input error otherwise."""
    q = "Phreeqc::read_phases"
    fn = A.find_function(READ, q)
    r = U.new_unit("C19.read_phases.T_c_P_c_Omega_stored_in_the_phase's_own_critical_constants", READ, q + "; read_t_c_only; read_p_c_only; read_omega_only", fn)
    sw = outer_switch(fn)
    names, cnt = option_table(fn)
    want = {"t_c": ("read_t_c_only", "t_c"), "p_c": ("read_p_c_only", "p_c"), "omega": ("read_omega_only", "omega")}
    if twin:
        want["p_c"] = ("read_p_c_only", "t_c")
    readers = {v[0] for v in want.values()}
    n = {}
    for nm in want:
        ok = nm in names and cnt is not None and names.index(nm) < cnt
        r.add("option_table.-%s_is_a_recognised_option(inside_count_opt_list)" % nm, DISCHARGED if ok else FAILED, "syntactic", 0, "index %r count %r" % (names.index(nm) if nm in names else None, cnt), kind="structural")
    c = ctx(enums_from="Phreeqc.h", enums=ENUMS + ["OPTION_EOF", "OPTION_KEYWORD", "OPTION_ERROR", "OPTION_DEFAULT", "EOF", "KEYWORD", "DIGIT", "EMPTY", "UNKNOWN", "CONTINUE", "OPTION"])
    c.loop = lambda ex_, st, nd, o: ex_.havoc_loop(nd, st)
    f, ex, fin, info = region(READ, q, [sw], c)
    opt = tm.sym("L_opt", "I"); pp = tm.sym("L_phase_ptr", "P"); nc = tm.sym("&L_next_char", "P")
    optd = A.enum_values_compiled("Phreeqc.h", ["OPTION_DEFAULT"])["OPTION_DEFAULT"]
    for s in live(fin, ("run", "brk", "ret")):
        k = opt_of(s, opt)
        if k is None:
            continue
        rd = [e for e in s.events if e.name.split("::")[-1] in readers]
        crit_w = [(kk[1], ix) for kk, ix, v in U.iter_writes(s) if kk[1] in ("t_c", "p_c", "omega")]
        nm = names[k] if 0 <= k < len(names) else None
        if nm in want:
            fnm, mem = want[nm]
            for hy, has in cases(list(s.pc), tm.not_(tm.eq(pp, tm.num(0, "P")))):
                if has:
                    ok = len(rd) == 1 and rd[0].name.endswith(fnm) and rd[0].args[1] is tm.app("fld:" + mem, (pp,), "P") and not crit_w
                    ok = ok and B.z3_prove([], tm.eq(rd[0].args[0], tm.select(entry_arr(ex, s, ("m", "P")), nc, tm.num(0, "I"))))[0] == "proved"
                    r.add("option.-%s.rest_of_the_line_read_by_%s_into_%s_of_the_current_phase" % (nm, fnm, mem), DISCHARGED if ok else FAILED, "symex", 0, repr([(e.name, e.args) for e in rd])[:300]); n[nm] = 1
                else:
                    r.add("option.-%s.without_a_current_phase_nothing_is_stored" % nm, DISCHARGED if not rd and not crit_w else FAILED, "symex", 0, "", kind="frame"); n[nm + "0"] = 1
        else:
            label = ("-" + nm) if nm is not None else {optd: "definition_line"}.get(k, "case_%d" % k)
            r.add("frame.%s.does_not_touch_the_critical_constants#%d" % (label, len(r.obligations)), DISCHARGED if not rd and not crit_w else FAILED, "symex", 0, repr(crit_w)[:200], kind="frame")
        if k == optd:
            # the current phase after a definition line: the record of the name on that line, or none when the line was rejected
            cur = s.locals.get(info["names"].get("phase_ptr"))
            ps = [e for e in s.events if e.name.endswith("phase_store")]
            ct = [e for e in s.events if e.name.endswith("copy_token")]
            if ps:
                ok = len(ps) == 1 and cur is ps[0].result and ct and ps[0].args[0] is ct[0].args[0]
                r.add("definition_line.current_phase_is_the_record_of_the_name_on_this_line#%d" % len(r.obligations), DISCHARGED if ok else FAILED, "symex", 0, repr(cur)[:100]); n["def"] = 1
            else:
                ok = cur is not None and tm.isnum(cur) and cur.args[0] == 0
                r.add("definition_line.rejected_line_leaves_no_current_phase(options_that_follow_are_not_applied_to_the_previous_phase)#%d" % len(r.obligations), DISCHARGED if ok else FAILED, "symex", 0, repr(cur)[:100]); n["rej"] = 1
    # the three readers
    OKv, ERR = enum_vals()["OK"], enum_vals()["ERROR"]
    for fnm in sorted(readers):
        qq = "Phreeqc::" + fnm
        c2 = ctx(); c2.log_stores = True
        f2, ex2, fin2, info2 = U.run_function(READ, qq, ctx=c2)
        ps_ = A.params_of(f2)
        dest = tm.sym("P1_%s" % ps_[1]["name"], "P"); text = tm.sym("P0_%s" % ps_[0]["name"], "P")
        for s in live(fin2, ("ret",)):
            sc = [e for e in s.events if e.name.endswith("sscanf")]
            if len(sc) != 1:
                r.add("%s.scans_the_text_once" % fnm, FAILED, "trace", 0, repr(len(sc))); continue
            okd = len(sc[0].args) == 3 and sc[0].args[2] is dest and repr(sc[0].args[1]).count("%lf") == 1 and repr(text) in repr(sc[0].args[0])
            r.add("%s.the_number_on_the_line_is_scanned_into_the_destination_given#%d" % (fnm, len(r.obligations)), DISCHARGED if okd else FAILED, "trace", 0, repr(sc[0].args)[:200])
            after = s.events[s.events.index(sc[0]) + 1:]
            w_after = [e for e in after if e.name == "store" and e.recv is dest]
            wd = [(kk, ix, v) for kk, ix, v in U.iter_writes(s) if kk[0] == "m" and ix[0] is dest]
            okz = all(tm.isnum(v) and v.args[0] == 0 for kk, ix, v in wd) and len(wd) <= 1 and not w_after
            r.add("%s.destination_only_preset_to_0_before_the_scan(not_overwritten_after)#%d" % (fnm, len(r.obligations)), DISCHARGED if okz else FAILED, "symex", 0, repr(wd)[:200])
            got = tm.lt(sc[0].result, tm.num(1, "I")) if not twin else tm.lt(sc[0].result, tm.num(1, "I"))
            for hy, few in cases(list(s.pc), got):
                ie = [v for kk, ix, v in U.iter_writes(s) if kk == ("f", "input_error", "I")]
                ie0 = tm.select(entry_arr(ex2, s, ("f", "input_error", "I")), THIS)
                if few:
                    ok = tm.isnum(s.ret) and s.ret.args[0] == ERR and len(ie) == 1 and B.z3_prove(hy, tm.eq(ie[0], tm.add(ie0, tm.num(1, "I"))))[0] == "proved"
                    r.add("%s.no_number:input_error_counted_and_ERROR_returned" % fnm, DISCHARGED if ok else FAILED, "symex", 0, repr(s.ret)); n[fnm + ".bad"] = 1
                else:
                    ok = tm.isnum(s.ret) and s.ret.args[0] == OKv and not ie
                    r.add("%s.number_read:OK_and_no_error_counted" % fnm, DISCHARGED if ok else FAILED, "symex", 0, repr(s.ret)); n[fnm + ".ok"] = 1
    need = {"t_c", "p_c", "omega", "t_c0", "def", "rej"} | {f_ + x for f_ in readers for x in (".ok", ".bad")}
    r.add("reach.cases", DISCHARGED if need <= set(n) else UNDECIDED, "symex", 0, "missing %r" % sorted(need - set(n)), kind="vacuity")
    r.assumptions += ["get_option returns the index of the matching entry of opt_list (names read from the table; reordering it together with the cases is harmless)",
                      "sscanf(text, \"%lf\", p) stores the number read through p and returns the number of conversions; replace(\"=\", \" \") only blanks equal signs",
                      "phase_store(name) returns the record of the phase of that name (C01/C13 units); phase_init presets t_c = p_c = omega = 0 (unit C19.phase_init.*)",
                      "statement contract on the option switch of read_phases: the rest of read_phases (log K, reaction) is not under this contract", "local phase_ptr / next_char / opt read by name"]
    return r


TG_FUN = ("Get_gas_comps", "Get_p_read", "Get_volume", "Get_temperature", "Get_type", "Get_solution_equilibria", "Get_phase_name", "c_str", "phase_bsearch", "isnan",
          "Get_n_user", "Get_total_moles", "Get_moles", "Get_new_def", "Get_n_user_end")


def _calls(t, short):
    return [x for x in tm.subterms(t) if x.op == "app" and x.args[0] == "call:" + short]


def unit_tidy_gas_phase(twin=False):
    """tidy_gas_phase, per newly defined gas phase (the entry of Rxn_gas_phase_map under each number of Rxn_new_gas_phase).
    * an equation of state with critical constants applies (pr_in) iff some component's phase has T_c > 0 and P_c > 0; a component whose phase is
      not in the database is an input error;
    * initial composition of a new definition: for a fixed-pressure phase, and for a fixed-volume phase that is not equilibrated with a
      solution, every component with a defined partial pressure p_i adds p_i to the pressure sum P and - ideal gas - gets
      n_i = p_i V / (R T), partial pressure p_i, fugacity coefficient 1, fugacity p_i; an undefined p_i is an input error; `-equilibrate`
      with fixed pressure is an input error; a fixed-volume phase to be equilibrated gets nothing here;
    * Peng-Robinson (pr_in and P > 0): mole fractions x_i = p_i / P go to calc_PR(phases, P, T of the gas phase, V_m unknown), the molar
      volume returned is stored, n_i = x_i V / V_m (so sum n_i = V / V_m: the EOS at P, T), partial pressure p_i, phi_i = the phase's pr_phi,
      fugacity p_i phi_i, total moles += n_i; components with p_i = 0 get 0 moles, 0 pressure, phi 1, fugacity 0; a fixed-VOLUME phase takes
      P = sum p_i as its total pressure, a fixed-pressure phase keeps the pressure given."""
    q = "Phreeqc::tidy_gas_phase"
    fn = A.find_function(TIDY, q)
    r = U.new_unit("C19.tidy_gas_phase.initial_moles_n_i=p_i*V/(R*T)_or_x_i*V/V_m_and_fixed_volume_pressure_is_sum_p_i", TIDY, q, fn)
    loops = [x for x in A.walk(fn) if x.get("kind") in ("ForStmt", "WhileStmt", "DoStmt")]
    def lo(*what):
        c_ = [k for k, lp in enumerate(loops) if k > 0 and all(w in text_of(TIDY, lp["inner"][-1]) for w in what) and not any(y is not lp and y in loops for y in A.walk(lp["inner"][-1]))]
        return c_
    l_pr = lo("PR=true")
    l_id = lo("R_LITER_ATM")
    l_x = lo("moles_x=")
    l_n = lo("pr_phi", "Set_total_moles(")
    if not (len(l_pr) == len(l_id) == len(l_x) == len(l_n) == 1) or len({l_pr[0], l_id[0], l_x[0], l_n[0]}) != 4:
        raise Undecided("tidy_gas_phase: the four component loops were not found (%r %r %r %r)" % (l_pr, l_id, l_x, l_n))
    l_pr, l_id, l_x, l_n = l_pr[0], l_id[0], l_x[0], l_n[0]
    c = ctx(functional=TG_FUN, enums_from="Phreeqc.h", enums=ENUMS)
    f, ex, its, info = U.run_loop_isolated(TIDY, q, 0, ctx=c, inner_modes={"*": "iter"})
    ev = enum_vals(); n = {}
    R = R_gas()
    L = lambda s, nm: s.locals.get(info["names"].get(nm))
    sets = lambda evs, gpc=None: [(e.name.split("::")[-1], e.recv, e.args) for e in evs if e.name.split("::")[-1].startswith("Set_")]
    def gp_term(s):
        g = [e.recv for e in s.events if e.name.endswith("Set_pr_in")]
        return g[0] if g else None
    # ---- body of the outer loop
    seen = set()
    for s in live(its, ("run", "cont")):
        evs = U.iter_events(s)
        gp = gp_term(s)
        k0 = norm_key([(a, b) for a, b, c_ in sets(evs)], [e.name for e in evs if e.name.endswith("calc_PR")], [c_ for c_ in s.pc if "mhas" not in repr(c_)])
        if gp is None:
            r.add("phase.pr_in_recorded_on_every_path", FAILED, "symex", 0, ""); continue
        if "mhas" in repr([c_ for c_ in s.pc if c_.op != "not" and "mhas" in repr(c_)]):
            key = tm.select(entry_arr(ex, s, ("m", "I")), tm.app("mnode", (tm.sym("iter_nit", "P"),), "P"), tm.num(0, "I"))
            okg = gp is tm.app("fld:second", (tm.app("mnode", (tm.app("miter", (tm.app("fld:Rxn_gas_phase_map", (THIS,), "P"), key), "P"),), "P"),), "P")
            if "gp" not in n:
                r.add("phase.is_the_entry_of_Rxn_gas_phase_map_under_the_new_number", DISCHARGED if okg else FAILED, "symex", 0, repr(gp)[:200])
            n["gp"] = 1
        if k0 in seen:
            continue
        seen.add(k0)
        spr = [a for nm_, rc, a in sets(evs) if nm_ == "Set_pr_in" and rc is gp]
        PRv = L(s, "PR"); Pv = L(s, "P")
        r.add("phase.pr_in:=the_flag_left_by_the_critical_constant_scan#%d" % len(r.obligations), DISCHARGED if len(spr) == 1 and tm.to_bool(spr[0][0]) is tm.to_bool(PRv) else FAILED, "symex", 0, repr(spr)[:100])
        prc = [e for e in evs if e.name.endswith("calc_PR")]
        newdef = tm.to_bool(tm.app("call:Get_new_def", (gp,), "B"))
        guard = tm.and_(newdef, tm.to_bool(PRv), tm.lt(tm.num(0), Pv))
        T = tm.app("call:Get_temperature", (gp,), "R")
        if prc:
            U.discharge_valid(r, "PR.calc_PR_only_for_a_new_definition_with_critical_constants_and_P>0#%d" % len(r.obligations), list(s.pc), guard)
            a = prc[0].args
            okc = len(prc) == 1 and len(a) == 4 and same_real(a[1], Pv) and same_real(a[2], T if not twin else tm.app("call:Get_volume", (gp,), "R")) and tm.isnum(a[3]) and a[3].args[0] == 0
            r.add("PR.calc_PR(mixture,P=sum_p_i,T_of_the_gas_phase,V_m_unknown)#%d" % len(r.obligations), DISCHARGED if okc else FAILED, "symex", 0, repr(a)[:200])
            svm = [a_ for nm_, rc, a_ in sets(evs) if nm_ == "Set_v_m" and rc is gp]
            r.add("PR.molar_volume_of_the_phase:=calc_PR's_result#%d" % len(r.obligations), DISCHARGED if len(svm) == 1 and svm[0][0] is prc[0].result else FAILED, "symex", 0, repr(svm)[:100])
            stp = [a_ for nm_, rc, a_ in sets(evs) if nm_ == "Set_total_p"]
            for hy, vol in cases(list(s.pc), tm.eq(tm.app("call:Get_type", (gp,), "I"), tm.num(ev["GP_VOLUME"], "I"))):
                if vol:
                    ok = len(stp) == 1 and same_real(stp[0][0], Pv)
                    r.add("PR.fixed_volume:total_pressure:=sum_of_the_initial_partial_pressures#%d" % len(r.obligations), DISCHARGED if ok else FAILED, "symex", 0, repr(stp)[:100]); n["tpV"] = 1
                else:
                    r.add("PR.fixed_pressure:the_pressure_given_is_kept#%d" % len(r.obligations), DISCHARGED if not stp else FAILED, "symex", 0, repr(stp)[:100]); n["tpP"] = 1
            n["pr"] = 1
        else:
            stp = [a_ for nm_, rc, a_ in sets(evs) if nm_ in ("Set_total_p", "Set_v_m")]
            U.discharge_valid(r, "ideal.no_Peng_Robinson_step_only_when_not(new_definition_and_pr_in_and_P>0)#%d" % len(r.obligations), list(s.pc), tm.not_(guard))
            r.add("ideal.total_pressure_and_molar_volume_untouched#%d" % len(r.obligations), DISCHARGED if not stp else FAILED, "symex", 0, repr(stp)[:100], kind="frame")
            n["nopr"] = 1
        snd = [a_ for nm_, rc, a_ in sets(evs) if nm_ == "Set_new_def" and rc is gp]
        if decide(s, newdef) is True:
            for hy, eq in cases(list(s.pc), tm.to_bool(tm.app("call:Get_solution_equilibria", (gp,), "B"))):
                ok = len(snd) == 1 and snd[0][0] is (tm.TRUE if eq else tm.FALSE)
                r.add("bookkeeping.%s#%d" % ("to_be_equilibrated:stays_a_new_definition" if eq else "defined_by_pressures:definition_done", len(r.obligations)), DISCHARGED if ok else FAILED, "symex", 0, repr(snd)[:100])
    # ---- scan for critical constants
    for s in info["inner_entries"].get(l_pr, [])[:1]:
        ok = L(s, "PR") is tm.FALSE and tm.isnum(L(s, "P")) and L(s, "P").args[0] == 0
        r.add("scan.flag_starts_false_and_pressure_sum_at_0_for_every_gas_phase", DISCHARGED if ok else FAILED, "symex", 0, "%r %r" % (L(s, "PR"), L(s, "P")), kind="establishment"); n["e1"] = 1
    def comp_of(s, ivar):
        gp = None
        for c_ in s.pc:
            for t in _calls(c_, "Get_gas_comps"):
                gp = t.args[1]
        if gp is None:
            return None, None
        return gp, tm.add(tm.select(base_arr(ex, s, ("f", "#vdata", "P")), tm.app("call:Get_gas_comps", (gp,), "P")), tm.sym("iter_" + ivar, "I"))
    def phase_of(s, comp):
        """the record phase_bsearch returns for the name of this component (None when the iteration does not look it up by that name)"""
        cands = []
        for t in [c_ for c_ in s.pc] + [a for e in U.iter_events(s) for a in e.args] + [v for k, ix, v in U.iter_writes(s)] + [i_ for k, ix, v in U.iter_writes(s) for i_ in ix]:
            cands += _calls(t, "phase_bsearch")
        want = tm.app("c_str", (tm.app("call:Get_phase_name", (comp,), "P"),), "P")
        good = [t for t in cands if len(t.args) >= 3 and (t.args[2] is want or repr(t.args[2]) == repr(want))]
        return good[0] if good else None
    def check_range(s, ivar, label):
        if label in n: return
        gp, comp = comp_of(s, ivar)
        size = tm.select(base_arr(ex, s, ("f", "#vsize", "I")), tm.app("call:Get_gas_comps", (gp,), "P"))
        conds = [c_ for c_ in s.pc if ("iter_" + ivar) in repr(c_)][:1]
        want = tm.lt(tm.sym("iter_" + ivar, "I"), size)
        ok = False
        if conds:
            cnd = conds[0]
            ok = B.z3_prove([want], cnd)[0] == "proved" and B.z3_prove([cnd], want)[0] == "proved"
        r.add("%s.runs_over_every_component_of_the_gas_phase(i<size)" % label, DISCHARGED if ok else FAILED, "z3", 0, repr(conds)[:160]); n[label] = 1
    seen = set()
    for s in live(info["inner_iters"].get(l_pr, []), ("run", "cont")):
        check_range(s, "j", "scan")
        gp, comp = comp_of(s, "j")
        ph = phase_of(s, comp)
        newf = tm.to_bool(L(s, "PR")); old = tm.sym("iter_PR", "B")
        k0 = norm_key(newf, s.status, [c_ for c_ in s.pc if "mhas" not in repr(c_)])
        if k0 in seen: continue
        seen.add(k0)
        if ph is None:
            r.add("scan.phase_looked_up_by_the_component's_name", FAILED, "symex", 0, ""); continue
        F = lambda nm: tm.select(base_arr(ex, s, ("f", nm, "R")), ph)
        crit = tm.and_(tm.not_(tm.eq(ph, tm.num(0, "P"))), tm.lt(tm.num(0), F("t_c")), tm.lt(tm.num(0), F("p_c" if not twin else "omega")))
        U.discharge_valid(r, "scan.flag'<=>flag_or(component's_phase_has_T_c>0_and_P_c>0)#%d" % len(r.obligations), list(s.pc), tm.and_(tm.implies(newf, tm.or_(old, crit)), tm.implies(tm.or_(old, crit), newf)))
        ie = [v for k, ix, v in U.iter_writes(s) if k == ("f", "input_error", "I")]
        for hy, missing in cases(list(s.pc), tm.eq(ph, tm.num(0, "P"))):
            if missing:
                ok = len(ie) == 1 and B.z3_prove(hy, tm.eq(ie[0], tm.add(tm.select(base_arr(ex, s, ("f", "input_error", "I")), THIS), tm.num(1, "I"))))[0] == "proved"
                r.add("scan.gas_not_in_the_database_is_an_input_error", DISCHARGED if ok else FAILED, "symex", 0, repr(ie)[:100]); n["missing"] = 1
            else:
                r.add("scan.known_gas_counts_no_error#%d" % len(r.obligations), DISCHARGED if not ie else FAILED, "symex", 0, ""); n["found"] = 1
    # ---- ideal-gas initial composition
    seen = set()
    for s in live(info["inner_iters"].get(l_id, []), ("run", "cont")):
        check_range(s, "j", "composition")
        gp, comp = comp_of(s, "j")
        evs = U.iter_events(s)
        st_ = sets(evs)
        k0 = norm_key([(a, b, c_) for a, b, c_ in st_], L(s, "P"), [c_ for c_ in s.pc if "mhas" not in repr(c_)])
        if k0 in seen: continue
        seen.add(k0)
        p = tm.app("call:Get_p_read", (comp,), "R")
        V = tm.app("call:Get_volume", (gp,), "R"); T = tm.app("call:Get_temperature", (gp,), "R")
        PRv = tm.to_bool(L(s, "PR")); P0 = tm.sym("iter_P", "R"); P1 = L(s, "P")
        ie = [v for k, ix, v in U.iter_writes(s) if k == ("f", "input_error", "I")]
        ie0 = tm.select(base_arr(ex, s, ("f", "input_error", "I")), THIS)
        nerr = lambda hy, k_: (not ie and k_ == 0) or (len(ie) >= 1 and B.z3_prove(hy, tm.eq(ie[-1], tm.add(ie0, tm.num(k_, "I"))))[0] == "proved")
        nans = [t for c_ in s.pc for t in _calls(c_, "isnan")]
        def body(dec, hyps, s=s, st_=st_, p=p, P1=P1, nans=nans):
            fixedp = dec(tm.eq(tm.app("call:Get_type", (gp,), "I"), tm.num(ev["GP_PRESSURE"], "I")))
            equil = dec(tm.to_bool(tm.app("call:Get_solution_equilibria", (gp,), "B")))
            tag = ("fixed_pressure" if fixedp else "fixed_volume") + (".equilibrate" if equil else "")
            if not fixedp and equil:
                ok = not st_ and P1 is P0 and not ie
                r.add("%s.composition_comes_from_the_solution:nothing_set_here" % tag, DISCHARGED if ok else FAILED, "symex", 0, repr(st_)[:100]); n["Veq"] = 1; return
            if not nans or nans[0].args[-1] is not p:
                r.add("%s.definedness_of_the_component's_own_partial_pressure_tested#%d" % (tag, len(r.obligations)), FAILED, "symex", 0, repr(nans)[:100]); return
            undefined = dec(tm.to_bool(nans[0]))
            errs = (1 if fixedp and equil else 0) + (1 if undefined else 0)
            r.add("%s.%s.input_errors==%d#%d" % (tag, "p_undefined" if undefined else "p_defined", errs, len(r.obligations)), DISCHARGED if nerr(hyps, errs) else FAILED, "symex", 0, repr(ie)[:100])
            if undefined:
                r.add("%s.p_undefined.nothing_set_and_sum_unchanged#%d" % (tag, len(r.obligations)), DISCHARGED if not st_ and P1 is P0 else FAILED, "symex", 0, ""); n["nan"] = 1; return
            U.discharge_eq_real(r, "%s.P+=p_i#%d" % (tag, len(r.obligations)), hyps, P1, P0 + p)
            if dec(PRv):
                r.add("%s.with_critical_constants_the_moles_come_from_the_Peng_Robinson_step#%d" % (tag, len(r.obligations)), DISCHARGED if not st_ else FAILED, "symex", 0, repr(st_)[:100]); n["idPR"] = 1; return
            d = {nm_: a for nm_, rc, a in st_ if rc is comp or B.z3_prove([], tm.eq(rc, comp))[0] == "proved"}
            okset = len(st_) == 4 and set(d) == {"Set_moles", "Set_p", "Set_phi", "Set_f"}
            r.add("%s.ideal.only_moles_p_phi_f_of_this_component_set#%d" % (tag, len(r.obligations)), DISCHARGED if okset else FAILED, "symex", 0, repr([x[0] for x in st_])[:100], kind="frame")
            if okset:
                spec_n = p * V / (R * T) if not twin else p * V / R * T
                U.discharge_eq_real(r, "%s.ideal.n_i==p_i*V/(R*T)#%d" % (tag, len(r.obligations)), hyps, d["Set_moles"][0], spec_n)
                U.discharge_eq_real(r, "%s.ideal.partial_pressure==p_i#%d" % (tag, len(r.obligations)), hyps, d["Set_p"][0], p)
                U.discharge_eq_real(r, "%s.ideal.phi==1#%d" % (tag, len(r.obligations)), hyps, d["Set_phi"][0], tm.num(1))
                U.discharge_eq_real(r, "%s.ideal.fugacity==p_i#%d" % (tag, len(r.obligations)), hyps, d["Set_f"][0], p)
                n["id" + ("P" if fixedp else "V")] = 1
        case_split(list(s.pc), body)
    # ---- Peng-Robinson: mole fractions handed to calc_PR
    for s in info["inner_entries"].get(l_x, [])[:1]:
        pv = [e for e in s.events if "vector<phase" in e.name or "vector<class phase" in e.name]
        sz = [v for k, ix, v in U.iter_writes(s) if k == ("f", "#vsize", "I") and "phase_ptrs" in repr(ix)]
        ok = bool(pv) and (not sz or (tm.isnum(sz[-1]) and sz[-1].args[0] == 0))
        r.add("PR.mixture_list_starts_empty_for_every_gas_phase", DISCHARGED if ok else FAILED, "symex", 0, repr(sz)[:100], kind="establishment"); n["e3"] = 1
    seen = set()
    for s in live(info["inner_iters"].get(l_x, []), ("run", "cont")):
        check_range(s, "j_PR", "mixture")
        gp, comp = comp_of(s, "j_PR")
        evs = U.iter_events(s); st_ = sets(evs)
        k0 = norm_key([(a, c_) for a, b, c_ in st_], s.status, [c_ for c_ in s.pc if "mhas" not in repr(c_)])
        if k0 in seen: continue
        seen.add(k0)
        p = tm.app("call:Get_p_read", (comp,), "R"); Pv = L(s, "P")
        ph = phase_of(s, comp)
        mx = [(ix[0], v) for k, ix, v in U.iter_writes(s) if k == ("f", "moles_x", "R")]
        pushed = [e for e in evs if e.name == "vector.push_back"]
        def body(dec, hyps, s=s, st_=st_, p=p, ph=ph, mx=mx, pushed=pushed):
            if dec(tm.eq(p, tm.num(0))):
                d = {nm_: a for nm_, rc, a in st_ if B.z3_prove([], tm.eq(rc, comp))[0] == "proved"}
                ok = len(st_) == 4 and set(d) == {"Set_moles", "Set_p", "Set_phi", "Set_f"} and [d[x][0].args[0] if tm.isnum(d[x][0]) else None for x in ("Set_moles", "Set_p", "Set_phi", "Set_f")] == [0, 0, 1, 0]
                r.add("mixture.p_i==0:absent_component(0_moles,0_pressure,phi_1,0_fugacity)_not_in_the_mixture", DISCHARGED if ok and not mx and not pushed else FAILED, "symex", 0, repr(st_)[:160]); n["x0"] = 1; return
            if ph is None:
                r.add("mixture.phase_looked_up_by_the_component's_name", FAILED, "symex", 0, ""); return
            if dec(tm.eq(ph, tm.num(0, "P"))):
                r.add("mixture.unknown_gas_skipped", DISCHARGED if not mx and not pushed and not st_ else FAILED, "symex", 0, ""); return
            ok = len(mx) == 1 and mx[0][0] is ph
            r.add("mixture.mole_fraction_stored_in_the_component's_own_phase", DISCHARGED if ok else FAILED, "symex", 0, repr(mx)[:160])
            if ok:
                U.discharge_eq_real(r, "mixture.x_i==p_i/P", hyps, mx[0][1], p / Pv if not twin else p)
            okp = len(pushed) == 1 and pushed[0].args[1] is ph and not st_
            r.add("mixture.phase_appended_once_to_the_list_given_to_calc_PR", DISCHARGED if okp else FAILED, "symex", 0, repr(pushed)[:160]); n["x"] = 1
        case_split(list(s.pc), body)
    # ---- Peng-Robinson: moles from the molar volume
    seen = set()
    for s in live(info["inner_iters"].get(l_n, []), ("run", "cont")):
        check_range(s, "j_PR", "PR_moles")
        gp, comp = comp_of(s, "j_PR")
        evs = U.iter_events(s); st_ = sets(evs)
        k0 = norm_key([(a, c_) for a, b, c_ in st_], s.status, [c_ for c_ in s.pc if "mhas" not in repr(c_)])
        if k0 in seen: continue
        seen.add(k0)
        p = tm.app("call:Get_p_read", (comp,), "R"); Vm = L(s, "V_m"); V = tm.app("call:Get_volume", (gp,), "R")
        ph = phase_of(s, comp)
        def body(dec, hyps, s=s, st_=st_, p=p, ph=ph):
            mine = [(nm_, a) for nm_, rc, a in st_ if B.z3_prove([], tm.eq(rc, comp))[0] == "proved"]
            d = dict(mine)
            if dec(tm.eq(p, tm.num(0))):
                ok = len(st_) == 4 and set(d) == {"Set_moles", "Set_p", "Set_phi", "Set_f"} and [d[x][0].args[0] if tm.isnum(d[x][0]) else None for x in ("Set_moles", "Set_p", "Set_phi", "Set_f")] == [0, 0, 1, 0]
                r.add("PR_moles.p_i==0:absent_component(0_moles,0_pressure,phi_1,0_fugacity)", DISCHARGED if ok else FAILED, "symex", 0, repr(st_)[:160]); n["n0"] = 1; return
            if ph is None:
                r.add("PR_moles.phase_looked_up_by_the_component's_name", FAILED, "symex", 0, ""); return
            if dec(tm.eq(ph, tm.num(0, "P"))):
                r.add("PR_moles.unknown_gas_skipped", DISCHARGED if not st_ else FAILED, "symex", 0, ""); return
            F = lambda nm: tm.select(base_arr(ex, s, ("f", nm, "R")), ph)
            tot = [(rc, a) for nm_, rc, a in st_ if nm_ == "Set_total_moles"]
            okset = set(d) == {"Set_moles", "Set_p", "Set_phi", "Set_f"} and len(st_) == 5 and len(tot) == 1 and tot[0][0] is gp
            r.add("PR_moles.only_moles_p_phi_f_of_this_component_and_the_total_moles_set", DISCHARGED if okset else FAILED, "symex", 0, repr([x[0] for x in st_])[:120], kind="frame")
            if not okset: return
            spec_n = F("moles_x") * V / Vm if not twin else F("moles_x") * Vm / V
            U.discharge_eq_real(r, "PR_moles.n_i==x_i*V/V_m", hyps, d["Set_moles"][0], spec_n)
            U.discharge_eq_real(r, "PR_moles.partial_pressure==p_i", hyps, d["Set_p"][0], p)
            U.discharge_eq_real(r, "PR_moles.phi_i==pr_phi_of_the_component's_phase", hyps, d["Set_phi"][0], F("pr_phi"))
            U.discharge_eq_real(r, "PR_moles.fugacity==p_i*phi_i", hyps, d["Set_f"][0], p * F("pr_phi"))
            # total moles += the moles just set (Get_moles of the component after Set_moles = the value set)
            got = tot[0][1][0]
            gm_ = tm.app("call:Get_moles", (comp,), "R")
            got = tm.substitute(got, {gm_: d["Set_moles"][0]})
            U.discharge_eq_real(r, "PR_moles.total_moles+=n_i", hyps, got, tm.app("call:Get_total_moles", (gp,), "R") + spec_n)
            n["n"] = 1
        case_split(list(s.pc), body)
    for lab, o_ in (("scan", l_pr), ("composition", l_id), ("mixture", l_x), ("PR_moles", l_n)):
        early = live(info["inner_iters"].get(o_, []), ("brk", "ret", "throw"))
        r.add("%s.no_component_is_skipped_by_leaving_the_loop_early" % lab, DISCHARGED if not early else FAILED, "symex", 0, "%d paths leave the loop" % len(early))
    need = {"gp", "pr", "nopr", "tpV", "tpP", "e1", "e3", "missing", "found", "Veq", "nan", "idPR", "idP", "idV", "x0", "x", "n0", "n", "scan", "composition", "mixture", "PR_moles"}
    r.add("reach.cases", DISCHARGED if need <= set(n) else UNDECIDED, "symex", 0, "missing %r" % sorted(need - set(n)), kind="vacuity")
    r.assumptions += ["Get_x of cxxGasPhase / cxxGasComp are plain accessors and Set_x(v) stores v in member x (inline in GasPhase.h / GasComp.h); Get_moles after Set_moles(v) is v",
                      "phase_bsearch(name) returns the phase record of that name or NULL", "calc_PR(phases, P, T, 0) returns the molar volume of the mixture at P, T and sets pr_phi of every phase (units C19.calc_PR*)",
                      "std::isnan(p_read): the partial pressure was not given (read_gas_phase stores NaN)", "iteration contracts: components are independent except through the pressure sum P and the total moles",
                      "the copies to n_user+1..n_user_end (Rxn_copy) are not under this contract", "a new gas phase starts with total_moles = 0 (unit C19.read_gas_phase.defaults_and_option_table)",
                      "locals P, PR, V_m read by name; doubles as reals"]
    return r


def accessor_handlers(c, cls, names, sort="R"):
    """cxxGasPhase::Set_x / Get_x are the inline accessors of member x: modelled as a field gp_x of the receiver"""
    for nm in names:
        def setter(ex_, st, n, name, recv, args, nm=nm):
            k = ("f", "gp_" + nm, sort)
            st.heap[k] = tm.store(ex_.heap_arr(st, k), (recv,), ex_.coerce(args[0], sort))
            st.events.append(SX.Event(name, recv, args, tm.num(0, "I"), n))
            return [(st, tm.num(0, "I"))]
        def getter(ex_, st, n, name, recv, args, nm=nm):
            return [(st, tm.select(ex_.heap_arr(st, ("f", "gp_" + nm, sort)), recv))]
        c.handlers[cls + "::Set_" + nm] = setter
        c.handlers[cls + "::Get_" + nm] = getter


RO_FUN = ("Get_gas_phase_ptr", "Get_gas_comps", "Get_type", "Get_phase_name", "c_str", "phase_bsearch", "Get_moles", "Get_initial_moles", "Get_n_gas_phase_user", "Get_gases",
          "Get_high_precision")


def _ro_ctx():
    c = ctx(functional=RO_FUN, enums_from="Phreeqc.h", enums=ENUMS + ["TRANSPORT", "PHAST"])
    accessor_handlers(c, "cxxGasPhase", ["total_moles", "total_p", "volume", "v_m"])
    return c


def _fmt_events(evs, short):
    return [e for e in evs if e.name.split("::")[-1] == short]


def unit_gas_readouts(twin=False):
    """What print_gas_phase (output block `Gas phase`) and punch_gas_phase (SELECTED_OUTPUT -gases: pressure, total mol, volume, g_<gas>) report
    are the model quantities.  For a fixed-pressure phase that exists (n = moles of the gas unknown >= 1e-12) both first set total moles = n and
    volume = n R T / P (ideal) or n V_m (Peng-Robinson state present: V_m >= 0.01 L/mol) - the equation of state in use at the fixed pressure -
    and both do it the same way; a fixed-volume phase keeps its volume.  Reported pressure / moles / volume are total_p / total_moles / volume
    of the gas phase (0 without a gas phase); the molar volume line is V_m or V / n, Z = P V_m / (R T); each component row shows
    log P = log IAP - log K - log phi, P = p_soln_x, phi = pr_phi and final moles = moles_x of the component's phase (0 at or below the floor;
    -99.99 / 0 / 0 when the phase is not in the model); g_<gas> is moles_x of the requested gas when it is a component, else 0."""
    from fractions import Fraction as Fr
    q1, q2 = "Phreeqc::print_gas_phase", "Phreeqc::punch_gas_phase"
    fn1 = A.find_function(PRINT, q1)
    r = U.new_unit("C19.gas_readouts.reported_P_V_n_phi_are_the_model's_and_fixed_pressure_volume_follows_the_EOS", PRINT, q1 + "; punch_gas_phase", fn1)
    ev = enum_vals(); n = {}
    R = R_gas()
    gpt = tm.app("call:Get_gas_phase_ptr", (tm.app("fld:use", (THIS,), "P"),), "P")
    G0 = lambda ex, s, nm: tm.select(entry_arr(ex, s, ("f", "gp_" + nm, "R")), gpt)
    G1 = lambda ex, s, nm: tm.select(ex.heap_arr(s, ("f", "gp_" + nm, "R")), gpt)
    # ---- A/B/D: the two functions up to the rows
    for which, q in (("print", q1), ("punch", q2)):
        f, ex, fin, info = U.run_function(PRINT, q, ctx=_ro_ctx())
        if which == "print":
            # the block up to the component rows: the states in which the row loop is reached, and the paths that return before it
            first = min(info["entry"]) if info["entry"] else None
            fin = [s_ for s_ in info["entry"].get(first, [])] + [s_ for s_ in fin if s_.status == "ret" and not any(e.name == "loop_havoc" or "Component" in repr(e.args[:2]) for e in s_.events)]
            for s_ in fin:
                s_.status = "ret"
        seen = set()
        for s in live(fin, ("ret",)):
            gu = tm.select(entry_arr(ex, s, ("f", "gas_unknown", "P")), THIS)
            nmol = tm.select(entry_arr(ex, s, ("f", "moles", "R")), gu)
            tk = tm.select(entry_arr(ex, s, ("f", "tk_x", "R")), THIS)
            wr = {k[1]: v for k, ix, v in U.iter_writes(s) if k[1].startswith("gp_") and ix[0] is gpt}
            fm = _fmt_events(s.events, "sformatf"); fp = [e for e in _fmt_events(s.events, "fpunchf") if e.args and tm.isnum(e.args[0]) is False and repr(e.args[0]).startswith('"')]
            k0 = norm_key(sorted(wr.items()), [e.args for e in fm], [e.args for e in fp])
            if k0 in seen: continue
            seen.add(k0)
            reported = bool(fm) or bool(fp)
            exists = tm.and_(tm.not_(tm.eq(gu, tm.num(0, "P"))), tm.not_(tm.eq(gpt, tm.num(0, "P"))))
            fixedp = tm.eq(tm.app("call:Get_type", (gpt,), "I"), tm.num(ev["GP_PRESSURE"], "I"))
            present = tm.le(tm.Q("1/1000000000000"), nmol)
            PR = tm.le(tm.Q("1/100"), G0(ex, s, "v_m"))
            if (which == "print" and not fm) or (which == "punch" and not fp):
                r.add("%s.nothing_reported_sets_nothing#%d" % (which, len(r.obligations)), DISCHARGED if not wr else FAILED, "symex", 0, repr(wr)[:100], kind="frame"); n[which + ".quiet"] = 1
                if which == "print":
                    prs = tm.app("fld:pr", (THIS,), "P")
                    off = tm.or_(tm.eq(tm.select(entry_arr(ex, s, ("f", "gas_phase", "I")), prs), tm.num(ev["FALSE"], "I")), tm.eq(tm.select(entry_arr(ex, s, ("f", "all", "I")), prs), tm.num(ev["FALSE"], "I")))
                    gone = tm.and_(fixedp, tm.or_(tm.eq(gu, tm.num(0, "P")), tm.lt(nmol, tm.Q("1/1000000000000") if not twin else tm.Q("1/1000"))))
                    U.discharge_valid(r, "print.no_gas_block_only_when_printing_is_off,there_is_no_gas_phase_or_the_fixed_pressure_phase_is_absent#%d" % len(r.obligations), list(s.pc), tm.or_(off, tm.eq(gpt, tm.num(0, "P")), gone))
                continue
            def body(dec, hyps, s=s, wr=wr, fm=fm, fp=fp, which=which, nmol=nmol, tk=tk):
                ex_ = dec(exists)
                if not ex_:
                    if which == "punch":
                        vals = {repr(e.args[0]).strip('"'): e.args[2] for e in fp}
                        ok = not wr and all(k_ in vals and tm.isnum(vals[k_]) and vals[k_].args[0] == 0 for k_ in ("pressure", "total mol", "volume"))
                        r.add("punch.no_gas_phase:pressure_moles_volume_reported_as_0#%d" % len(r.obligations), DISCHARGED if ok else FAILED, "symex", 0, repr(vals)[:160]); n["punch.none"] = 1
                        return
                    if not dec(tm.not_(tm.eq(gpt, tm.num(0, "P")))):
                        r.add("print.no_gas_phase_nothing_reported", FAILED, "symex", 0, ""); return
                fx = dec(fixedp)
                rep = {"n": G0(ex, s, "total_moles"), "V": G0(ex, s, "volume")}
                if fx and ex_ and dec(present):
                    pr_ = dec(PR)
                    tag = "%s.fixed_pressure.%s" % (which, "Peng_Robinson" if pr_ else "ideal")
                    # since /repo 9b8d1e69 the writers REPORT n and V = n*V_m | n*R*T/P of a fixed-pressure phase and write nothing (xgas_save derives what is stored)
                    specV = (G0(ex, s, "v_m") * nmol) if pr_ else (nmol * R * tk / G0(ex, s, "total_p"))
                    if twin and not pr_:
                        specV = nmol * R * tk * G0(ex, s, "total_p")
                    rep["n"], rep["V"] = nmol, specV
                    r.add(tag + ".gas_phase_record_untouched(values_are_reported_only)#%d" % len(r.obligations), DISCHARGED if not wr else FAILED, "symex", 0, repr(sorted(wr))[:100], kind="frame")
                    n[tag] = 1
                elif fx and ex_:
                    if which == "punch":
                        rep["V"] = tm.num(0, "R")
                        r.add("punch.fixed_pressure.phase_absent(n<1e-12):nothing_written(volume_reported_as_0)#%d" % len(r.obligations), DISCHARGED if not wr else FAILED, "symex", 0, repr(wr)[:100]); n["punch.absent"] = 1
                    else:
                        ok = not wr and len(fm) == 0 or (not wr and all("Total pressure" not in repr(e.args[0]) for e in fm))
                        r.add("print.fixed_pressure.phase_absent(n<1e-12):no_gas_block#%d" % len(r.obligations), DISCHARGED if ok else FAILED, "symex", 0, repr(wr)[:100]); n["print.absent"] = 1
                        return
                else:
                    r.add("%s.fixed_volume:pressure_moles_volume_reported_as_they_are(nothing_set)#%d" % (which, len(r.obligations)), DISCHARGED if not wr else FAILED, "symex", 0, repr(wr)[:100], kind="frame"); n[which + ".vol"] = 1
                # what is reported
                if which == "punch":
                    vals = {repr(e.args[0]).strip('"'): e.args[2] for e in fp}
                    for key, mem in (("pressure", "total_p"), ("total mol", "total_moles"), ("volume", "volume")):
                        want = {"pressure": G0(ex, s, "total_p"), "total mol": rep["n"], "volume": rep["V"] if not twin else G0(ex, s, "v_m")}[key]
                        ok = key in vals and same_real(vals[key], want)
                        r.add("punch.cell_%s==%s_of_the_gas_phase#%d" % (key.replace(" ", "_"), mem, len(r.obligations)), DISCHARGED if ok else FAILED, "symex", 0, repr(vals.get(key))[:120])
                    n["punch.cells"] = 1
                else:
                    lab = {}
                    for e in fm:
                        t = repr(e.args[0])
                        for key in ("Total pressure", "Gas volume", "Molar volume", "P * Vm / RT"):
                            if key in t and len(e.args) == 2:
                                lab[key] = e.args[1]
                    P1, V1, N1, Vm1 = G0(ex, s, "total_p"), rep["V"], rep["n"], G0(ex, s, "v_m")
                    r.add("print.Total_pressure==total_p_of_the_gas_phase#%d" % len(r.obligations), DISCHARGED if "Total pressure" in lab and same_real(lab["Total pressure"], P1) else FAILED, "symex", 0, repr(lab.get("Total pressure"))[:100])
                    r.add("print.Gas_volume==volume_of_the_gas_phase#%d" % len(r.obligations), DISCHARGED if "Gas volume" in lab and same_real(lab["Gas volume"], V1) else FAILED, "symex", 0, repr(lab.get("Gas volume"))[:100])
                    pr_ = dec(PR)
                    if dec(tm.lt(tm.num(0), N1)):
                        want = Vm1 if pr_ else V1 / N1
                        ok = "Molar volume" in lab and same_real(lab["Molar volume"], want)
                        r.add("print.Molar_volume==%s#%d" % ("V_m" if pr_ else "V/n", len(r.obligations)), DISCHARGED if ok else FAILED, "symex", 0, repr(lab.get("Molar volume"))[:100]); n["print.vm" + ("PR" if pr_ else "id")] = 1
                    if pr_:
                        ok = "P * Vm / RT" in lab and same_real(lab["P * Vm / RT"], P1 * Vm1 / (R * tk))
                        r.add("print.Z==P*V_m/(R*T)#%d" % len(r.obligations), DISCHARGED if ok else FAILED, "symex", 0, repr(lab.get("P * Vm / RT"))[:100]); n["print.Z"] = 1
                    n["print.lines"] = 1
            case_split(list(s.pc), body)
    # ---- C: g_<gas> cells
    f, ex, fin, info = U.run_function(PRINT, q2, modes={0: "iter", 1: "iter"}, ctx=_ro_ctx())
    for s in info["entry"].get(1, [])[:1]:
        m0 = s.locals.get(info["names"]["moles"])
        r.add("punch.gas_cell.moles_start_at_0_for_every_requested_gas", DISCHARGED if m0 is not None and tm.isnum(m0) and m0.args[0] == 0 else FAILED, "symex", 0, repr(m0), kind="establishment"); n["g0"] = 1
    seen = set()
    for s in live(info["iter"].get(1, []), ("run", "cont", "brk")):
        m1 = s.locals.get(info["names"]["moles"])
        k0 = norm_key(s.status, m1, len(s.pc))
        if k0 in seen: continue
        seen.add(k0)
        comp = tm.add(tm.select(base_arr(ex, s, ("f", "#vdata", "P")), tm.app("call:Get_gas_comps", (gpt,), "P")), tm.sym("iter_j", "I"))
        want_nm = tm.app("c_str", (tm.app("call:Get_phase_name", (comp,), "P"),), "P")
        phs = [t for c_ in s.pc for t in _calls(c_, "phase_bsearch") if repr(t.args[2]) == repr(want_nm)]
        if not phs:
            r.add("punch.gas_cell.component_phase_looked_up_by_name", FAILED, "symex", 0, ""); continue
        ph = phs[0]
        req = tm.select(base_arr(ex, s, ("f", "second", "P")), tm.add(tm.select(base_arr(ex, s, ("f", "#vdata", "P")), tm.app("call:Get_gases", (tm.select(base_arr(ex, s, ("f", "current_selected_output", "P")), THIS),), "P")), tm.sym("iter_i", "I")))
        mx = tm.select(base_arr(ex, s, ("f", "moles_x", "R")), ph)
        floor_ = tm.select(base_arr(ex, s, ("f", "MIN_TOTAL", "R")), THIS)
        for hy, match in cases(list(s.pc), tm.eq(ph, req)):
            if match:
                for hy2, small in cases(hy, tm.le(mx, floor_)):
                    want = tm.num(0) if small else (mx if not twin else tm.select(base_arr(ex, s, ("f", "p_soln_x", "R")), ph))
                    U.discharge_valid(r, "punch.gas_cell.matching_component:moles==%s#%d" % ("0_at_or_below_the_floor" if small else "moles_x_of_its_phase", len(r.obligations)), hy2, tm.eq(m1, want))
                r.add("punch.gas_cell.search_stops_at_the_match#%d" % len(r.obligations), DISCHARGED if s.status == "brk" else FAILED, "symex", 0, s.status); n["gmatch"] = 1
            else:
                r.add("punch.gas_cell.other_component_leaves_the_value#%d" % len(r.obligations), DISCHARGED if m1 is tm.sym("iter_moles", "R") and s.status != "brk" else FAILED, "symex", 0, repr(m1)[:80]); n["gother"] = 1
    for s in live(info["iter"].get(0, []), ("run", "cont")):
        fp = _fmt_events(U.iter_events(s), "fpunchf")
        m1 = s.locals.get(info["names"]["moles"])
        ok = len(fp) == 1 and fp[0].args[2] is m1
        if "gcell" not in n or not ok:
            r.add("punch.gas_cell.value_written_is_the_moles_found#%d" % len(r.obligations), DISCHARGED if ok else FAILED, "symex", 0, repr(fp)[:100])
        n["gcell"] = 1
    # ---- E: component rows of the print block
    loops = [x for x in A.walk(fn1) if x.get("kind") in ("ForStmt", "WhileStmt", "DoStmt")]
    outer = [k for k, lp in enumerate(loops) if lp in A.body_of(fn1)["inner"]]
    if len(outer) != 1:
        raise Undecided("print_gas_phase: component loop not found (%d)" % len(outer))
    f, ex, its, info = U.run_loop_isolated(PRINT, q1, outer[0], ctx=_ro_ctx(), inner_modes={"*": "iter"})
    heads = {}
    for e in _fmt_events(A_events_of_function(PRINT, q1), "sformatf"):
        pass
    # headings: the sformatf calls whose first value is "Component"
    f0, ex0, fin0, info0 = U.run_function(PRINT, q1, ctx=_ro_ctx())
    for s in live(fin0, ("ret",)):
        for e in _fmt_events(s.events, "sformatf"):
            if len(e.args) > 2 and repr(e.args[1]) == '"Component"':
                heads[len(e.args) - 1] = [repr(a).strip('"') for a in e.args[1:]]
    seen = set()
    tokl = [k for k in range(len(loops)) if k not in outer]
    for s in live(its, ("run", "cont")):
        evs = U.iter_events(s)
        rows = [e for e in _fmt_events(evs, "sformatf")]
        comp = tm.add(tm.select(entry_arr(ex, s, ("f", "#vdata", "P")), tm.app("call:Get_gas_comps", (tm.sym("L_gas_phase_ptr", "P"),), "P")), tm.sym("iter_j", "I"))
        want_nm = tm.app("c_str", (tm.app("call:Get_phase_name", (comp,), "P"),), "P")
        phs = [t for c_ in s.pc for t in _calls(c_, "phase_bsearch") if repr(t.args[2]) == repr(want_nm)]
        if len(rows) != 1 or not phs:
            r.add("row.one_row_per_component_for_the_phase_of_its_name", FAILED, "symex", 0, "%d rows" % len(rows)); continue
        ph = phs[0]
        vals = rows[0].args[1:]
        hd = heads.get(len(vals))
        if hd is None:
            r.add("row.has_as_many_cells_as_one_of_the_headings", FAILED, "symex", 0, "%d cells, headings %r" % (len(vals), sorted(heads))); continue
        cell = dict(zip(hd, vals))
        k0 = norm_key([cell.get(k_) for k_ in ("log P", "P", "phi", "Final")], [c_ for c_ in s.pc if "state" not in repr(c_) and "fabs" not in repr(c_)][:0])
        if k0 in seen: continue
        seen.add(k0)
        F = lambda nm, so="R": tm.select(entry_arr(ex, s, ("f", nm, so)), ph)
        floor_ = tm.select(entry_arr(ex, s, ("f", "MIN_TOTAL", "R")), THIS)
        def body(dec, hyps, s=s, cell=cell, ph=ph, F=F):
            inm = dec(tm.eq(F("in", "I"), tm.num(ev["TRUE"], "I")))
            tag = "row.in_model" if inm else "row.not_in_model"
            lp = cell.get("log P")
            if inm:
                hv = [t for t in tm.subterms(lp) if t.op == "sym" and t.args[0].startswith("havoc_")] if lp is not None else []
                ok = len(hv) == 1 and same_real(lp, hv[0] - (F("pr_si_f") if not twin else F("pr_phi")))
                r.add(tag + ".log_P==(logIAP-logK)-log_phi#%d" % len(r.obligations), DISCHARGED if ok else FAILED, "symex", 0, repr(lp)[:160])
                want_m = tm.num(0) if dec(tm.le(F("moles_x"), floor_)) else F("moles_x")
                p_now = F("p_soln_x")
            else:
                ok = lp is not None and tm.isnum(lp) and lp.args[0] == Fr("-99.99")
                r.add(tag + ".log_P==-99.99#%d" % len(r.obligations), DISCHARGED if ok else FAILED, "symex", 0, repr(lp)[:100])
                want_m = tm.num(0); p_now = tm.num(0)
            r.add(tag + ".P==partial_pressure_of_the_phase(p_soln_x)#%d" % len(r.obligations), DISCHARGED if cell.get("P") is not None and same_real(cell["P"], p_now) else FAILED, "symex", 0, repr(cell.get("P"))[:120])
            if "phi" in cell:
                r.add(tag + ".phi==pr_phi_of_the_phase#%d" % len(r.obligations), DISCHARGED if same_real(cell["phi"], F("pr_phi")) else FAILED, "symex", 0, repr(cell["phi"])[:120]); n["row.phi"] = 1
            fin_ = cell.get("Final")
            okm = fin_ is not None and B.z3_prove(hyps, tm.eq(fin_, want_m))[0] == "proved"
            r.add(tag + ".Final==moles_x_of_the_phase(0_at_or_below_the_floor)#%d" % len(r.obligations), DISCHARGED if okm else FAILED, "symex", 0, repr(fin_)[:120])
            n[tag] = 1
        case_split([c_ for c_ in s.pc], body)
    # log IAP - log K: the token loop of the row
    import props.c19_ext as E1
    if len(tokl) == 1:
        ents = info["inner_entries"].get(tokl[0], []); itr = info["inner_iters"].get(tokl[0], [])
        def ph_of(s_):
            comp = tm.add(tm.select(ex.heap_arr(s_, ("f", "#vdata", "P")), tm.app("call:Get_gas_comps", (tm.sym("L_gas_phase_ptr", "P"),), "P")), tm.sym("iter_j", "I"))
            want_nm = tm.app("c_str", (tm.app("call:Get_phase_name", (comp,), "P"),), "P")
            phs = [t for c_ in s_.pc for t in _calls(c_, "phase_bsearch") if repr(t.args[2]) == repr(want_nm)]
            if not phs:
                raise Undecided("token loop: phase of the component not identified")
            return phs[0]
        E1.check_token_loop(r, n, ex, ents, itr, loops[tokl[0]], ph_of)
    need = {"print.quiet", "punch.none", "print.fixed_pressure.Peng_Robinson", "print.fixed_pressure.ideal", "punch.fixed_pressure.Peng_Robinson", "punch.fixed_pressure.ideal",
            "punch.absent", "punch.quiet", "print.vol", "punch.vol", "punch.cells", "print.lines", "print.vmPR", "print.vmid", "print.Z", "g0", "gmatch", "gother", "gcell",
            "row.in_model", "row.not_in_model", "row.phi", "tok_entry", "tok_iter"}
    r.add("reach.cases", DISCHARGED if need <= set(n) else UNDECIDED, "symex", 0, "missing %r" % sorted(need - set(n)), kind="vacuity")
    r.assumptions += ["Get_x / Set_x of cxxGasPhase are plain accessors of member x", "phase_bsearch(name) returns the phase record of that name", "sformatf / fpunchf render their arguments in order (printf rendering is outside every unit)",
                      "labels pair with values: the value after the label text `Total pressure`, `Gas volume`, `Molar volume`, `P * Vm / RT` and the cells under the headings `log P`, `P`, `phi`, `Final` (text anchors on the labels)",
                      "the columns Initial and Delta are not constrained (the property does not speak about them)", "V_m >= 0.01 L/mol marks a Peng-Robinson state (V_m stays 0 for an ideal gas phase)",
                      "pr_si_f = log10 phi (units C19.calc_PR*); rxn_x of a gas in the model is its dissolution reaction with the gas as first token", "doubles as reals"]
    return r


def A_events_of_function(rel, q):
    return []


PBASIC = "src/phreeqcpp/PBasic.cpp"
BG_FUN = ("Get_gas_phase_ptr", "Get_gas_phase_in", "Get_gas_comps", "Get_type", "Get_phase_name", "c_str", "phase_bsearch", "strcmp_nocase", "Get_pr_in", "Get_p", "Get_phi")


def unit_basic_gas(twin=False):
    """BASIC read-outs of the gas phase.  GAS("name"): moles_x of the phase of that name when the gas phase in use has a component of that name,
    else 0.  GAS_P: the total pressure of the gas phase (0 without one, and for a fixed-pressure phase that does not exist: no unknown or
    n < 1e-12).  GAS_VM: V / n of the gas phase, where a fixed-pressure phase first gets n = moles of the gas unknown and V = n R T / P (ideal)
    or n V_m (Peng-Robinson state, V_m >= 0.01) exactly as the output block and selected output do.  PR_P("gas") / PR_PHI("gas"): for a
    component of the gas phase the phase's Peng-Robinson partial pressure pr_p / fugacity coefficient pr_phi when the gas phase carries
    Peng-Robinson state and the gas is present, otherwise the component's stored p / phi; without a gas phase the phase's own pr_p / pr_phi
    when it is in the model with Peng-Robinson state, else 0 / 1; an unknown name gives 1e-99.  The interpreter hands each function its string
    argument and returns its value."""
    from fractions import Fraction as Fr
    q0 = "Phreeqc::find_gas_comp"
    fn0 = A.find_function(BASICSUBS, q0)
    r = U.new_unit("C19.BASIC.GAS_GAS_P_GAS_VM_PR_P_PR_PHI_report_the_model's_gas_phase", BASICSUBS, "Phreeqc::find_gas_comp; find_gas_p; find_gas_vm; pr_pressure; pr_phi; PBasic::factor", fn0)
    ev = enum_vals(); n = {}
    R = R_gas()
    use = tm.app("fld:use", (THIS,), "P")
    gpt = tm.app("call:Get_gas_phase_ptr", (use,), "P")
    mk = lambda: (lambda c: (accessor_handlers(c, "cxxGasPhase", ["total_moles", "total_p", "volume", "v_m"]), c)[1])(ctx(functional=BG_FUN, enums_from="Phreeqc.h", enums=ENUMS))
    nogas = lambda: tm.or_(tm.not_(tm.app("call:Get_gas_phase_in", (use,), "B")), tm.eq(gpt, tm.num(0, "P")))
    def isnum(t, v):
        return t is not None and tm.isnum(t) and t.args[0] == v
    # ---- GAS("name")
    f, ex, fin, info = U.run_function(BASICSUBS, q0, modes={0: "iter"}, ctx=mk())
    name = tm.sym("P0_%s" % A.params_of(f)[0]["name"], "P")
    for s in live(fin, ("ret",)):
        r.add("GAS.no_match_or_no_gas_phase:0#%d" % len(r.obligations), DISCHARGED if isnum(s.ret, 0) and not U.iter_writes(s) else FAILED, "symex", 0, repr(s.ret)[:80]); n["gas0"] = 1
    seen = set()
    for s in live(info["iter"].get(0, []), ("run", "cont", "ret", "brk")):
        comp = tm.add(tm.select(base_arr(ex, s, ("f", "#vdata", "P")), tm.app("call:Get_gas_comps", (gpt,), "P")), tm.sym("iter_j", "I"))
        cmpn = [t for c_ in s.pc for t in _calls(c_, "strcmp_nocase")]
        k0 = norm_key(s.status, s.ret if s.status == "ret" else None, len(s.pc))
        if k0 in seen: continue
        seen.add(k0)
        okc = cmpn and repr(cmpn[0].args[-2]) == repr(tm.app("c_str", (tm.app("call:Get_phase_name", (comp,), "P"),), "P")) and cmpn[0].args[-1] is name
        if not okc:
            r.add("GAS.name_of_component_j_compared_with_the_argument", FAILED, "symex", 0, repr(cmpn)[:200]); continue
        phs = [t for c_ in s.pc for t in _calls(c_, "phase_bsearch")]
        if s.status == "ret":
            ok = phs and phs[0].args[2] is name and B.z3_prove(list(s.pc), tm.and_(tm.eq(cmpn[0], tm.num(0, "I")), tm.not_(tm.eq(phs[0], tm.num(0, "P")))))[0] == "proved"
            want = tm.select(base_arr(ex, s, ("f", "moles_x" if not twin else "moles", "R")), phs[0]) if phs else None
            r.add("GAS.component_of_that_name:returns_moles_x_of_the_phase_of_that_name", DISCHARGED if ok and same_real(s.ret, want) else FAILED, "symex", 0, repr(s.ret)[:160]); n["gas1"] = 1
        else:
            miss = tm.or_(tm.not_(tm.eq(cmpn[0], tm.num(0, "I"))), tm.eq(phs[0], tm.num(0, "P"))) if phs else tm.not_(tm.eq(cmpn[0], tm.num(0, "I")))
            U.discharge_valid(r, "GAS.search_goes_on_only_past_components_of_another_name(or_unknown_phase)#%d" % len(r.obligations), list(s.pc), miss)
            r.add("GAS.search_not_abandoned#%d" % len(r.obligations), DISCHARGED if s.status != "brk" and not U.iter_writes(s) else FAILED, "symex", 0, s.status); n["gas2"] = 1
    # ---- GAS_P and GAS_VM
    for q, tag in (("Phreeqc::find_gas_p", "GAS_P"), ("Phreeqc::find_gas_vm", "GAS_VM")):
        f, ex, fin, info = U.run_function(BASICSUBS, q, ctx=mk())
        for s in live(fin, ("ret",)):
            gu = tm.select(entry_arr(ex, s, ("f", "gas_unknown", "P")), THIS)
            nmol = tm.select(entry_arr(ex, s, ("f", "moles", "R")), gu)
            tk = tm.select(entry_arr(ex, s, ("f", "tk_x", "R")), THIS)
            G0 = lambda nm: tm.select(entry_arr(ex, s, ("f", "gp_" + nm, "R")), gpt)
            wr = {k[1]: v for k, ix, v in U.iter_writes(s)}
            fixedp = tm.eq(tm.app("call:Get_type", (gpt,), "I"), tm.num(ev["GP_PRESSURE"], "I"))
            absent = tm.and_(fixedp, tm.or_(tm.eq(gu, tm.num(0, "P")), tm.lt(nmol, tm.Q("1/1000000000000"))))
            def body(dec, hyps, s=s, wr=wr, nmol=nmol, tk=tk, G0=G0, tag=tag):
                if dec(nogas()) or dec(absent):
                    r.add("%s.no_gas_phase_or_absent_fixed_pressure_phase:0#%d" % (tag, len(r.obligations)), DISCHARGED if isnum(s.ret, 0) and not wr else FAILED, "symex", 0, repr(s.ret)[:80]); n[tag + "0"] = 1; return
                if tag == "GAS_P":
                    r.add("GAS_P.returns_total_p_of_the_gas_phase#%d" % len(r.obligations), DISCHARGED if same_real(s.ret, G0("total_p" if not twin else "volume")) and not wr else FAILED, "symex", 0, repr(s.ret)[:120]); n["GAS_P1"] = 1; return
                if dec(fixedp):
                    pr_ = dec(tm.le(tm.Q("1/100"), G0("v_m")))
                    V = G0("v_m") * nmol if pr_ else nmol * R * tk / G0("total_p")
                    U.discharge_eq_real(r, "GAS_VM.fixed_pressure.%s.total_moles:=moles_of_the_gas_unknown" % ("PR" if pr_ else "ideal"), hyps, wr.get("gp_total_moles", tm.num(-1)), nmol)
                    U.discharge_eq_real(r, "GAS_VM.fixed_pressure.%s.volume:=%s(as_the_output_block_does)" % ("PR" if pr_ else "ideal", "n*V_m" if pr_ else "n*R*T/P"), hyps, wr.get("gp_volume", tm.num(-1)), V)
                    U.discharge_eq_real(r, "GAS_VM.fixed_pressure.%s.returns_V/n" % ("PR" if pr_ else "ideal"), hyps, s.ret, V / nmol)
                    r.add("GAS_VM.fixed_pressure.%s.nothing_else_set" % ("PR" if pr_ else "ideal"), DISCHARGED if set(wr) == {"gp_total_moles", "gp_volume"} else FAILED, "symex", 0, repr(sorted(wr)), kind="frame")
                    n["GAS_VM" + ("PR" if pr_ else "id")] = 1
                else:
                    U.discharge_eq_real(r, "GAS_VM.fixed_volume.returns_V/n_of_the_gas_phase", hyps, s.ret, G0("volume") / G0("total_moles"))
                    r.add("GAS_VM.fixed_volume.nothing_set", DISCHARGED if not wr else FAILED, "symex", 0, repr(sorted(wr)), kind="frame"); n["GAS_VMvol"] = 1
            case_split(list(s.pc), body)
    # ---- PR_P / PR_PHI (twin functions)
    for q, tag, mem, getter, dflt in (("Phreeqc::pr_pressure", "PR_P", "pr_p", "Get_p", 0), ("Phreeqc::pr_phi", "PR_PHI", "pr_phi", "Get_phi", 1)):
        f, ex, fin, info = U.run_function(BASICSUBS, q, modes={0: "iter"}, ctx=mk())
        name = tm.sym("P0_%s" % A.params_of(f)[0]["name"], "P")
        def phase_term(s):
            phs = [t for c_ in s.pc for t in _calls(c_, "phase_bsearch") if t.args[2] is name]
            return phs[0] if phs else None
        for s in live(fin, ("ret",)):
            ph = phase_term(s)
            if ph is None:
                r.add("%s.phase_looked_up_by_the_argument" % tag, FAILED, "symex", 0, ""); continue
            F = lambda nm, so="R": tm.select(entry_arr(ex, s, ("f", nm, so)), ph)
            def body(dec, hyps, s=s, ph=ph, F=F, tag=tag, mem=mem, dflt=dflt):
                if dec(tm.eq(ph, tm.num(0, "P"))):
                    r.add("%s.unknown_gas:1e-99" % tag, DISCHARGED if tm.isnum(s.ret) and s.ret.args[0] == Fr("1e-99") else FAILED, "symex", 0, repr(s.ret)[:60]); n[tag + "unk"] = 1; return
                if dec(tm.not_(tm.eq(gpt, tm.num(0, "P")))):
                    r.add("%s.gas_phase_without_that_component:%d#%d" % (tag, dflt, len(r.obligations)), DISCHARGED if isnum(s.ret, dflt) else FAILED, "symex", 0, repr(s.ret)[:60]); n[tag + "nocomp"] = 1; return
                own = dec(tm.and_(tm.not_(tm.eq(F("in", "I"), tm.num(ev["FALSE"], "I"))), tm.to_bool(F("pr_in", "B"))))
                if own:
                    r.add("%s.no_gas_phase:phase_in_model_with_Peng_Robinson_state:its_%s" % (tag, mem), DISCHARGED if same_real(s.ret, F(mem if not twin else "pr_si_f")) else FAILED, "symex", 0, repr(s.ret)[:100]); n[tag + "own"] = 1
                else:
                    r.add("%s.no_gas_phase:otherwise_%d" % (tag, dflt), DISCHARGED if isnum(s.ret, dflt) else FAILED, "symex", 0, repr(s.ret)[:60]); n[tag + "dflt"] = 1
            case_split(list(s.pc), body)
        seen = set()
        for s in live(info["iter"].get(0, []), ("run", "cont", "ret", "brk")):
            ph = phase_term(s)
            comp = tm.add(tm.select(base_arr(ex, s, ("f", "#vdata", "P")), tm.app("call:Get_gas_comps", (gpt,), "P")), tm.sym("iter_i", "I"))
            want_nm = tm.app("c_str", (tm.app("call:Get_phase_name", (comp,), "P"),), "P")
            phg = [t for c_ in s.pc for t in _calls(c_, "phase_bsearch") if repr(t.args[2]) == repr(want_nm)]
            k0 = norm_key(s.status, s.ret if s.status == "ret" else None, len(s.pc))
            if k0 in seen: continue
            seen.add(k0)
            if ph is None or not phg:
                r.add("%s.component_i's_phase_compared_with_the_named_phase" % tag, FAILED, "symex", 0, ""); continue
            F = lambda nm, so="R": tm.select(base_arr(ex, s, ("f", nm, so)), ph)
            if s.status == "ret":
                okm = B.z3_prove(list(s.pc), tm.eq(ph, phg[0]))[0] == "proved"
                r.add("%s.returns_inside_the_search_only_at_the_matching_component#%d" % (tag, len(r.obligations)), DISCHARGED if okm else FAILED, "symex", 0, "")
                for hy, pr_ in cases(list(s.pc), tm.and_(tm.to_bool(tm.app("call:Get_pr_in", (gpt,), "B")), tm.not_(tm.eq(F("moles_x"), tm.num(0))))):
                    want = F(mem) if pr_ else tm.app("call:" + getter, (comp,), "R")
                    ok = B.z3_prove(hy, tm.eq(s.ret, want))[0] == "proved" or same_real(s.ret, want) and len(cases(list(s.pc), tm.TRUE)) == 1
                    ok = B.z3_prove(hy, tm.eq(s.ret, want))[0] == "proved"
                    r.add("%s.component.%s#%d" % (tag, ("Peng_Robinson_state_and_gas_present:%s_of_the_phase" % mem) if pr_ else ("otherwise_the_component's_stored_%s" % getter[4:]), len(r.obligations)), DISCHARGED if ok else FAILED, "symex", 0, repr(s.ret)[:120])
                    n[tag + ("PR" if pr_ else "stored")] = 1
            else:
                U.discharge_valid(r, "%s.search_goes_on_only_past_other_components#%d" % (tag, len(r.obligations)), list(s.pc), tm.not_(tm.eq(ph, phg[0])))
                r.add("%s.search_not_abandoned#%d" % (tag, len(r.obligations)), DISCHARGED if s.status != "brk" else FAILED, "symex", 0, s.status); n[tag + "next"] = 1
    # ---- the interpreter's cases
    qf = "PBasic::factor"
    ff = A.find_function(PBASIC, qf)
    from props.c16_ext import basic_case_body
    table = [("tokgas", "find_gas_comp", True), ("tokgas_p", "find_gas_p", False), ("tokgas_vm", "find_gas_vm", False), ("tokpr_p", "pr_pressure", True), ("tokpr_phi", "pr_phi", True)]
    if twin:
        table[1] = ("tokgas_p", "find_gas_vm", False)
    for tok, callee, strarg in table:
        bnode = basic_case_body(ff, PBASIC, tok)
        if bnode is None:
            r.add("%s.case_found" % tok, UNDECIDED, "syntactic", 0, ""); continue
        c = ctx(functional=("stringfactor",) + tuple(t[1] for t in table), enums_from="Phreeqc.h", enums=ENUMS)
        c.record_types.update({"valrec", "PBasic::valrec", "struct PBasic::valrec"})
        f, ex, fin, info = region(PBASIC, qf, [bnode], c)
        for s in live(fin):
            w = [(k, ix, v) for k, ix, v in U.iter_writes(s) if k == ("f", "val", "R")]
            if len(w) != 1:
                r.add("%s.assigns_the_result_once" % tok, FAILED, "symex", 0, repr(w)[:200]); continue
            v = w[0][2]
            php = fld0(ex, s, "PhreeqcPtr", "P")
            sf = [e for e in s.events if e.name.endswith("stringfactor")]; ce = [e for e in s.events if e.name.split("::")[-1] == callee]
            ok = len(ce) == 1 and ce[0].recv is php and v.op == "ite" and v.args[0] is fld0(ex, s, "parse_all", "B") and v.args[2] is ce[0].result
            if strarg:
                ok = ok and len(sf) == 1 and ce[0].args[0] is sf[0].result
            r.add("%s.returns_%s(%s)_when_running" % (tok, callee, "its_string_argument" if strarg else ""), DISCHARGED if ok else FAILED, "symex", 0, repr(v)[:160]); n[tok] = 1
    need = {"gas0", "gas1", "gas2", "GAS_P0", "GAS_P1", "GAS_VM0", "GAS_VMPR", "GAS_VMid", "GAS_VMvol", "tokgas", "tokgas_p", "tokgas_vm", "tokpr_p", "tokpr_phi"} | {
        t + x for t in ("PR_P", "PR_PHI") for x in ("unk", "nocomp", "own", "dflt", "PR", "stored", "next")}
    r.add("reach.cases", DISCHARGED if need <= set(n) else UNDECIDED, "symex", 0, "missing %r" % sorted(need - set(n)), kind="vacuity")
    r.assumptions += ["Get_x / Set_x of cxxGasPhase and cxxGasComp are plain accessors", "phase_bsearch(name) returns the phase record of that name or NULL; strcmp_nocase(a, b) == 0 iff the names are equal up to case",
                      "moles_x, pr_p, pr_phi of a phase are what calc_gas_pressures / calc_PR left (their units); the component's stored p / phi are what the last save wrote (C02 xgas_save)",
                      "statement contracts on five case bodies of PBasic::factor (located by their token)", "V_m >= 0.01 L/mol marks a Peng-Robinson state", "doubles as reals"]
    return r


def scanf_handler(ex_, st, n, name, recv, args):
    """sscanf(text, "%lf", &x): x := the number read (arbitrary), returns the conversion count"""
    fr = SX.fresh("scanned", "R")
    if len(args) >= 3 and args[2].op == "app" and args[2].args[0].startswith("fld:"):
        k = ("f", args[2].args[0][4:], "R")
        st.heap[k] = tm.store(ex_.heap_arr(st, k), (args[2].args[1],), fr)
    e = SX.Event(name, recv, args, SX.fresh("nconv", "I"), n)
    e.snap = {"value": fr}
    st.events.append(e)
    return [(st, e.result)]


def unit_read_gas_phase_store(twin=False):
    """GAS_PHASE input, the parts the option-table unit leaves out.  `-equilibrate n` (also -equilibrium / -equil): the number token on the line
    becomes the solution the gas phase is to be equilibrated with and the phase is marked `to be equilibrated` (a missing number is an input
    error).  Every accepted component line appends exactly one component - the one whose name and partial pressure were just set - to THIS
    gas phase; a line with an unreadable number appends nothing.  After the last line every component read is kept (re-ordered by name
    through a map keyed by the component's own name) and the gas phase is stored in Rxn_gas_phase_map under the number read from the keyword
    line, which is also entered in the list of new gas phases that tidy_gas_phase works through."""
    q = "Phreeqc::read_gas_phase"
    fn = A.find_function(READ, q)
    r = U.new_unit("C19.read_gas_phase.equilibrate_number_components_kept_and_phase_stored_under_its_number", READ, q, fn)
    n = {}
    E = ENUMS + ["OPTION_EOF", "OPTION_KEYWORD", "OPTION_ERROR", "OPTION_DEFAULT", "EOF", "KEYWORD", "DIGIT", "EMPTY", "UNKNOWN", "CONTINUE"]
    evx = {k.split("::")[-1]: v for k, v in A.enum_values_compiled("Phreeqc.h", ["DIGIT", "EMPTY", "OPTION_DEFAULT"]).items()}
    gp = tm.sym("&L_temp_gas_phase", "P")
    # ---- -equilibrate
    loops_ = [x for x in A.walk(fn) if x.get("kind") in ("ForStmt", "WhileStmt", "DoStmt")]
    inner_ = [k for k, lp_ in enumerate(loops_) if k > 0 and any(y is lp_ for y in A.walk(loops_[0]["inner"][-1])) and "copy_token(" in text_of(READ, lp_["inner"][-1])]
    if len(inner_) != 1:
        raise Undecided("read_gas_phase: the token scan of -equilibrate was not found (%d)" % len(inner_))
    o = inner_[0]
    c = ctx(enums_from="Phreeqc.h", enums=E); c.handlers["sscanf"] = scanf_handler
    f, ex, its, info = U.run_loop_isolated(READ, q, o, ctx=c)
    r.head_exempt = {(q, o): "token scan `for (;;)` left by break at the number or at the end of the line: stated by the equilibrate.* obligations"}
    for s in live(its, ("run", "cont", "brk")):
        evs = U.iter_events(s)
        ct = [e for e in evs if e.name.endswith("copy_token")]
        st_ = [(e.name.split("::")[-1], e.recv, e.args) for e in evs if e.name.split("::")[-1].startswith("Set_")]
        if len(ct) != 1:
            r.add("equilibrate.one_token_per_step", FAILED, "symex", 0, ""); continue
        kind = ct[0].result
        for hy, digit in cases(list(s.pc), tm.eq(kind, tm.num(evx["DIGIT"], "I"))):
            if digit:
                sc = [e for e in evs if e.name.endswith("sscanf")]
                d = {a: (b, c_) for a, b, c_ in st_}
                ok = len(sc) == 1 and sc[0].args[0] is ct[0].args[0] and "%d" in repr(sc[0].args[1]) and set(d) == {"Set_n_solution", "Set_new_def", "Set_solution_equilibria"} and all(b is gp for b, c_ in d.values())
                if ok:
                    dest = sc[0].args[2]
                    val = d["Set_n_solution"][1][0]
                    ok = repr(dest) in repr(val) and d["Set_solution_equilibria"][1][0] is (tm.TRUE if not twin else tm.FALSE) and d["Set_new_def"][1][0] is tm.TRUE and s.status == "brk"
                r.add("equilibrate.number_token:solution_number:=the_number_scanned_from_it,marked_to_be_equilibrated", DISCHARGED if ok else FAILED, "symex", 0, repr(st_)[:200]); n["eq"] = 1
            else:
                for hy2, empty in cases(hy, tm.eq(kind, tm.num(evx["EMPTY"], "I"))):
                    ie = [v for k, ix, v in U.iter_writes(s) if k == ("f", "input_error", "I")]
                    if empty:
                        r.add("equilibrate.no_number_on_the_line:input_error,nothing_set", DISCHARGED if len(ie) == 1 and not st_ and s.status == "brk" else FAILED, "symex", 0, repr(st_)[:100]); n["eq0"] = 1
                    else:
                        r.add("equilibrate.other_tokens_skipped", DISCHARGED if not ie and not st_ and s.status != "brk" else FAILED, "symex", 0, repr(st_)[:100]); n["eqskip"] = 1
    # ---- component lines: appended to this gas phase
    sw = outer_switch(fn)
    c = ctx(functional=("Get_gas_comps",), enums_from="Phreeqc.h", enums=E); c.handlers["sscanf"] = scanf_handler
    c.loop = lambda ex_, st, nd, o_: ex_.havoc_loop(nd, st)
    f, ex, fin, info = region(READ, q, [sw], c)
    opt = tm.sym("L_opt", "I")
    comps = tm.app("call:Get_gas_comps", (gp,), "P")
    for s in live(fin, ("run", "brk")):
        k = opt_of(s, opt)
        pushed = [e for e in s.events if e.name.endswith("push_back")]
        if k != evx["OPTION_DEFAULT"]:
            if k is not None:
                r.add("frame.case_%d_appends_no_component#%d" % (k, len(r.obligations)), DISCHARGED if not pushed else FAILED, "symex", 0, "", kind="frame")
            continue
        pr = [e for e in s.events if e.name.endswith("Set_p_read")]; pn = [e for e in s.events if e.name.endswith("Set_phase_name")]
        if pr:
            ok = len(pushed) == 1 and len(pn) == 1 and pushed[0].recv is comps and pr[0].recv is pn[0].recv and repr(pr[0].recv) in repr(pushed[0].args)
            ok = ok and s.events.index(pushed[0]) > s.events.index(pr[0])
            r.add("component_line.accepted:the_component_just_filled_is_appended_once_to_this_gas_phase#%d" % len(r.obligations), DISCHARGED if ok else FAILED, "symex", 0, repr(pushed)[:200]); n["push"] = 1
        else:
            r.add("component_line.unreadable_number:nothing_appended", DISCHARGED if not pushed else FAILED, "symex", 0, repr(pushed)[:100]); n["nopush"] = 1
    # ---- after the last line
    loops = [x for x in A.walk(fn) if x.get("kind") in ("ForStmt", "WhileStmt", "DoStmt")]
    body = A.body_of(fn)["inner"]
    tops = [i for i, x in enumerate(body) if x in loops]
    if len(tops) != 3:
        raise Undecided("read_gas_phase: line loop + two sort loops expected at top level, found %d" % len(tops))
    head = body[:tops[0]]; tail = body[tops[0] + 1:]
    c = ctx(functional=("Get_gas_comps", "Get_phase_name", "Get_n_user"), enums_from="Phreeqc.h", enums=E)
    store = {}
    def lp(ex_, st, nd, o_):
        store.setdefault(o_, []).extend(ex_.iterate_loop(nd, st.clone()))
        return ex_.havoc_loop(nd, st)
    c.loop = lp
    f, ex, fin, info = region(READ, q, tail, c)
    o1, o2 = [loops.index(body[i]) for i in tops[1:]]
    for s in live(store.get(o1, []), ("run", "cont")):
        evs = U.iter_events(s)
        comp = tm.add(tm.select(base_arr(ex, s, ("f", "#vdata", "P")), comps), tm.sym("iter_i", "I"))
        mo = [e for e in evs if e.name == "map.operator[]"]
        asg = [e for e in evs if e.name.endswith("operator=")]
        ok = len(mo) == 1 and repr(mo[0].args[0]) == repr(tm.app("call:Get_phase_name", (comp if not twin else tm.select(base_arr(ex, s, ("f", "#vdata", "P")), comps),), "P")) and len(asg) == 1 and repr(mo[0].recv) in repr(asg[0].recv) and "iter_i" in repr(asg[0].args)
        r.add("sort.component_i_filed_under_its_own_name", DISCHARGED if ok else FAILED, "symex", 0, repr(mo)[:200]); n["s1"] = 1
        conds = [c_ for c_ in s.pc if "iter_i" in repr(c_)][:1]
        want = tm.lt(tm.sym("iter_i", "I"), tm.select(base_arr(ex, s, ("f", "#vsize", "I")), comps))
        okr = conds and B.z3_prove([want], conds[0])[0] == "proved" and B.z3_prove([conds[0]], want)[0] == "proved"
        r.add("sort.every_component_read_is_filed(i<size)", DISCHARGED if okr else FAILED, "z3", 0, repr(conds)[:120])
    mapobj = None
    for s in live(store.get(o2, []), ("run", "cont")):
        evs = U.iter_events(s)
        pb = [e for e in evs if e.name == "vector.push_back"]
        ok = len(pb) == 1 and pb[0].args[1] is tm.app("fld:second", (tm.app("mnode", (tm.sym("iter_it", "P"),), "P"),), "P")
        r.add("sort.every_filed_component_goes_to_the_new_list_once", DISCHARGED if ok else FAILED, "symex", 0, repr(pb)[:200]); n["s2"] = 1
        mapobj = pb[0].recv if pb else None
    for s in live(fin, ("ret",)):
        sg = [e for e in s.events if e.name.endswith("Set_gas_comps")]
        mo = [e for e in s.events if e.name == "map.operator[]"]
        asg = [e for e in s.events if e.name.endswith("operator=")]
        ins = [e for e in s.events if e.name.endswith("insert")]
        nu = tm.sym("L_n_user", "I")
        ok = len(sg) == 1 and sg[0].recv is gp and mapobj is not None and sg[0].args[0] is mapobj
        r.add("store.sorted_list_becomes_the_component_list_of_this_gas_phase", DISCHARGED if ok else FAILED, "symex", 0, repr(sg)[:100])
        ok = len(mo) == 1 and mo[0].recv is tm.app("fld:Rxn_gas_phase_map", (THIS,), "P") and mo[0].args[0] is nu and len(asg) == 1 and asg[0].args[0] is gp and s.events.index(asg[0]) > s.events.index(sg[0]) if sg else False
        r.add("store.gas_phase_stored_in_Rxn_gas_phase_map_under_its_number(after_the_list_is_set)", DISCHARGED if ok else FAILED, "symex", 0, repr(mo)[:160])
        ok = len(ins) == 1 and ins[0].recv is tm.app("fld:Rxn_new_gas_phase", (THIS,), "P") and ins[0].args[0] is nu
        r.add("store.number_entered_in_the_list_of_new_gas_phases", DISCHARGED if ok else FAILED, "symex", 0, repr(ins)[:100]); n["store"] = 1
    c = ctx(functional=("Get_gas_comps", "Get_phase_name", "Get_n_user", "Get_gas_phase_in"), enums_from="Phreeqc.h", enums=E)
    f, ex, fin, info = region(READ, q, head, c)
    for s in live(fin, ("run",))[:1]:
        nuv = s.locals.get(info["names"]["n_user"])
        rd = [e for e in s.events if e.name.endswith("read_number_description")]
        ok = len(rd) == 1 and "temp_gas_phase" in repr(rd[0].recv) and nuv is tm.app("call:Get_n_user", (rd[0].recv,), "I")
        r.add("store.its_number_is_the_one_read_from_the_keyword_line", DISCHARGED if ok else FAILED, "symex", 0, repr(nuv)[:100]); n["num"] = 1
    need = {"eq", "eq0", "eqskip", "push", "nopush", "s1", "s2", "store", "num"}
    r.add("reach.cases", DISCHARGED if need <= set(n) else UNDECIDED, "symex", 0, "missing %r" % sorted(need - set(n)), kind="vacuity")
    r.assumptions += ["copy_token returns the kind of the next token and copies it to its first argument; sscanf(token, \"%d\", &l) stores the number in l", "std::map / std::vector model; iterating a map visits every entry once",
                      "two components of the same name collapse into one (the later line wins): not a property concern", "read_number_description parses `GAS_PHASE n [description]` (C15 unit)",
                      "the surrounding line loop is not under this contract (option table: unit C19.read_gas_phase.defaults_and_option_table)", "locals n_user, opt, temp_gas_phase read by name"]
    return r


UNITS = [
    ("C19.setup_gas_phase.one_GAS_MOLES_unknown_holding_the_total_moles_of_the_gas_phase", unit_setup_gas_phase),
    ("C19.read_phases.T_c_P_c_Omega_stored_in_the_phase's_own_critical_constants", unit_read_phases_critical),
    ("C19.tidy_gas_phase.initial_moles_n_i=p_i*V/(R*T)_or_x_i*V/V_m_and_fixed_volume_pressure_is_sum_p_i", unit_tidy_gas_phase),
    ("C19.gas_readouts.reported_P_V_n_phi_are_the_model's_and_fixed_pressure_volume_follows_the_EOS", unit_gas_readouts),
    ("C19.BASIC.GAS_GAS_P_GAS_VM_PR_P_PR_PHI_report_the_model's_gas_phase", unit_basic_gas),
    ("C19.read_gas_phase.equilibrate_number_components_kept_and_phase_stored_under_its_number", unit_read_gas_phase_store),
]
