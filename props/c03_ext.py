"""C03, extension units (helper-written): when a gas phase / solid solution is in or out of the model, what the final convergence test accepts for
pure phases, solid-solution components and surfaces, the solid-solution equations, the unknowns set up per reactant, the equilibration of
exchangers / surfaces with their own solution, and sites proportional to a mineral.  Engine B (astvc)."""
from props.c01_ext_util import *
from vf.astvc import hdr

MODEL = "src/phreeqcpp/model.cpp"
PREP = "src/phreeqcpp/prep.cpp"
TIDY = "src/phreeqcpp/tidy.cpp"
MS = "src/phreeqcpp/mainsubs.cpp"
GS = "src/phreeqcpp/global_structures.h"

UNITS = []

from props import c03_ext_inout as _IO
UNITS += _IO.UNITS
from props import c03_ext_conv as _CV3
UNITS += _CV3.UNITS
from props import c03_ext_ss as _SS3
UNITS += _SS3.UNITS
from props import c03_ext_setup as _SU3
UNITS += _SU3.UNITS
from props import c03_ext_initial as _IN3
UNITS += _IN3.UNITS
from props import c03_ext_min as _MN3
UNITS += _MN3.UNITS

from props.c03_ext2 import UNITS as _U2; UNITS = UNITS + _U2
from props.c03_ext3 import UNITS as _U3; UNITS = UNITS + _U3
from props.c03_ext5 import UNITS as _U5; UNITS = UNITS + _U5
