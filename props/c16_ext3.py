"""C16 (extension 3): the search loops of the activity-coefficient functions.

 * token scans of gammas / gammas_pz / gammas_sit (`for (j = 1; s_x[i]->rxn_x.token[j].s != NULL; j++)`): an exchange species gets the aqueous model
   of ITS OWN exchanged ion (charge z and coefficient of the aqueous token of its reaction) or, in the specific-interaction databases, the sum of
   coef * log gamma over ALL its non-exchanger reactants - whatever the position of the exchanger token in the (name-sorted) token list.  So a scan
   that takes data from other tokens than the site token must visit every reactant: it starts at token 1 of the reaction of the species it
   writes, runs to the terminating NULL token in unit steps, and no path leaves it early; a scan that only looks for the site (CEC / surface
   sites) may stop, but only at a site token and after having stored the site moles.  The charge / coefficient handed to the aqueous model are 0
   before the scan of each species (nothing is carried over from the previous species).
 * the temperature search of the LLNL (B-dot) parameters in gammas: the loop leaves tc_x bracketed by two ADJACENT table entries
   (llnl_temp[ifirst] <= tc_x <= llnl_temp[ilast], ilast - ifirst <= 1, equal only when tc_x is the table temperature), which is what the
   interpolation unit C16.gammas.llnl_interpolation assumes."""
from props.common import *
from props.c01_ext_util import put, valid, proved, I, lives, sat, NULLP
from props.c16_ext import MODEL, ENUMS, error_stop, a_f_handler, enum_vals
from vf.core import FAILED, DISCHARGED, UNDECIDED
from vf.astvc import symex as SX

PITZ = "src/phreeqcpp/pitzer.cpp"
SITF = "src/phreeqcpp/sit.cpp"
FUNCS = (("gammas", MODEL, "Phreeqc::gammas"), ("gammas_pz", PITZ, "Phreeqc::gammas_pz"), ("gammas_sit", SITF, "Phreeqc::gammas_sit"))


def mkctx():
    c = ctx(functional=("Get_exchange_ptr", "Get_pitzer_exchange_gammas", "Get_surface_ptr", "Get_type"), enums_from="Phreeqc.h", enums=ENUMS, pure_all=False)
    c.handlers["Phreeqc::error_msg"] = error_stop
    c.handlers["Phreeqc::gammas_a_f"] = a_f_handler
    return c


def loops_of(fn):
    return [x for x in A.walk(fn) if x.get("kind") in ("ForStmt", "WhileStmt", "DoStmt")]


def cond_members(lp):
    if lp.get("kind") != "ForStmt":
        return set()
    return {y.get("name") for y in A.walk(lp["inner"][2]) if y.get("kind") == "MemberExpr"}


def induction_var(lp):
    inc = lp["inner"][3]
    for x in A.walk(inc):
        if x.get("kind") == "DeclRefExpr" and x.get("referencedDecl", {}).get("kind") == "VarDecl":
            return x["referencedDecl"]["name"]
    raise Undecided("induction variable of a scan not found")


def unit_step(rel, lp, var):
    t = text_of(rel, lp["inner"][3])
    return t in (var + "++", "++" + var, var + "+=1", var + "=" + var + "+1", var + "=1+" + var), t


def unit_scans(twin=False):
    r = U.new_unit("C16.token_scans.every_reactant_is_visited_and_only_a_found_site_token_ends_a_scan(gammas,gammas_pz,gammas_sit)", MODEL, "Phreeqc::gammas",
                   A.find_function(MODEL, "Phreeqc::gammas"))
    ev = enum_vals()
    EX, SURF = I(ev["EX"]), I(ev["SURF"])
    nscan = nvalue = nsite = ninit = 0
    r.head_exempt = {}
    for tag, rel, q in FUNCS:
        fn = A.find_function(rel, q)
        loops = loops_of(fn)
        scans = [k for k, lp in enumerate(loops) if {"rxn_x", "token"} <= cond_members(lp)]
        species = [k for k, lp in enumerate(loops) if "s_x" in cond_members(lp) and "token" not in cond_members(lp)]
        for o in scans:
            lp = loops[o]
            var = induction_var(lp)
            f, ex, its, info = U.run_loop_isolated(rel, q, o, ctx=mkctx())
            r.head_exempt[(q, o)] = "token 0 of rxn_x is the species itself; the reactants start at token 1 (stated as this unit's own range obligation)"
            label = "%s.scan%d" % (tag, o)
            states = lives(its, ("run", "cont", "brk", "ret", "throw"))
            if not states:
                put(r, label + ".reach", False, "no iteration path", kind="vacuity", undecided=True); continue
            nscan += 1
            v = tm.sym("iter_" + var, "I")
            # the species this scan works for: the object whose alk / lg / dg it writes
            objs = {ix[0] for s in states for k_, ix, val in U.iter_writes(s) if k_[0] == "f"}
            if len(objs) != 1:
                put(r, label + ".writes_fields_of_one_species_only", False, repr(objs)[:200], kind="frame"); continue
            sp = objs.pop()
            s0 = states[0]
            def tokaddr(s, jv):
                return tm.add(tm.select(entry_arr(ex, s, ("f", "#vdata", "P")), tm.app("fld:token", (tm.app("fld:rxn_x", (sp,), "P"),), "P")), jv)
            def toks(s, jv):
                return tm.select(entry_arr(ex, s, ("f", "s", "P")), tokaddr(s, jv))
            first = I(1) if not twin else I(0)
            check_loop_range(r, label + ".reads_the_reaction_of_the_species_it_writes_from_token_1_to_the_NULL_token", ex, None, info, its, var, first,
                             lambda jv: tm.not_(tm.eq(toks(s0, jv), NULLP)))
            ok, t = unit_step(rel, lp, var)
            put(r, label + ".advances_by_one_token", ok, t, kind="establishment")
            # what kind of scan: does any path take data from the tokens beyond storing the site moles?
            ids, _wm = ex.assigned_locals(lp)
            value_scan = False
            for s in states:
                for did, (nm, qq) in ids.items():
                    if nm == var:
                        continue
                    val = s.locals.get(did)
                    if not (isinstance(val, tm.T) and val.op == "sym" and val.args[0] == "iter_" + str(nm)):
                        value_scan = True
                for k_, ix, val in U.iter_writes(s):
                    if k_ != ("f", "alk", "R"):
                        value_scan = True
            early = [s for s in states if s.status in ("brk", "ret", "throw")]
            if value_scan:
                nvalue += 1
                put(r, label + ".takes_data_from_the_reactants:no_path_leaves_the_scan_before_the_NULL_token", not early,
                    "; ".join("%s under %r" % (s.status, s.pc[-1]) for s in early)[:300])
            else:
                nsite += 1
            for n_, s in enumerate(early):
                ts = toks(s, v)
                ty = tm.select(entry_arr(ex, s, ("f", "type", "I")), ts)
                aw = [(ix, val) for ix, val in writes(s, ("f", "alk", "R"))]
                mol = tm.select(entry_arr(ex, s, ("f", "moles", "R")), tm.select(entry_arr(ex, s, ("f", "unknown", "P")), tm.select(entry_arr(ex, s, ("f", "primary", "P")), ts)))
                ok = len(aw) == 1 and aw[0][0][0] is sp and aw[0][1] is mol and proved(list(s.pc), tm.or_(tm.eq(ty, EX), tm.eq(ty, SURF)))
                put(r, label + ".leaves_early_only_at_a_site_token_after_storing_its_moles#%d" % n_, ok, "%s %r" % (s.status, aw)[:300])
        # ---- results of a scan that reach log gamma start from 0 for every species
        for osp in species:
            inner = [o for o in scans if any(y is loops[o] for y in A.walk(loops[osp]))]
            if not inner:
                continue
            f, ex, its, info = U.run_loop_isolated(rel, q, osp, ctx=mkctx())
            for o in inner:
                ids, _wm = ex.assigned_locals(loops[o])
                var = induction_var(loops[o])
                entries = info["inner_entries"].get(o, [])
                for did, (nm, qq) in ids.items():
                    if nm == var:
                        continue
                    used = False
                    for s in lives(its, ("run", "cont", "brk")):
                        sym_ = s.locals.get(did)
                        if isinstance(sym_, tm.T) and sym_.op == "sym" and sym_.args[0].startswith("havoc_"):
                            if any(sym_ in tm.subterms(val) for k_, ix, val in U.iter_writes(s)):
                                used = True
                    if not used:
                        continue
                    ninit += 1
                    vals = [e.locals.get(did) for e in entries]
                    ok = bool(vals) and all(isinstance(x, tm.T) and tm.isnum(x) and x.args[0] == (0 if not twin else 1) for x in vals)
                    put(r, "%s.scan%d.%s_that_reaches_log_gamma_is_0_before_the_scan_of_each_species" % (tag, o, nm), ok, repr(vals)[:200], kind="establishment")
    put(r, "reach.scans", nscan == 8 and nvalue == 3 and nsite == 5 and ninit >= 2, "scans %d value %d site %d results %d" % (nscan, nvalue, nsite, ninit), kind="vacuity", undecided=True)
    r.assumptions += ["statement contracts on the token scans (each executed for an arbitrary species and token on an arbitrary state) and on the species loops around them "
                      "(scan replaced by its frame); what an iteration stores for which token type is under the units C16.gammas.exchange_species..., C16.gammas.surface..., "
                      "C16.gammas_pz / gammas_sit.aqueous_gammas_left_to_the_model...",
                      "the token list of rxn_x ends with a token whose species pointer is NULL; token 0 is the species itself",
                      "a reaction has one aqueous ion besides H+ (the scan keeps the LAST aqueous token): which token is the exchanged ion when there are several is not decided here"]
    return r


# ------------------------------------------------------------------------------------------------ LLNL temperature search
def unit_llnl_search(twin=False):
    q = "Phreeqc::gammas"
    fn = A.find_function(MODEL, q)
    r = U.new_unit("C16.gammas.llnl_temperature_search_brackets_tc_x_between_adjacent_table_entries", MODEL, q, fn)
    loops = loops_of(fn)
    cand = [k for k, lp in enumerate(loops) if "llnl_temp" in cond_members(lp)]
    if len(cand) != 1:
        raise Undecided("temperature search loop not found (%d)" % len(cand))
    o = cand[0]
    lp = loops[o]
    var = induction_var(lp)
    # ---- the locals that hold the bracket: the two integer locals the loop assigns besides its induction variable
    c = mkctx()
    f, ex, its, info = U.run_loop_isolated(MODEL, q, o, ctx=c)
    ids, _wm = ex.assigned_locals(lp)
    others = [(did, nm) for did, (nm, qq) in ids.items() if nm != var]
    if len(others) != 2:
        raise Undecided("the search loop assigns %d locals besides its index" % len(others))
    i_ = tm.sym("iter_" + var, "I")
    states = lives(its, ("run", "cont", "brk"))
    def T(s, k):
        d = tm.select(entry_arr(ex, s, ("f", "#vdata", "P")), tm.app("fld:llnl_temp", (THIS,), "P"))
        return tm.select(entry_arr(ex, s, ("m", "R")), d, k)
    def tc(s):
        return tm.select(entry_arr(ex, s, ("f", "tc_x", "R")), THIS)
    def n_(s):
        return tm.select(entry_arr(ex, s, ("f", "#vsize", "I")), tm.app("fld:llnl_temp", (THIS,), "P"))
    # which of the two is the lower / upper index: the one assigned on a path that breaks is the upper one
    brk = [s for s in states if s.status == "brk"]
    if not brk:
        put(r, "search.stops_at_the_first_table_temperature_not_below_tc_x", False, "no path leaves the loop"); return r
    hi = [did for did, nm in others if all(s.locals.get(did) is i_ for s in brk)]
    if len(hi) != 1:
        put(r, "search.upper_index_is_the_index_at_which_the_loop_stops", False, repr([(nm, [repr(s.locals.get(did)) for s in brk]) for did, nm in others])[:300]); return r
    hi = hi[0]
    lo = [did for did, nm in others if did != hi][0]
    lo0 = tm.sym("iter_" + dict(others)[lo], "I")
    one, zero = I(1), I(0)
    def J(s, i, lov):
        """invariant at the head of pass i: every earlier entry is below tc_x and the lower index is the last of them (0 before the first pass)"""
        return tm.or_(tm.and_(tm.eq(i, zero), tm.eq(lov, zero)), tm.and_(tm.lt(zero, i), tm.eq(lov, tm.sub(i, one)), tm.lt(T(s, tm.sub(i, one)), tc(s))))
    # ---- establishment: the statements before the loop (inside the `table present` branch) set lower = 0 and stop unless T[0] <= tc_x <= T[n-1]
    parent = next(x for x in A.walk(fn) if x.get("kind") == "CompoundStmt" and any(y is lp for y in x.get("inner", [])))
    pre = parent["inner"][:[k for k, y in enumerate(parent["inner"]) if y is lp][0] + 1]
    entries = []
    c2 = mkctx()
    def rec(ex_, st, nd, o_):
        if nd is lp:
            entries.append(st.clone())
        return ex_.havoc_loop(nd, st)
    c2.loop = rec
    f2, ex2, fin2, info2 = region(MODEL, q, pre, c2)
    ent = [e for e in entries if e.status == "run" and sat(list(e.pc))]
    put(r, "reach.loop_entry", bool(ent), "%d" % len(ent), kind="vacuity", undecided=True)
    for k, e in enumerate(ent):
        hy = list(e.pc)
        sz = tm.select(ex2.heap_arr(e, ("f", "#vsize", "I")), tm.app("fld:llnl_temp", (THIS,), "P"))
        d = tm.select(ex2.heap_arr(e, ("f", "#vdata", "P")), tm.app("fld:llnl_temp", (THIS,), "P"))
        t0 = tm.select(ex2.heap_arr(e, ("m", "R")), d, zero)
        tn = tm.select(ex2.heap_arr(e, ("m", "R")), d, tm.sub(sz, one))
        tcx = tm.select(ex2.heap_arr(e, ("f", "tc_x", "R")), THIS)
        valid(r, "entry.lower_index_starts_at_0#%d" % k, hy, tm.eq(e.locals.get(lo), zero), kind="establishment")
        valid(r, "entry.only_with_tc_x_inside_the_table_range(T[0]<=tc_x<=T[n-1])#%d" % k, hy + [tm.lt(zero, sz)], tm.and_(tm.le(t0, tcx), tm.le(tcx, tn)), kind="establishment")
    # ---- the range of the loop
    check_loop_range(r, "search", ex, None, info, its, var, zero, lambda jv: tm.lt(jv, n_(states[0])))
    ok, t = unit_step(MODEL, lp, var)
    put(r, "search.advances_by_one_entry", ok, t, kind="establishment")
    # ---- preservation and the bracket at the break
    nb = nr = 0
    for s in states:
        inside = [tm.le(zero, i_), tm.lt(i_, n_(s)), tm.le(T(s, zero), tc(s))]
        hy = list(s.pc) + inside + [J(s, i_, lo0)]
        if not sat(hy):
            continue
        lov, hiv = s.locals.get(lo), s.locals.get(hi)
        if s.status == "brk":
            nb += 1
            upper = tm.le(tc(s), T(s, hiv)) if not twin else tm.lt(tc(s), T(s, hiv))
            valid(r, "stop.tc_x_is_bracketed:T[lower]<=tc_x<=T[upper]#%d" % nb, hy, tm.and_(tm.le(T(s, lov), tc(s)), upper))
            valid(r, "stop.bracket_entries_are_adjacent_or_equal#%d" % nb, hy, tm.or_(tm.eq(hiv, lov), tm.eq(hiv, tm.add(lov, one))))
            valid(r, "stop.equal_indices_only_at_a_table_temperature#%d" % nb, hy, tm.implies(tm.eq(hiv, lov), tm.eq(tc(s), T(s, lov))))
            valid(r, "stop.distinct_indices_have_distinct_temperatures(no_division_by_zero_in_f)#%d" % nb, hy, tm.implies(tm.not_(tm.eq(hiv, lov)), tm.lt(T(s, lov), T(s, hiv))))
        else:
            nr += 1
            valid(r, "pass.invariant_kept:entries_up_to_this_one_are_below_tc_x_and_lower_is_this_one#%d" % nr, hy, J(s, tm.add(i_, one), lov))
            valid(r, "pass.upper_index_untouched_before_the_stop#%d" % nr, hy, tm.eq(hiv, tm.sym("iter_" + dict(others)[hi], "I")), kind="frame")
        bad = [(k_, ix) for k_, ix, val in U.iter_writes(s)]
        put(r, "search.writes_no_memory#%d" % (nb + nr), not bad, repr(bad)[:200], kind="frame")
    put(r, "reach.search_paths", nb >= 1 and nr >= 1, "stop %d pass %d" % (nb, nr), kind="vacuity", undecided=True)
    # ---- the loop cannot run off the end of the table: invariant at i = n contradicts tc_x <= T[n-1]
    s = states[0]
    nn = n_(s)
    valid(r, "search.always_stops_inside_the_table(upper_index_is_assigned)", [tm.lt(zero, nn), J(s, nn, lo0), tm.le(tc(s), T(s, tm.sub(nn, one)))], tm.FALSE)
    r.assumptions += ["inductive invariant of the search loop: before pass i every table entry k < i is below tc_x and the lower index is i-1 (0 before the first pass); "
                      "establishment is read from the statements before the loop (executed from an arbitrary state), error_msg(STOP) throws",
                      "the interpolation itself: unit C16.gammas.llnl_interpolation; doubles as reals; the vector model of llnl_temp (size, data) is the STL model of the engine"]
    return r


UNITS = [
    ("C16.token_scans.every_reactant_is_visited_and_only_a_found_site_token_ends_a_scan(gammas,gammas_pz,gammas_sit)", unit_scans),
    ("C16.gammas.llnl_temperature_search_brackets_tc_x_between_adjacent_table_entries", unit_llnl_search),
]
