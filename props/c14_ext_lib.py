"""Shared helpers of the C14 / C10 / C04 extension units (props/c14_ext.py, c10_ext.py, c04_ext.py): the table of reactant kinds
with the names each layer of the code uses for them, thin wrappers around the symbolic executor, and a loop-header reader.
Nothing here is a unit."""
from props.common import *
from vf.core import FAILED, DISCHARGED, UNDECIDED, Undecided

# kind -> names used by the different layers.  This table is SPECIFICATION (which store belongs to which keyword), written from the
# manual / class declarations, not derived from the function bodies under contract.
KINDS = [
    # kind            engine map                 class             storage-bin member / accessor suffix / collection getter     keyword stem
    dict(k="solution",      map="Rxn_solution_map",      cls="cxxSolution",      sbm="Solutions",     sb="Solution",      sbs="Get_Solutions",      key="SOLUTION"),
    dict(k="exchange",      map="Rxn_exchange_map",      cls="cxxExchange",      sbm="Exchangers",    sb="Exchange",      sbs="Get_Exchangers",     key="EXCHANGE"),
    dict(k="gas_phase",     map="Rxn_gas_phase_map",     cls="cxxGasPhase",      sbm="GasPhases",     sb="GasPhase",      sbs="Get_GasPhases",      key="GAS_PHASE"),
    dict(k="kinetics",      map="Rxn_kinetics_map",      cls="cxxKinetics",      sbm="Kinetics",      sb="Kinetics",      sbs="Get_Kinetics",       key="KINETICS"),
    dict(k="pp_assemblage", map="Rxn_pp_assemblage_map", cls="cxxPPassemblage",  sbm="PPassemblages", sb="PPassemblage",  sbs="Get_PPassemblages",  key="EQUILIBRIUM_PHASES"),
    dict(k="ss_assemblage", map="Rxn_ss_assemblage_map", cls="cxxSSassemblage",  sbm="SSassemblages", sb="SSassemblage",  sbs="Get_SSassemblages",  key="SOLID_SOLUTIONS"),
    dict(k="surface",       map="Rxn_surface_map",       cls="cxxSurface",       sbm="Surfaces",      sb="Surface",       sbs="Get_Surfaces",       key="SURFACE"),
    dict(k="mix",           map="Rxn_mix_map",           cls="cxxMix",           sbm="Mixes",         sb="Mix",           sbs="Get_Mixes",          key="MIX"),
    dict(k="reaction",      map="Rxn_reaction_map",      cls="cxxReaction",      sbm="Reactions",     sb="Reaction",      sbs="Get_Reactions",      key="REACTION"),
    dict(k="temperature",   map="Rxn_temperature_map",   cls="cxxTemperature",   sbm="Temperatures",  sb="Temperature",   sbs="Get_Temperatures",   key="REACTION_TEMPERATURE"),
    dict(k="pressure",      map="Rxn_pressure_map",      cls="cxxPressure",      sbm="Pressures",     sb="Pressure",      sbs="Get_Pressures",      key="REACTION_PRESSURE"),
]
KIND = {d["k"]: d for d in KINDS}
ALL = [d["k"] for d in KINDS]
# option words of DELETE / DUMP / RUN_CELLS blocks -> kind (manual: DELETE, DUMP identifiers)
WORD2KIND = {"solution": "solution", "solutions": "solution", "pp_assemblage": "pp_assemblage", "pp_assemblages": "pp_assemblage",
             "equilibrium_phase": "pp_assemblage", "equilibrium_phases": "pp_assemblage", "exchange": "exchange", "surface": "surface",
             "ss_assemblage": "ss_assemblage", "solid_solution": "ss_assemblage", "solid_solutions": "ss_assemblage",
             "gas_phase": "gas_phase", "gas_phases": "gas_phase", "kinetics": "kinetics", "mix": "mix", "reaction": "reaction", "reactions": "reaction",
             "temperature": "temperature", "reaction_temperature": "temperature", "reaction_temperatures": "temperature",
             "pressure": "pressure", "reaction_pressure": "pressure", "reaction_pressures": "pressure"}


def fmap(name, obj=THIS):
    """address of the std::map member `name` of *obj"""
    return tm.app("fld:" + name, (obj,), "P")


def proved(hyps, goal):
    if goal is tm.TRUE:
        return True
    return B.z3_prove(list(hyps), goal)[0] == "proved"


def refuted(hyps, goal):
    return B.z3_prove(list(hyps), goal)[0] == "refuted"


def sat(hyps):
    return B.z3_sat(list(hyps)) != "unsat"


def ok(r, name, cond, backend="trace", detail="", kind="post", undecided=False):
    r.add(name, DISCHARGED if cond else (UNDECIDED if undecided else FAILED), backend, 0, str(detail)[:400], kind=kind)
    return bool(cond)


def sh(e):
    return e.name.split("::")[-1]


def calls(evs, *shorts):
    return [e for e in evs if sh(e) in shorts]


def has_sub(t, sub):
    return isinstance(t, tm.T) and (t is sub or sub in tm.subterms(t))


class STL2(STLM.STL):
    """STL model plus: ++ on a map / set iterator held in a local moves it to inext(it) (recorded as an event); map::insert of a
    value_type object that is not a literal pair is an opaque event"""
    def map_insert(self, ex, st, n, name, recv, args):
        p = args[0] if args else None
        if isinstance(p, tm.T) and p.op == "app" and p.args[0] == "pair":
            return STLM.STL.map_insert(self, ex, st, n, name, recv, args)
        st.events.append(SX.Event("map.insert_object", recv, list(args), tm.num(0, "I"), n))
        return [(st, tm.num(0, "I"))]

    def operator_handler(self, objt, opname):
        if opname in ("operator++", "operator--") and ("_Rb_tree_iterator" in objt or "_Rb_tree_const_iterator" in objt or "::iterator" in objt or "_List_iterator" in objt):
            def h(ex, st, n, name, arg_nodes):
                out = []
                for s, l in ex.lv(arg_nodes[0], st):
                    old = ex.load(s, l, "P")
                    new = tm.app("inext" if opname == "operator++" else "iprev", (old,), "P")
                    ex.store(s, l, new, "P")
                    s.events.append(SX.Event("iter." + opname, None, [old], new, n))
                    out.append((s, old if len(arg_nodes) == 2 else new))
                return out
            return h
        if "_List_iterator" in objt or "_List_const_iterator" in objt:
            if opname in ("operator->", "operator*"):
                return self.iter_arrow
            if opname == "operator==":
                return lambda ex, st, n, name, an: self.iter_eq(ex, st, n, name, an, False)
            if opname == "operator!=":
                return lambda ex, st, n, name, an: self.iter_eq(ex, st, n, name, an, True)
            if opname == "operator=":
                return self.iter_assign
        return STLM.STL.operator_handler(self, objt, opname)


def mk_ctx(functional=(), handlers=None, loop=None, log_stores=False, enums=None, pure_all=True, not_pure=(), records=()):
    c = ctx(functional=functional, pure_all=pure_all)
    c.record_types.update(records)
    c.enum_types.update(("std::_Ios_Openmode", "std::ios_base::openmode", "std::_Ios_Iostate", "std::_Ios_Fmtflags"))
    c.stl = STL2(SX); c.stl.check_bounds = False
    if not_pure:
        class _P(set):
            def __contains__(self, x): return x not in not_pure and x.split("::")[-1] not in not_pure
        c.pure = _P()
    if handlers:
        c.handlers.update(handlers)
    c.log_stores = log_stores
    if enums:
        c.enum_values.update(enums)
    c.loop = loop if loop is not None else (lambda ex, st, n, o: ex.havoc_loop(n, st))
    return c


def find_bulk(rel, filt, qualname, nparams=None, type_contains=None):
    """like A.find_function, but from ONE clang dump filtered by `filt` (a substring of the qualified names wanted), so that a
    family of small functions of a class costs one compiler run instead of one per function"""
    short = qualname.split("::")[-1]
    cands = {}
    def visit(d):
        k = d.get("kind")
        if k in ("FunctionDecl", "CXXMethodDecl", "CXXConstructorDecl", "CXXDestructorDecl") and d.get("name") == short and A._has_body(d):
            cands[d.get("id")] = d
        elif k in ("FunctionTemplateDecl", "ClassTemplateSpecializationDecl", "CXXRecordDecl", "NamespaceDecl", "LinkageSpecDecl", "TranslationUnitDecl"):
            for c in d.get("inner", []):
                visit(c)
    for d in A.dump(rel, filt):
        visit(d)
    cs = list(cands.values())
    if nparams is not None:
        cs = [d for d in cs if len([c for c in d.get("inner", []) if c.get("kind") == "ParmVarDecl"]) == nparams]
    if type_contains is not None:
        cs = [d for d in cs if type_contains in d.get("type", {}).get("qualType", "")]
    if len(cs) != 1:
        raise Undecided("function %s: %d definitions in the dump of %s filtered by %s" % (qualname, len(cs), rel, filt))
    return cs[0]


class ExecStatic(SX.Exec):
    """function-local static objects are objects at a fixed address &static_<name> (their initialisers are not executed)"""
    def decl_var(self, d, st):
        if d.get("storageClass") == "static":
            st.locals[d["id"]] = ("obj", tm.sym("&static_" + d.get("name", "_"), "P"))
            return [st]
        return SX.Exec.decl_var(self, d, st)


def run(rel, q, c=None, kw=None, params=None, pre=None, bulk=None):
    kw = dict(kw or {})
    fn = find_bulk(rel, bulk, q, **kw) if bulk else A.find_function(rel, q, **kw)
    c = c or mk_ctx()
    ex = ExecStatic(c)
    st = SX.State()
    if pre:
        st.pc = list(pre)
    fin = ex.run(fn, st, params=params)
    return fn, ex, [s for s in fin if s.status in ("run", "ret") and sat(s.pc)]


def names_of(fn):
    names = {}
    for x in A.walk(fn):
        if x.get("kind") in ("VarDecl", "ParmVarDecl") and "name" in x:
            names.setdefault(x["name"], x["id"])
    return names


def loops_of(fn):
    return [x for x in A.walk(fn) if x.get("kind") in ("ForStmt", "WhileStmt", "DoStmt")]


def ordinal_of(fn, node):
    for k, x in enumerate(loops_of(fn)):
        if x is node:
            return k
    raise Undecided("loop node not in function")


def loop_var(ex, node):
    """the local the loop header steps: declared in the for-init, or assigned there, or the one the increment touches"""
    init, cond, inc, body = ex.loop_parts(node)
    for part in (init, inc, cond):
        if part is None:
            continue
        for x in A.walk(part):
            if x.get("kind") == "VarDecl" and "id" in x:
                return x["id"], x.get("name")
        for x in A.walk(part):
            if x.get("kind") == "DeclRefExpr" and x.get("referencedDecl", {}).get("kind") in ("VarDecl", "ParmVarDecl"):
                return x["referencedDecl"]["id"], x["referencedDecl"].get("name")
    raise Undecided("loop without an induction variable")


def loop_head(ex, node, st, sort="I"):
    """(first value of the induction variable, condition as a term over the symbol K, value after the increment as a term over K,
    events of evaluating the header parts).  The header is evaluated on clones of `st` (state in which the loop is reached)."""
    init, cond, inc, body = ex.loop_parts(node)
    did, name = loop_var(ex, node)
    s0 = st.clone()
    n0 = len(s0.events)
    first = None
    if init is not None:
        ss = ex.exec(init, [s0])
        if len(ss) != 1:
            raise Undecided("loop init splits the path")
        s0 = ss[0]
        first = s0.locals.get(did)
    else:
        first = s0.locals.get(did)
    init_events = s0.events[n0:]
    K = tm.sym("K_" + str(name), sort)
    s1 = st.clone()
    s1.locals[did] = K
    n1 = len(s1.events)
    c = None
    cond_events = []
    if cond is not None:
        rs = ex.ev(cond, s1)
        if len(rs) != 1:
            raise Undecided("loop condition splits the path")
        s1, c = rs[0]
        c = tm.to_bool(c)
        cond_events = s1.events[n1:]
    s2 = st.clone()
    s2.locals[did] = K
    n2 = len(s2.events)
    nxt = None
    inc_events = []
    if inc is not None:
        rs = ex.ev(inc, s2)
        if len(rs) != 1:
            raise Undecided("loop increment splits the path")
        s2 = rs[0][0]
        nxt = s2.locals.get(did)
        inc_events = s2.events[n2:]
    return dict(first=first, cond=c, next=nxt, K=K, name=name, did=did, init_events=init_events, cond_events=cond_events, inc_events=inc_events)


def arb_state(ex, fn, c):
    """an arbitrary state in which every local of fn is a free symbol (as U.run_region builds it)"""
    from vf.astvc.symex import is_record_type, sort_of
    ex.local_ids = set(); ex.addr_taken = set(); ex.loop_ids = {}
    st = SX.State()
    for x in A.walk(fn):
        k = x.get("kind")
        if k in ("ForStmt", "WhileStmt", "DoStmt"):
            ex.loop_ids[x.get("id")] = len(ex.loop_ids)
        if k == "UnaryOperator" and x.get("opcode") == "&":
            cc = x["inner"][0]
            while cc.get("kind") == "ParenExpr":
                cc = cc["inner"][0]
            if cc.get("kind") == "DeclRefExpr" and cc["referencedDecl"].get("kind") in ("VarDecl", "ParmVarDecl"):
                ex.addr_taken.add(cc["referencedDecl"]["id"])
    for x in A.walk(fn):
        if x.get("kind") in ("VarDecl", "ParmVarDecl") and "id" in x:
            ex.local_ids.add(x["id"])
            nm = x.get("name", "_")
            q = x["type"].get("desugaredQualType") or x["type"]["qualType"]
            if q.strip().endswith("&"):
                st.locals[x["id"]] = ("ref", ("elem", tm.sym("L_%s_ref" % nm, "P"), tm.num(0, "I")))
            elif is_record_type(q, c) or q.strip().endswith("]") or x["id"] in ex.addr_taken:
                st.locals[x["id"]] = ("obj", tm.sym("&L_%s" % nm, "P"))
            else:
                st.locals[x["id"]] = tm.sym("L_%s" % nm, sort_of(q))
    return st


def exec_nodes(rel, q, nodes, c=None, kw=None):
    """execute AST nodes (statements of function q) from an arbitrary state; returns fn, ex, live states, names"""
    fn = A.find_function(rel, q, **(kw or {}))
    c = c or mk_ctx()
    ex = SX.Exec(c)
    st = arb_state(ex, fn, c)
    states = [st]
    for n in nodes:
        states = ex.exec(n, states)
    return fn, ex, [s for s in states if s.status != "dead" and sat(s.pc)], names_of(fn)


def member_name(t):
    """'X' for the term fld:X(this) (address of member X of *this); also through one functional getter Get_X(this)"""
    if isinstance(t, tm.T) and t.op == "app" and isinstance(t.args[0], str) and t.args[0].startswith("fld:"):
        return t.args[0][4:]
    return None


def case_labels(sw, rel):
    """[(label text list, first statement node index)] of a switch: returns list of (set of label names/ints, [stmts until break])"""
    body = sw["inner"][-1]
    out = []
    cur_labels, cur = [], None
    def flat(node, labels):
        k = node.get("kind")
        if k == "CaseStmt":
            return flat(node["inner"][-1], labels + [text_of(rel, node["inner"][0])])
        if k == "DefaultStmt":
            return flat(node["inner"][-1], labels + ["default"])
        return labels, node
    groups = []
    for c in body.get("inner", []):
        labels, node = flat(c, [])
        if labels:
            groups.append([labels, [node]])
        elif groups:
            groups[-1][1].append(node)
    return groups


def walks_whole_set(h, SET, hyps=()):
    """loop header facts h (from loop_head) say: the iterator starts at SET.begin(), continues while != SET.end(), advances by one"""
    b = tm.app("call:begin", (SET,), "P")
    ends = (tm.app("call:end", (SET,), "P"), tm.app("mend", (SET,), "P"))
    return (h["first"] is b, h["cond"] is not None and any(proved(hyps, tm.eq(h["cond"], tm.not_(tm.eq(h["K"], e)))) for e in ends), h["next"] is tm.app("inext", (h["K"],), "P"))


def deref_iter(it, sort="I"):
    """*it for a set<int> iterator term"""
    return tm.select(tm.sym("H0.mem:%s" % sort, ("A", "P", "I", sort)), tm.app("mnode", (it,), "P"), tm.num(0, "I"))


class LoopStash(object):
    """ctx.loop callback: iteration contract of every loop reached (entry state kept), then the loop is havocked"""
    def __init__(self):
        self.entry = []      # (node, entry state)
        self.iters = {}      # id(node) -> [end-of-body states]
        self.runs = []       # (node, entry state, live end-of-body states of the iteration contract run from that entry)
    def __call__(self, ex, st, n, o):
        e0 = st.clone()
        self.entry.append((n, e0))
        its = ex.iterate_loop(n, st.clone())
        self.iters.setdefault(id(n), []).extend(its)
        self.runs.append((n, e0, [s for s in its if s.status in ("run", "cont", "brk") and sat(s.pc)]))
        res = ex.havoc_loop(n, st)
        for s in res:
            s.events.append(SX.Event("loop_passed", None, [tm.num(o, "I")], tm.num(0, "I"), n))
        return res
    @staticmethod
    def passed(s):
        return [e.node for e in s.events if e.name == "loop_passed"]
    def iter_states(self, n):
        return [s for s in self.iters.get(id(n), []) if s.status in ("run", "cont", "brk") and sat(s.pc)]


def sscanf_handler(ex, st, n, name, recv, args):
    """sscanf(buf, fmt, &a, &b, ...): every pointee becomes arbitrary; the result (number of items converted) is arbitrary"""
    for p in args[2:]:
        if isinstance(p, tm.T) and p.sort == "P":
            ex.store(st, ex.deref(st, p), SX.fresh("scanned", "I"), "I")
    res = SX.fresh("ret_sscanf", "I")
    st.events.append(SX.Event(name, recv, args, res, n))
    return [(st, res)]


def field_writes(s, obj=None):
    """{field name: last value written} for scalar fields written during the region (optionally only on object obj)"""
    out = {}
    for k in s.heap:
        if k[0] != "f":
            continue
        for ix, v in writes(s, k):
            if obj is None or ix[0] is obj:
                out[k[1]] = v
    return out


def local_int(name):
    """value of an address-taken int local `name` in the entry state of a region"""
    return tm.select(tm.sym("H0.mem:I", ("A", "P", "I", "I")), tm.sym("&L_" + name, "P"), tm.num(0, "I"))


def use_handlers(extra=()):
    """cxxUse setters / getters as fields of the receiver: Set_X(v) stores v in the ghost field '#use.X', Get_X() reads it
    (the accessors in Use.h are one-liners on the member of the same name)"""
    h = {}
    def mk_set(field, sort):
        def f(ex, st, n, name, recv, args):
            ex.store(st, ("field", field, recv), ex.coerce(args[0], sort), sort)
            st.events.append(SX.Event(name, recv, args, tm.num(0, "I"), n))
            return [(st, tm.num(0, "I"))]
        return f
    def mk_get(field, sort):
        def f(ex, st, n, name, recv, args):
            return [(st, ex.load(st, ("field", field, recv), sort))]
        return f
    for k in ALL:
        for nm, sort in (("%s_ptr" % k, "P"), ("%s_in" % k, "B"), ("n_%s_user" % k, "I")):
            h["cxxUse::Set_" + nm] = mk_set("#use." + nm, sort)
            h["cxxUse::Get_" + nm] = mk_get("#use." + nm, sort)
    for nm, sort in tuple(extra) + (("n_mix_user_orig", "I"),):
        h["cxxUse::Set_" + nm] = mk_set("#use." + nm, sort)
        h["cxxUse::Get_" + nm] = mk_get("#use." + nm, sort)
    return h


def fin_field(ex, s, name, sort, obj):
    return tm.select(ex.heap_arr(s, ("f", name, sort)), obj)
