"""C07: plain record members of class Phreeqc (struct prints pr, struct save save, ...) field by field: after the unload sequence
(clean_up; init; initialize) every scalar field of the record holds a value that does not depend on the state before the load.
C07.reset.Phreeqc_members credits a record as reset when SOME field of it is written; this unit closes that gap for the records
whose fields are set by keyword readers (PRINT, SAVE/USE bookkeeping, KNOBS-like switches)."""
from props.common import *
from vf.core import FAILED, DISCHARGED, UNDECIDED
from props import C07 as C7
from vf.astvc import symex as SX

RECORDS = [("pr", "prints"), ("save", "save"), ("stag_data", "stag_data")]      # (member of Phreeqc, struct name in global_structures.h)


def unit_record_fields(twin=False):
    states, skipped, shas, calls = C7.run_sequence()
    fn0 = A.find_function("src/phreeqcpp/Phreeqc.cpp", "Phreeqc::init")
    r = U.new_unit("C07.reset.record_members_field_by_field", "src/phreeqcpp/Phreeqc.cpp", "Phreeqc::clean_up; init; initialize", fn0, kind="structural")
    n = 0
    for member, struct in RECORDS:
        try:
            fields = A.class_fields("global_structures.h", struct)
        except Exception as e:
            raise Undecided("struct %s not found: %s" % (struct, e))
        base = tm.app("fld:" + member, (THIS,), "P")
        for fname, typ in fields:
            if not C7.is_scalar_type(typ):
                continue
            n += 1
            bad = None
            for pi, s in enumerate(states):
                vals = [tm.select(s.heap[k], base) for k in s.heap if k[0] == "f" and k[1] == fname and len(k) > 2 and k[2] == SX.sort_of(typ)]
                vals = [v for v in vals if not (v.op == "select" and v.args[0].op == "sym")]
                if not vals:
                    bad = "never assigned in the unload sequence (path %d of %d)" % (pi, len(states)); break
                deps = C7.pre_state_syms(vals[0])
                if deps:
                    bad = "assigned a value that depends on the state before the load: %s" % ", ".join(deps[:3]); break
            if twin and fname == fields[0][0]:
                bad = bad or "twin: demands a second reset"
            r.add("member.%s.%s.reset_to_pre-state-independent_value" % (member, fname), FAILED if bad else DISCHARGED, "term-inspection", 0, ("%s : %s" % (typ, bad)) if bad else typ, kind="reset")
    r.add("reach.fields", DISCHARGED if n >= 10 else UNDECIDED, "ast-scan", 0, str(n), kind="vacuity")
    r.assumptions += ["the unload sequence is the one of C07.reset.Phreeqc_members (calls other than the inlined callees are credited with nothing)",
                      "records checked field by field: %s" % ", ".join("%s (struct %s)" % x for x in RECORDS)]
    return r
