"""Helpers shared by the *_ext.py modules of C05 / C08 / C09 / C13: whole-function symbolic execution with function-local
`static const` arrays treated as constants, event and write inspection, case decisions by z3."""
from props.common import *
from vf.core import FAILED, DISCHARGED, UNDECIDED, Undecided

IPQ = "src/IPhreeqc.cpp"
LIB = "src/IPhreeqcLib.cpp"
FIF = "src/IPhreeqc_interface_F.cpp"
PIO = "src/phreeqcpp/common/PHRQ_io.cpp"
PIOO = "src/phreeqcpp/PHRQ_io_output.cpp"
NULLP = tm.num(0, "P")


class StaticOK(SX.Exec):
    """function-local `static const` arrays / pointers (message literals) are constants, not state"""
    def decl_var(self, d, st):
        if d.get("storageClass") == "static" and "const" in d["type"]["qualType"]:
            st.locals[d["id"]] = ("obj", tm.sym("&static." + d.get("name", "_"), "P"))
            return [st]
        return SX.Exec.decl_var(self, d, st)


def run(rel, q, c=None, modes=None, default="havoc", find_kw=None, fn=None):
    """U.run_function with the StaticOK executor.  Returns (fn, ex, finals, info)."""
    fn = fn or A.find_function(rel, q, **(find_kw or {}))
    c = c or ctx()
    modes = modes or {}
    info = {"iter": {}, "entry": {}}
    def loop(ex, st, node, ordinal):
        mode = modes.get(ordinal, default)
        info["entry"].setdefault(ordinal, []).append(st.clone())
        if mode == "iter":
            U._register_head(rel, q, node, ordinal)     # the driver then demands that the loop head is a full traversal
            res = ex.iterate_loop(node, st.clone())
            info["iter"].setdefault(ordinal, []).extend(res)
            return ex.havoc_loop(node, st)
        if mode == "unroll":
            return ex.unroll(node, st)
        if mode == "skip":
            return [st]
        return ex.havoc_loop(node, st)
    c.loop = loop
    ex = StaticOK(c)
    finals = ex.run(fn, SX.State())
    names = {}
    for x in A.walk(fn):
        if x.get("kind") in ("VarDecl", "ParmVarDecl") and "name" in x:
            names.setdefault(x["name"], x["id"])
    info["names"] = names
    return fn, ex, finals, info


def alive(fin, statuses=("run", "ret", "throw")):
    return [s for s in fin if s.status in statuses and B.z3_sat(list(s.pc)) != "unsat"]


def proved(hyps, goal):
    return B.z3_prove(list(hyps), goal)[0] == "proved"


def short(e):
    return e.name.split("::")[-1] if not isinstance(e, tuple) else e[0]


def evs(s, *names):
    """events of state s whose short name is one of names (all non-tuple events when no name is given)"""
    return [e for e in s.events if not isinstance(e, tuple) and (not names or short(e) in names)]


def is_idx(e):
    return not isinstance(e, tuple) and e.name.endswith("operator[]")


def all_writes(s):
    """[(key, index tuple, value)] of every heap store on the path, oldest first per component"""
    return [(k, ix, v) for k in s.heap for ix, v in writes(s, k)]


def param(i, name, sort):
    return tm.sym("P%d_%s" % (i, name), sort)


def field_of_recv(t):
    """'X' when t is the address term fld:X(obj) of a record member, else None"""
    if getattr(t, "op", None) == "app" and isinstance(t.args[0], str) and t.args[0].startswith("fld:"):
        return t.args[0][4:]
    r = repr(t)
    if r.startswith("fld:") and "(" in r:
        return r[4:r.index("(")]
    return None


def strlit(t):
    """python text of a string-literal term, or None"""
    if getattr(t, "op", None) == "str":
        return t.args[0].strip('"')
    return None


def ok(r, name, cond, detail="", kind="post", backend="symex"):
    r.add(name, DISCHARGED if cond else FAILED, backend, 0, detail if not cond or len(detail) < 120 else detail[:120], kind=kind)
    return cond


def reach(r, name, cond, detail=""):
    r.add(name, DISCHARGED if cond else UNDECIDED, "symex", 0, detail, kind="vacuity")


def stores(s, obj=None, field=None):
    """[(event, field name or index term, value)] of logged stores (ctx.log_stores) to members of obj / to the member `field`"""
    out = []
    for e in s.events:
        if isinstance(e, tuple) or e.name != "store":
            continue
        f = e.args[0]
        fn_ = strlit(f) if getattr(f, "op", None) == "str" else f
        if obj is not None and e.recv is not obj:
            continue
        if field is not None and fn_ != field:
            continue
        out.append((e, fn_, e.args[1]))
    return out


def loop_runs_exactly_while(r, name, iteration_states, want):
    """the loop condition, recovered as the disjunction of the path conditions of ALL paths through one iteration (the body's case
    splits are exhaustive), is equivalent to `want`: a changed bound or an extra stop condition yields a counterexample"""
    allp = [x for x in iteration_states if B.z3_sat(list(x.pc)) != "unsat"]
    if not allp:
        r.add(name, UNDECIDED, "symex", 0, "no iteration path", kind="establishment"); return
    U.discharge_valid(r, name, [], tm.eq(tm.or_(*[tm.and_(*x.pc) for x in allp]), want), kind="establishment")
