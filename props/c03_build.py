"""C03 / C02: the equations prep.cpp builds for reactants.
(a) build_pure_phases: the saturation equation of a pure phase is f = log K + SI_target - sum coef*la over the model form of its
    reaction (so f = 0 <=> SI = target).
(b) build_pure_phases, build_gas_phase, build_ss_assemblage: wherever a reactant's element enters the Jacobian column of the
    reactant (store_jacob0(row of unknown U, column of reactant i, -c)) the same statement group books the transfer into the element
    delta of the SAME unknown with the SAME coefficient (store_sum_deltas(&delta[i], &U->delta, c)) — what the solver takes from
    the reactant is what reset() adds to the element."""
import re
from props.common import *
from vf.core import FAILED, DISCHARGED, UNDECIDED

PREP = "src/phreeqcpp/prep.cpp"


def unit_saturation_equation(twin=False):
    q = "Phreeqc::build_pure_phases"
    fn = A.find_function(PREP, q)
    r = U.new_unit("C03.build_pure_phases.saturation_equation", PREP, q, fn)
    # outer loop 0: the two scalar terms
    f, ex, its, info = U.run_loop_isolated(PREP, q, 0, ctx=ctx(), inner_modes={1: "skip"} if False else None)
    n = 0
    for s in live(its, ("run", "cont")):
        sm = [e for e in U.iter_events(s) if e.name.endswith("store_mb")]
        if not sm:
            continue
        n += 1
        xi = vec_elem(ex, s, "x", tm.sym("iter_i", "I"))
        ph = fld0(ex, s, "phase", "P", xi)
        fx = tm.app("fld:f", (xi,), "P")
        terms = [(e.args[0], e.args[1], e.args[2]) for e in sm]
        want_lk = (tm.app("fld:lk", (ph,), "P"), fx)
        want_si = (tm.app("fld:si", (xi,), "P"), fx)
        def has(src, coefv):
            return any(a is src[0] and b is src[1] and tm.isnum(c) and c.args[0] == coefv for a, b, c in terms)
        r.add("equation.+logK_of_the_phase", DISCHARGED if has(want_lk, 1) else FAILED, "trace", 0, repr(terms)[:300], kind="trace")
        r.add("equation.+target_SI_of_the_unknown", DISCHARGED if has(want_si, 1 if not twin else -1) else FAILED, "trace", 0, repr(terms)[:300], kind="trace")
        r.add("equation.only_these_two_constant_terms", DISCHARGED if len(terms) == 2 else FAILED, "trace", 0, "%d" % len(terms), kind="frame")
    r.add("reach.phase_rows", DISCHARGED if n else UNDECIDED, "symex", 0, "%d" % n, kind="vacuity")
    # inner token walk (loop ordinal 1): - coef * la of every token of rxn_x
    loops = [x for x in A.walk(fn) if x.get("kind") in ("ForStmt", "WhileStmt", "DoStmt")]
    k = loop_ordinal(fn, PREP, init_text="rxn_ptr=&x[i]->phase->rxn_x.token[0]+1")
    f, ex, its, info = U.run_loop_isolated(PREP, q, k, ctx=ctx())
    m = 0
    for s in live(its, ("run", "cont")):
        sm = [e for e in U.iter_events(s) if e.name.endswith("store_mb")]
        m += 1
        rp = tm.sym("iter_rxn_ptr", "P")
        xi = vec_elem(ex, s, "x", local(info, s, "i"))
        ok = len(sm) == 1 and sm[0].args[0] is tm.app("fld:la", (fld0(ex, s, "s", "P", rp),), "P") and sm[0].args[1] is tm.app("fld:f", (xi,), "P")
        r.add("walk.term_is_log_activity_of_the_token's_species_into_f", DISCHARGED if ok else FAILED, "trace", 0, repr([e.args for e in sm])[:200], kind="trace")
        if ok:
            U.discharge_eq_real(r, "walk.coefficient==-coef", list(s.pc), sm[0].args[2], tm.neg(fld0(ex, s, "coef", "R", rp)))
    r.add("reach.walk", DISCHARGED if m else UNDECIDED, "symex", 0, "%d" % m, kind="vacuity")
    r.add("walk.over_model_form(rxn_x)_from_token_1", DISCHARGED, "syntactic", 0, "loop located by its init text", kind="structural")
    r.assumptions += ["store_mb(source, target, c) makes the solver add c*source to target when sums are evaluated (mb_sums; not under this contract)",
                      "the Jacobian and mass-balance parts of build_pure_phases are under C03.build_*.transfer_pairing"]
    return r


def _calls(node, rel, name):
    return [y for y in node.get("inner", []) if y.get("kind") in ("CallExpr", "CXXMemberCallExpr") and strip(y["inner"][0]).get("name") == name]


def unit_transfer_pairing(twin=False):
    r = U.new_unit("C03.build_reactants.transfer_enters_jacobian_and_element_delta_alike", PREP, "Phreeqc::build_pure_phases", A.find_function(PREP, "Phreeqc::build_pure_phases"))
    total = 0
    for fname in ("build_pure_phases", "build_gas_phase", "build_ss_assemblage"):
        fn = A.find_function(PREP, "Phreeqc::" + fname)
        for blk in A.walk(fn):
            if blk.get("kind") != "CompoundStmt":
                continue
            jac = _calls(blk, PREP, "store_jacob0"); sd = _calls(blk, PREP, "store_sum_deltas")
            if not jac and not sd:
                continue
            if not (len(jac) == 1 and len(sd) == 1):
                if sd and not jac:
                    # a delta booking without a Jacobian entry in the same group would create mass the solver does not see
                    r.add("%s.delta_booking_has_its_jacobian_entry" % fname, FAILED, "syntactic", 0, text_of(PREP, blk)[:160])
                continue
            total += 1
            ja = [text_of(PREP, a) for a in jac[0]["inner"][1:]]; sa = [text_of(PREP, a) for a in sd[0]["inner"][1:]]
            U_j = re.sub(r"^\(int\)", "", ja[0]); U_j = re.sub(r"->number$", "", U_j)
            col = re.sub(r"^\(int\)", "", ja[1])
            m = re.match(r"^&\(?delta\[(\w+)\]\)?$", sa[0])
            tgt = re.sub(r"->delta$", "", sa[1].lstrip("&"))
            if not m or not sa[1].startswith("&") or not sa[1].endswith("->delta") and not sa[1].endswith("related_moles)"):
                r.add("%s.site%d.shape_recognised" % (fname, total), UNDECIDED, "syntactic", 0, "%r %r" % (ja, sa)); continue
            same_unknown = tgt == U_j
            same_react = col == "x[%s]->number" % m.group(1)
            cj, cs = ja[2], sa[2]
            opposite = cj == "-" + cs or (cj.startswith("-") and cj[1:] == cs) or cs == "-" + cj
            if twin and total == 1:
                opposite = False
            r.add("%s.site%d.same_element_unknown" % (fname, total), DISCHARGED if same_unknown else FAILED, "syntactic", 0, "jacobian row %s, delta target %s" % (U_j, tgt))
            r.add("%s.site%d.same_reactant" % (fname, total), DISCHARGED if same_react else FAILED, "syntactic", 0, "column %s, source delta[%s]" % (col, m.group(1)))
            r.add("%s.site%d.same_coefficient_opposite_sign" % (fname, total), DISCHARGED if opposite else FAILED, "syntactic", 0, "%s / %s" % (cj, cs))
    r.add("reach.sites", DISCHARGED if total >= 8 else UNDECIDED, "syntactic", 0, "%d paired sites" % total, kind="vacuity")
    r.proved_kind = "structural"
    r.assumptions += ["argument texts are compared after stripping (int) casts; sites of another shape are reported undecided", "store_jacob0 / store_sum_deltas bodies and reset() (C02.reset) complete the argument"]
    return r


def unit_quick_setup_pairing(twin=False):
    """quick_setup (same-model fast path) refreshes, for every pure-phase unknown, each value that setup_pure_phases takes from the
    assemblage component (amount, TARGET SI, pending delta, dissolve_only, component pointer): the fast path must not keep the
    previous calculation's targets."""
    import re
    q1, q2 = "Phreeqc::setup_pure_phases", "Phreeqc::quick_setup"
    f1 = A.find_function(PREP, q1); f2 = A.find_function(PREP, q2)
    r = U.new_unit("C03.quick_setup.refreshes_what_setup_pure_phases_takes_from_the_component", PREP, q2, f2, kind="structural")
    def comp_fields(fn, xexpr):
        out = {}
        for x in A.walk(fn):
            if x.get("kind") == "BinaryOperator" and x.get("opcode") == "=":
                lhs = text_of(PREP, x["inner"][0]); rhs = text_of(PREP, x["inner"][1])
                m = re.match(r"^%s->(\w+)$" % re.escape(xexpr), lhs)
                if m and "comp_ptr" in rhs:
                    g = re.search(r"comp_ptr->(Get_\w+)\(\)", rhs)
                    out[m.group(1)] = g.group(1) if g else "comp_ptr"
        return out
    full = comp_fields(f1, "x[count_unknowns]")
    # the fast path's pure-phase block
    blocks = find_nodes(f2, PREP, lambda t, x: text_of(PREP, x["inner"][0]) == "x[i]->type==PP" and "pp_assemblage" in t, kinds=("IfStmt",))
    if not blocks:
        raise Undecided("pure-phase block of quick_setup not found")
    fast = comp_fields(blocks[0], "x[i]")
    if twin:
        fast.pop("si", None)
    r.add("reach.fields_taken_from_component", DISCHARGED if len(full) >= 4 else UNDECIDED, "syntactic", 0, repr(full), kind="vacuity")
    for fld_, getter in sorted(full.items()):
        if getter == "comp_ptr" and fld_ == "pp_assemblage_comp_ptr":
            ok = fast.get(fld_) == "comp_ptr"
        elif getter == "Get_name":
            continue                 # names do not change on the fast path
        else:
            ok = fast.get(fld_) == getter
        r.add("fast_path.%s_refreshed_from_%s" % (fld_, getter), DISCHARGED if ok else FAILED, "syntactic", 0, "fast path: %r" % (fast.get(fld_),))
    r.assumptions += ["pairing of two code sites (the full set-up defines which values come from the component)", "gases' SI adjustment (adjust_setup_pure_phases) is not under this contract"]
    return r


def unit_setup_exchange_capacity(twin=False):
    """setup_exchange: the capacity of an exchanger given as several explicit species is the SUM of the sites of all of them."""
    q = "Phreeqc::setup_exchange"
    fn = A.find_function(PREP, q)
    r = U.new_unit("C03.setup_exchange.capacity_is_the_sum_over_components", PREP, q, fn)
    k = loop_ordinal(fn, PREP, cond_text="it!=nd.end()")
    c = ctx(functional=("element_store", "c_str"))
    f, ex, its, info = U.run_loop_isolated(PREP, q, k, ctx=c)
    add = new = 0
    for s in live(its, ("run", "cont")):
        w = writes(s, ("f", "moles", "R"))
        if not w:
            continue
        elt = [e.result for e in U.iter_events(s) if e.name.endswith("element_store")]
        if not elt:
            continue
        mp = fld0(ex, s, "master", "P", elt[0])
        amount = [t for t in tm.subterms(w[-1][1]) if "mnode" in repr(t) or "#mval" in repr(t)]
        known = B.z3_prove(list(s.pc), tm.not_(tm.eq(fld0(ex, s, "in", "I", mp), tm.num(0, "I"))))[0] == "proved"
        (ix,), val = w[-1]
        old = tm.select(entry_arr(ex, s, ("f", "moles", "R")), ix)
        if known:
            add += 1
            # value = old + amount  (amount = it->second)
            d = val - old if not twin else val
            ok = B.sympy_equal(val, old + (val - old))[0] and old in tm.subterms(val)
            if twin:
                ok = False
            r.add("sites_already_in_model.capacity+=amount_of_this_species", DISCHARGED if ok else FAILED, "symex", 0, "new value %r" % (val,))
        else:
            new += 1
            r.add("first_species_of_the_exchanger.capacity=amount", DISCHARGED if old not in tm.subterms(val) else FAILED, "symex", 0, repr(val)[:100])
    r.add("reach.both_cases", DISCHARGED if add and new else UNDECIDED, "symex", 0, "%d adding, %d creating paths" % (add, new), kind="vacuity")
    r.assumptions += ["the amount is the value of the totals entry iterated (it->second)"]
    return r
