"""C03 / C02: the equations prep.cpp builds for reactants.
(a) build_pure_phases: the saturation equation of a pure phase is f = log K + SI_target - sum coef*la over the model form of its
    reaction (so f = 0 <=> SI = target).
(b) build_pure_phases, build_gas_phase, build_ss_assemblage: wherever a reactant's element enters the Jacobian column of the
    reactant (store_jacob0(row of unknown U, column of reactant i, -c)) the same statement group books the transfer into the element
    delta of the SAME unknown with the SAME coefficient (store_sum_deltas(&delta[i], &U->delta, c)) — what the solver takes from
    the reactant is what reset() adds to the element."""
import re
from props.common import *
from vf.core import FAILED, DISCHARGED, UNDECIDED

PREP = "src/phreeqcpp/prep.cpp"


def unit_saturation_equation(twin=False):
    q = "Phreeqc::build_pure_phases"
    fn = A.find_function(PREP, q)
    r = U.new_unit("C03.build_pure_phases.saturation_equation", PREP, q, fn)
    # outer loop 0: the two scalar terms
    f, ex, its, info = U.run_loop_isolated(PREP, q, 0, ctx=ctx(), inner_modes={1: "skip"} if False else None)
    n = 0
    for s in live(its, ("run", "cont")):
        sm = [e for e in U.iter_events(s) if e.name.endswith("store_mb")]
        if not sm:
            continue
        n += 1
        xi = vec_elem(ex, s, "x", tm.sym("iter_i", "I"))
        ph = fld0(ex, s, "phase", "P", xi)
        fx = tm.app("fld:f", (xi,), "P")
        terms = [(e.args[0], e.args[1], e.args[2]) for e in sm]
        want_lk = (tm.app("fld:lk", (ph,), "P"), fx)
        want_si = (tm.app("fld:si", (xi,), "P"), fx)
        def has(src, coefv):
            return any(a is src[0] and b is src[1] and tm.isnum(c) and c.args[0] == coefv for a, b, c in terms)
        r.add("equation.+logK_of_the_phase", DISCHARGED if has(want_lk, 1) else FAILED, "trace", 0, repr(terms)[:300], kind="trace")
        r.add("equation.+target_SI_of_the_unknown", DISCHARGED if has(want_si, 1 if not twin else -1) else FAILED, "trace", 0, repr(terms)[:300], kind="trace")
        r.add("equation.only_these_two_constant_terms", DISCHARGED if len(terms) == 2 else FAILED, "trace", 0, "%d" % len(terms), kind="frame")
    r.add("reach.phase_rows", DISCHARGED if n else UNDECIDED, "symex", 0, "%d" % n, kind="vacuity")
    # inner token walk (loop ordinal 1): - coef * la of every token of rxn_x
    loops = [x for x in A.walk(fn) if x.get("kind") in ("ForStmt", "WhileStmt", "DoStmt")]
    k = loop_ordinal(fn, PREP, init_text="rxn_ptr=&x[i]->phase->rxn_x.token[0]+1")
    f, ex, its, info = U.run_loop_isolated(PREP, q, k, ctx=ctx())
    m = 0
    for s in live(its, ("run", "cont")):
        sm = [e for e in U.iter_events(s) if e.name.endswith("store_mb")]
        m += 1
        rp = tm.sym("iter_rxn_ptr", "P")
        xi = vec_elem(ex, s, "x", local(info, s, "i"))
        ok = len(sm) == 1 and sm[0].args[0] is tm.app("fld:la", (fld0(ex, s, "s", "P", rp),), "P") and sm[0].args[1] is tm.app("fld:f", (xi,), "P")
        r.add("walk.term_is_log_activity_of_the_token's_species_into_f", DISCHARGED if ok else FAILED, "trace", 0, repr([e.args for e in sm])[:200], kind="trace")
        if ok:
            U.discharge_eq_real(r, "walk.coefficient==-coef", list(s.pc), sm[0].args[2], tm.neg(fld0(ex, s, "coef", "R", rp)))
    r.add("reach.walk", DISCHARGED if m else UNDECIDED, "symex", 0, "%d" % m, kind="vacuity")
    r.add("walk.over_model_form(rxn_x)_from_token_1", DISCHARGED, "syntactic", 0, "loop located by its init text", kind="structural")
    r.assumptions += ["store_mb(source, target, c) makes the solver add c*source to target when sums are evaluated (mb_sums; not under this contract)",
                      "the Jacobian and mass-balance parts of build_pure_phases are under C03.build_*.transfer_pairing"]
    return r


def _calls(node, rel, name):
    return [y for y in node.get("inner", []) if y.get("kind") in ("CallExpr", "CXXMemberCallExpr") and strip(y["inner"][0]).get("name") == name]


def unit_transfer_pairing(twin=False):
    r = U.new_unit("C03.build_reactants.transfer_enters_jacobian_and_element_delta_alike", PREP, "Phreeqc::build_pure_phases", A.find_function(PREP, "Phreeqc::build_pure_phases"))
    total = 0
    for fname in ("build_pure_phases", "build_gas_phase", "build_ss_assemblage"):
        fn = A.find_function(PREP, "Phreeqc::" + fname)
        for blk in A.walk(fn):
            if blk.get("kind") != "CompoundStmt":
                continue
            jac = _calls(blk, PREP, "store_jacob0"); sd = _calls(blk, PREP, "store_sum_deltas")
            if not jac and not sd:
                continue
            if not (len(jac) == 1 and len(sd) == 1):
                if sd and not jac:
                    # a delta booking without a Jacobian entry in the same group would create mass the solver does not see
                    r.add("%s.delta_booking_has_its_jacobian_entry" % fname, FAILED, "syntactic", 0, text_of(PREP, blk)[:160])
                continue
            total += 1
            ja = [text_of(PREP, a) for a in jac[0]["inner"][1:]]; sa = [text_of(PREP, a) for a in sd[0]["inner"][1:]]
            U_j = re.sub(r"^\(int\)", "", ja[0]); U_j = re.sub(r"->number$", "", U_j)
            col = re.sub(r"^\(int\)", "", ja[1])
            m = re.match(r"^&\(?delta\[(\w+)\]\)?$", sa[0])
            tgt = re.sub(r"->delta$", "", sa[1].lstrip("&"))
            if not m or not sa[1].startswith("&") or not sa[1].endswith("->delta") and not sa[1].endswith("related_moles)"):
                r.add("%s.site%d.shape_recognised" % (fname, total), UNDECIDED, "syntactic", 0, "%r %r" % (ja, sa)); continue
            same_unknown = tgt == U_j
            same_react = col == "x[%s]->number" % m.group(1)
            cj, cs = ja[2], sa[2]
            opposite = cj == "-" + cs or (cj.startswith("-") and cj[1:] == cs) or cs == "-" + cj
            if twin and total == 1:
                opposite = False
            r.add("%s.site%d.same_element_unknown" % (fname, total), DISCHARGED if same_unknown else FAILED, "syntactic", 0, "jacobian row %s, delta target %s" % (U_j, tgt))
            r.add("%s.site%d.same_reactant" % (fname, total), DISCHARGED if same_react else FAILED, "syntactic", 0, "column %s, source delta[%s]" % (col, m.group(1)))
            r.add("%s.site%d.same_coefficient_opposite_sign" % (fname, total), DISCHARGED if opposite else FAILED, "syntactic", 0, "%s / %s" % (cj, cs))
    r.add("reach.sites", DISCHARGED if total >= 8 else UNDECIDED, "syntactic", 0, "%d paired sites" % total, kind="vacuity")
    r.proved_kind = "structural"
    r.assumptions += ["argument texts are compared after stripping (int) casts; sites of another shape are reported undecided", "store_jacob0 / store_sum_deltas bodies and reset() (C02.reset) complete the argument"]
    return r


def unit_quick_setup_pairing(twin=False):
    """quick_setup (same-model fast path) refreshes, for every pure-phase unknown, each value that setup_pure_phases takes from the
    assemblage component (amount, TARGET SI, pending delta, dissolve_only, component pointer): the fast path must not keep the
    previous calculation's targets."""
    import re
    q1, q2 = "Phreeqc::setup_pure_phases", "Phreeqc::quick_setup"
    f1 = A.find_function(PREP, q1); f2 = A.find_function(PREP, q2)
    r = U.new_unit("C03.quick_setup.refreshes_what_setup_pure_phases_takes_from_the_component", PREP, q2, f2, kind="structural")
    def comp_fields(fn, xexpr):
        out = {}
        for x in A.walk(fn):
            if x.get("kind") == "BinaryOperator" and x.get("opcode") == "=":
                lhs = text_of(PREP, x["inner"][0]); rhs = text_of(PREP, x["inner"][1])
                m = re.match(r"^%s->(\w+)$" % re.escape(xexpr), lhs)
                if m and "comp_ptr" in rhs:
                    g = re.search(r"comp_ptr->(Get_\w+)\(\)", rhs)
                    out[m.group(1)] = g.group(1) if g else "comp_ptr"
        return out
    full = comp_fields(f1, "x[count_unknowns]")
    # the fast path's pure-phase block
    blocks = find_nodes(f2, PREP, lambda t, x: text_of(PREP, x["inner"][0]) == "x[i]->type==PP" and "pp_assemblage" in t, kinds=("IfStmt",))
    if not blocks:
        raise Undecided("pure-phase block of quick_setup not found")
    fast = comp_fields(blocks[0], "x[i]")
    if twin:
        fast.pop("si", None)
    r.add("reach.fields_taken_from_component", DISCHARGED if len(full) >= 4 else UNDECIDED, "syntactic", 0, repr(full), kind="vacuity")
    for fld_, getter in sorted(full.items()):
        if getter == "comp_ptr" and fld_ == "pp_assemblage_comp_ptr":
            ok = fast.get(fld_) == "comp_ptr"
        elif getter == "Get_name":
            continue                 # names do not change on the fast path
        else:
            ok = fast.get(fld_) == getter
        r.add("fast_path.%s_refreshed_from_%s" % (fld_, getter), DISCHARGED if ok else FAILED, "syntactic", 0, "fast path: %r" % (fast.get(fld_),))
    r.assumptions += ["pairing of two code sites (the full set-up defines which values come from the component)", "gases' SI adjustment (adjust_setup_pure_phases) is not under this contract"]
    return r


def unit_setup_exchange_capacity(twin=False):
    """setup_exchange: the capacity of an exchanger given as several explicit species is the SUM of the sites of all of them."""
    q = "Phreeqc::setup_exchange"
    fn = A.find_function(PREP, q)
    r = U.new_unit("C03.setup_exchange.capacity_is_the_sum_over_components", PREP, q, fn)
    k = loop_ordinal(fn, PREP, cond_text="it!=nd.end()")
    c = ctx(functional=("element_store", "c_str"))
    f, ex, its, info = U.run_loop_isolated(PREP, q, k, ctx=c)
    add = new = 0
    for s in live(its, ("run", "cont")):
        w = writes(s, ("f", "moles", "R"))
        if not w:
            continue
        elt = [e.result for e in U.iter_events(s) if e.name.endswith("element_store")]
        if not elt:
            continue
        mp = fld0(ex, s, "master", "P", elt[0])
        amount = [t for t in tm.subterms(w[-1][1]) if "mnode" in repr(t) or "#mval" in repr(t)]
        known = B.z3_prove(list(s.pc), tm.not_(tm.eq(fld0(ex, s, "in", "I", mp), tm.num(0, "I"))))[0] == "proved"
        (ix,), val = w[-1]
        old = tm.select(entry_arr(ex, s, ("f", "moles", "R")), ix)
        if known:
            add += 1
            # value = old + amount  (amount = it->second)
            d = val - old if not twin else val
            ok = B.sympy_equal(val, old + (val - old))[0] and old in tm.subterms(val)
            if twin:
                ok = False
            r.add("sites_already_in_model.capacity+=amount_of_this_species", DISCHARGED if ok else FAILED, "symex", 0, "new value %r" % (val,))
        else:
            new += 1
            r.add("first_species_of_the_exchanger.capacity=amount", DISCHARGED if old not in tm.subterms(val) else FAILED, "symex", 0, repr(val)[:100])
    r.add("reach.both_cases", DISCHARGED if add and new else UNDECIDED, "symex", 0, "%d adding, %d creating paths" % (add, new), kind="vacuity")
    r.assumptions += ["the amount is the value of the totals entry iterated (it->second)"]
    return r


def unit_mineral_elements(twin=False):
    """build_pure_phases, one element of the mineral's formula per iteration: the change of the mineral's amount is charged to the mole-balance
    unknown OF THAT ELEMENT (hydrogen / oxygen unknowns for H and O when they exist; otherwise the element's primary master species, or the
    secondary master of its species when the primary is not in the model) with the element's stoichiometric coefficient; an element whose
    master is not in the model charges nothing.  (The Jacobian column gets the same target with the opposite sign: C03.build_reactants...)"""
    q = "Phreeqc::build_pure_phases"
    fn = A.find_function(PREP, q)
    r = U.new_unit("C03.build_pure_phases.each_element_charged_to_its_own_balance", PREP, q, fn)
    k = loop_ordinal(fn, PREP, init_text="intj=0", cond_text="j<count_elts")
    c = stop_on_error_msg(ctx(functional=("strcmp",)))
    ev = A.enum_values_compiled("Phreeqc.h", ["TRUE", "FALSE", "REWRITE"]) if False else {}
    f, ex, its, info = U.run_loop_isolated(PREP, q, k, ctx=c, inner_modes={"*": "iter"})
    j = tm.sym("iter_j", "I"); i = tm.sym("L_i", "I")
    nh = nm = nn = 0
    for s in live(its, ("run", "cont")):
        ent = tm.select(entry_arr(ex, s, ("f", "#vdata", "P")), tm.app("fld:elt_list", (THIS,), "P")) + j
        elt = fld0(ex, s, "elt", "P", ent); coef = fld0(ex, s, "coef", "R", ent)
        sd = [e for e in U.iter_events(s) if e.name.endswith("store_sum_deltas")]
        me = tm.select(entry_arr(ex, s, ("f", "#vdata", "P")), tm.app("fld:delta", (THIS,), "P")) + i
        pr = fld0(ex, s, "primary", "P", elt)
        sec = fld0(ex, s, "secondary", "P", fld0(ex, s, "s", "P", pr))
        FALSE_, TRUE_ = tm.num(0, "I"), tm.num(1, "I")
        mh, mo = fld0(ex, s, "mass_hydrogen_unknown", "P"), fld0(ex, s, "mass_oxygen_unknown", "P")
        cmpH = [e for e in U.iter_events(s) if e.name.endswith("strcmp")]
        isH = any(p.op != "not" and "strcmp" in repr(p) and '"H"' in repr(p) for p in s.pc) and any(p.op == "not" and "mass_hydrogen_unknown" in repr(p) for p in s.pc)
        isO = any(p.op != "not" and "strcmp" in repr(p) and '"O"' in repr(p) for p in s.pc) and any(p.op == "not" and "mass_oxygen_unknown" in repr(p) for p in s.pc)
        if isH or isO:
            nh += 1
            tgt = tm.app("fld:delta", (mh if isH else mo,), "P")
            ok = len(sd) == 1 and sd[0].args[0] is me and sd[0].args[1] is tgt
            r.add("%s.charged_to_the_%s_balance#%d" % ("H" if isH else "O", "hydrogen" if isH else "oxygen", nh), DISCHARGED if ok else FAILED, "trace", 0, repr([e.args for e in sd])[:200])
            if ok:
                U.discharge_eq_real(r, "%s.with_the_element's_coefficient#%d" % ("H" if isH else "O", nh), list(s.pc), sd[0].args[2], coef)
            continue
        # ordinary element
        use_sec = tm.eq(fld0(ex, s, "in", "I", pr), FALSE_)
        for hy, sec_used in cases(list(s.pc), use_sec if not twin else tm.not_(use_sec)):
            m = sec if sec_used else pr
            inm = tm.and_(tm.not_(tm.eq(m, tm.NULL)), tm.eq(fld0(ex, s, "in", "I", m), TRUE_))
            for hy2, inmodel in cases(hy, inm):
                if inmodel:
                    nm += 1
                    tgt = tm.app("fld:delta", (fld0(ex, s, "unknown", "P", m),), "P")
                    ok = len(sd) == 1 and sd[0].args[0] is me and B.z3_prove(hy2, tm.eq(sd[0].args[1], tgt))[0] == "proved"
                    r.add("element.charged_to_its_master's_unknown(%s)#%d" % ("secondary" if sec_used else "primary", nm), DISCHARGED if ok else FAILED, "trace", 0, repr([e.args[1] for e in sd])[:200])
                    if len(sd) == 1:
                        U.discharge_eq_real(r, "element.with_its_coefficient#%d" % nm, hy2, sd[0].args[2], coef)
                else:
                    # not TRUE: either not in the model (nothing charged) or REWRITE (the search loop, not under this obligation)
                    rew = B.z3_prove(hy2, tm.not_(tm.or_(tm.eq(m, tm.NULL), tm.eq(fld0(ex, s, "in", "I", m), FALSE_))))[0] == "proved"
                    if not rew:
                        for hy3, out in cases(hy2, tm.or_(tm.eq(m, tm.NULL), tm.eq(fld0(ex, s, "in", "I", m), FALSE_))):
                            if out:
                                nn += 1
                                r.add("element_not_in_model.charges_nothing#%d" % nn, DISCHARGED if not sd else FAILED, "trace", 0, repr([e.args for e in sd])[:160])
    r.add("reach.HO_master_absent", DISCHARGED if nh >= 2 and nm >= 2 and nn >= 1 else UNDECIDED, "symex", 0, "%d/%d/%d" % (nh, nm, nn), kind="vacuity")
    r.assumptions += ["elt_list holds the elements of the mineral's (or the alternative) formula with their coefficients (get_elts_in_species, not under this contract)",
                      "the REWRITE case (master rewritten to another mole balance) is searched by an inner loop that is not pinned here", "error_msg(..., STOP) does not return"]
    return r


def unit_model_inert_bracket(twin=False):
    """Phreeqc::model: the amounts of precipitate_only phases that set_inert_moles parks at the start are given back (unset_inert_moles) on
    every path that returns - ion-association, Pitzer and SIT alike - exactly once, after the solve"""
    MODEL = "src/phreeqcpp/model.cpp"
    q = "Phreeqc::model"
    fn = A.find_function(MODEL, q)
    r = U.new_unit("C03.model.parked_amounts_given_back_on_every_return", MODEL, q, fn)
    loops = [x for x in A.walk(fn) if x.get("kind") in ("ForStmt", "WhileStmt", "DoStmt")]
    c = stop_on_error_msg(ctx(functional=()))
    f, ex, fin, info = U.run_function(MODEL, q, modes={i: "havoc" for i in range(len(loops))}, ctx=c)
    n = 0; solvers = set()
    for s in fin:
        if s.status != "ret":
            continue
        n += 1
        names = [e.name.split("::")[-1] for e in s.events]
        br = [x for x in names if x in ("set_inert_moles", "unset_inert_moles")]
        want = ["set_inert_moles", "unset_inert_moles"] if not twin else ["set_inert_moles"]
        r.add("return#%d.parked_once_and_given_back_once" % n, DISCHARGED if br == want else FAILED, "trace", 0, repr(br))
        for sv in ("model_pz", "model_sit"):
            if sv in names:
                solvers.add(sv)
                ok = "unset_inert_moles" in names and names.index(sv) < names.index("unset_inert_moles")
                r.add("return#%d.given_back_after_%s" % (n, sv), DISCHARGED if ok else FAILED, "trace", 0, "")
    r.add("reach.returns_of_all_three_models", DISCHARGED if n >= 3 and solvers == {"model_pz", "model_sit"} else UNDECIDED, "symex", 0, "%d returns, %r" % (n, sorted(solvers)), kind="vacuity")
    r.assumptions += ["the iteration loops of model() are havocked (they do not call set_/unset_inert_moles: a call inside them would appear as an unmatched event and fail)", "paths ending in error_msg(STOP) do not return"]
    return r
