"""C08 (third helper wave): the statement executors of the BASIC interpreter (src/phreeqcpp/PBasic.cpp) when a statement is executed in
IMMEDIATE mode (a line of USER_PRINT / USER_PUNCH / RATES / CALCULATE_VALUES text without a line number is executed while the program is
compiled: `stmtline == NULL`, no stored line is current) or at the END of a line (`LINK->t == NULL`), with an empty program (`linebase ==
NULL`), an empty loop stack (`loopbase == NULL`) or no DATA line (`dataline == NULL`).

Contract per function (whole function, from an ARBITRARY state of the interpreter - every pointer member may be NULL):

    every `p->member` whose p is read from one of the pointer members   stmtline, LINK->t, ->next, loopbase, dataline, datatok, linebase,
    ->txt, ->homeline, ->hometok, stmttok, buf   (directly or through a local), or is the result of mustfindline / findline,
    is reached only on paths whose condition implies p != NULL

so that the documented BASIC error (errormsg -> exception, reported as an input error by the hosts) is raised instead of a crash.  The library
never switches the GUI parse-only mode on (phreeqci_gui == false: precondition, decided by a scan for callers of Set_phreeqci_gui).

Loops: one arbitrary pass each; behind a loop the end states of that pass in which the loop is left (props/c08_ext3_util.py), so a test made
by the last pass is known behind the loop.  Callees iseos / require / skiptoeos / skiploop / cmdgoto / the expression parsers / the error
routines are replaced by their contracts (props/c17_ext_model.py; each has its own unit under C17 or here)."""
import os
from props.c17_ext_model import *
from props.c08_ext3_util import exact_exit_loop
from vf import core as _core

POINTER_FIELDS = {"stmtline", "t", "next", "loopbase", "dataline", "datatok", "linebase", "txt", "homeline", "hometok", "stmttok", "buf"}
LOOKUPS = {"mustfindline", "findline", "PHRQ_calloc", "PHRQ_malloc"}


TRACKED_TYPES = ("tokenrec", "linerec", "looprec")


def _origin(p):
    """where a pointer value comes from (for the name of its obligation)"""
    if p.op == "select":
        b = p.args[0]
        while b.op in ("store", "ite"):
            b = b.args[0] if b.op == "store" else b.args[1]
        if b.op == "sym":
            return str(b.args[0]).split(".", 1)[-1].split(":")[0]
        return "memory"
    if p.op == "app" and str(p.args[0]).startswith("call:"):
        return str(p.args[0])[5:] + "()"
    if p.op == "sym":
        nm = str(p.args[0]).split("!")[0].split("@")[0]
        return {"tok_after_skiploop": "skiploop()", "line_after_skiploop": "skiploop()", "goto_target_line": "cmdgoto()", "eos": "skiptoeos()"}.get(nm, nm)
    return p.op


class NullExec(Exec2):
    """Exec2 plus one event per `p->member` whose p has type tokenrec* / linerec* / looprec* (token lists, stored lines, loop stack), whatever
    the value of p is made of (a member read, a local, the position a parser left behind, a look-up or allocation result)"""
    def lv_MemberExpr(self, n, st):
        out = Exec2.lv_MemberExpr(self, n, st)
        if n.get("isArrow") and n.get("name"):
            bt = SX.strip_type(self.qt(n["inner"][0]))
            if bt.endswith("*") and SX.strip_type(bt[:-1]) in TRACKED_TYPES:
                for s, l in out:
                    if l[0] != "field" or not isinstance(l[2], tm.T):
                        continue
                    p = l[2]
                    if tm.isnum(p) or (p.op == "sym" and str(p.args[0]).startswith("&")) or (p.op == "app" and str(p.args[0]).startswith("fld:")):
                        continue
                    e_ = SX.Event("deref", p, [tm.strc(_origin(p)), tm.strc(n.get("name"))], ZI, node=n)
                    e_.snap = list(s.pc)
                    s.events.append(e_)
        return out


def _run(q, find_kw=None):
    c = mkctx(repoint=False)
    c.functional.update({"PHRQ_calloc", "PHRQ_malloc"})       # one allocation per path in these functions: the result is named by its call
    def malloc_error(ex_, st, n, name, recv, args):
        st.events.append(SX.Event(name, recv, args, ZI, n))
        st.status = "throw"                      # Phreeqc::malloc_error reports "NULL pointer returned from malloc or realloc" with STOP: it does not return
        return [(st, ZI)]
    c.handlers["malloc_error"] = malloc_error
    def h_skipparen(ex_, st, n, name, recv, args):
        """contract of skipparen (its own unit proves it for every returning path, the recursive call included): it returns with LINK->t at a
        ')' or ',' token - never at the end of the line (that is the error 'parenthesis missing')"""
        link = args[0]
        t2 = fresh("tok_after_skipparen", "P")
        st.events.append(SX.Event(name, recv, [link, cur_t(ex_, st, link)], t2, n))
        ex_.store(st, ("field", "t", link), t2, "P")
        st.assume(tm.not_(tm.eq(t2, NULLP)))
        k = F(ex_, st, "kind", "I", t2)
        st.assume(tm.or_(tm.eq(k, tk("tokrp")), tm.eq(k, tk("tokcomma"))))
        return [(st, ZI)]
    c.handlers["PBasic::skipparen"] = h_skipparen
    collect = {}
    c.loop = exact_exit_loop(collect)
    fn = A.find_function(PB, q, **(find_kw or {}))
    ex = NullExec(c)
    SX.fresh("c08ext3", "I")
    st0 = SX.State()
    st0.pc = [tm.not_(tm.to_bool(F0("phreeqci_gui", "B", THIS)))]            # precondition: the library never switches the GUI mode on
    fin = ex.run(fn, st0)
    states = list(fin)
    for o, sts in collect.items():
        states += sts
    return fn, ex, fin, states


_RAW = {}


def _run_exec_pass():
    """PBasic::exec: one arbitrary pass of its line loop (the statement loop inside it left through the end states of one arbitrary statement);
    the function body is a try block whose handler is not executed by the engine"""
    q = "PBasic::exec"
    c = mkctx(repoint=False)
    c.functional.update({"PHRQ_calloc", "PHRQ_malloc"})
    collect = {}
    fn = A.find_function(PB, q)
    lps = loops_of(fn)
    outer = [k for k, l in enumerate(lps) if not any(o is not l and any(y is l for y in A.walk(o)) for o in lps)]
    if len(outer) != 1:
        raise Undecided("exec: one outer line loop expected, found %d" % len(outer))
    c.loop = exact_exit_loop(collect)
    ex0, st, names = arbitrary_state(fn, c)
    ex = NullExec(c)
    ex.local_ids, ex.addr_taken, ex.loop_ids = ex0.local_ids, ex0.addr_taken, ex0.loop_ids
    st.pc = [tm.not_(tm.to_bool(F0("phreeqci_gui", "B", THIS)))]
    res = ex.iterate_loop(lps[outer[0]], st)
    states = list(res)
    for o, sts in collect.items():
        states += sts
    return fn, ex, list(res), states


def _verdicts(q):
    key = (_core.REPO, q)
    if key in _RAW:
        return _RAW[key]
    fn, ex, fin, states = _run(q) if q != "PBasic::exec" else _run_exec_pass()
    seen, why, memo = {}, {}, {}
    nthrow = 0
    msgs = set()
    for s in fin:
        if s.status == "throw":
            for e in s.events[-1:]:
                if e.name.split("::")[-1] in THROWERS and e.args and e.args[0].op == "str":
                    msgs.add(e.args[0].args[0].strip('"'))
    for s in states:
        for e in s.events:
            if e.name != "deref":
                continue
            txt = text_of(PB, e.node)
            what = e.args[0].args[0].strip('"') if e.args and e.args[0].op == "str" else "?"
            k = (txt, what)
            if seen.get(k) == "bad":
                continue
            hy = list(e.snap or []) + lib_hyps(s, list(e.snap or []))
            if q != "PBasic::mustfindline":
                # contract of mustfindline (unit C08.basic_null.mustfindline...): it returns the line found or raises the BASIC error
                hy += [tm.not_(tm.eq(x, NULLP)) for x in tm.subterms(e.recv) if x.op == "app" and x.args[0] == "call:mustfindline"]
            mk = (e.recv, frozenset(hy))
            if mk not in memo:
                st = B.z3_prove(hy, tm.not_(tm.eq(e.recv, NULLP)))[0]
                if st != "proved" and B.z3_sat(hy) == "unsat":
                    st = "infeasible"
                memo[mk] = st
            st = memo[mk]
            if st == "infeasible":
                continue
            if st == "proved":
                seen.setdefault(k, "ok")
            else:
                seen[k] = "bad"
                why[k] = "pointer value %r" % (e.recv,)
    _RAW[key] = (fn, seen, why, sorted(msgs), len([s for s in fin if s.status != "dead"]), fin, ex)
    return _RAW[key]


def unit_null(fname, twin=False, expect_errors=()):
    q = "PBasic::" + fname
    fn, seen, why, msgs, npaths, fin, ex = _verdicts(q)
    r = U.new_unit("C08.basic_null.%s.line_token_and_stack_pointers_tested_before_use" % fname, PB, q, fn)
    n = 0
    for (txt, what), val in sorted(seen.items()):
        n += 1
        if twin:
            val = "bad" if val == "ok" else "ok"
        r.add("`%s`.pointer_read_from_%s_is_tested_against_NULL_on_every_path_to_this_use" % (txt[:60], what), DISCHARGED if val == "ok" else FAILED, "symex+z3", 0,
              "" if val == "ok" else "a path reaches `%s` with a pointer that may be NULL (no stored line is current / end of the line / empty program, loop stack or DATA): "
              "SIGSEGV instead of a BASIC error; %s" % (txt, why.get((txt, what), "")[:300]), kind="safety")
    if n == 0:
        # nothing to guard: the function reaches these pointers only through callees that are under their own contract (or not at all)
        r.add("no_line_token_or_stack_pointer_is_dereferenced_in_this_function", DISCHARGED if not twin else FAILED, "symex", 0,
              "0 dereference expressions of line / token / loop-stack pointers on %d paths" % npaths, kind="safety")
    r.add("reach.paths", DISCHARGED if npaths else UNDECIDED, "symex", 0, "%d paths, %d dereference expressions under obligation" % (npaths, n), kind="vacuity")
    if fname == "skipparen":
        k = 0
        link = tm.sym("P0_LINK", "P")
        for s in fin:
            if s.status not in ("goto", "ret", "run") or B.z3_sat(list(s.pc)) == "unsat":
                continue
            k += 1
            t = F(ex, s, "t", "P", link)
            kd = F(ex, s, "kind", "I", t)
            goal = tm.and_(tm.not_(tm.eq(t, NULLP)), tm.or_(tm.eq(kd, tk("tokrp")), tm.eq(kd, tk("tokcomma") if not twin else tk("toklp"))))
            U.discharge_valid(r, "returns_only_at_a_closing_parenthesis_or_a_comma_never_at_the_end_of_the_line#%d" % k, list(s.pc), goal)
        r.add("reach.returning_paths", DISCHARGED if k else UNDECIDED, "symex", 0, str(k), kind="vacuity")
    if fname == "mustfindline":
        k = 0
        for s in fin:
            if s.status != "ret" or B.z3_sat(list(s.pc) + lib_hyps(s)) == "unsat":
                continue
            k += 1
            goal = tm.not_(tm.eq(s.ret, NULLP)) if not twin else tm.eq(s.ret, NULLP)
            U.discharge_valid(r, "returns_the_line_found_never_NULL#%d" % k, list(s.pc) + lib_hyps(s), goal)
        r.add("reach.returning_paths", DISCHARGED if k else UNDECIDED, "symex", 0, str(k), kind="vacuity")
    for m in expect_errors:
        r.add("reach.error_exit[%s]" % m, DISCHARGED if m in msgs else UNDECIDED, "symex", 0, "error exits found: %s" % msgs, kind="vacuity")
    r.assumptions += ["phreeqci_gui == false (the library never calls Set_phreeqci_gui; see C08.basic_null.library_never_enters_the_GUI_parse_mode)",
                      "LINK and this are valid objects; callees iseos / require / skiptoeos / skiploop / cmdgoto / expression parsers / error routines as in props/c17_ext_model.py "
                      "(findvar never returns NULL, errormsg / snerr / tmerr / badsubscr do not return)",
                      "only pointers read from the members %s and results of mustfindline / findline are under obligation; the element pointers of variables "
                      "(vp, val, sval) are established by findvar and are not" % ", ".join(sorted(POINTER_FIELDS)),
                      "loops: one arbitrary pass; behind a loop the end states of the pass that leaves it"]
    _core.PENDING.heads = []
    return r


def unit_gui_off(twin=False):
    """precondition of the units above, decided textually (a fact about WHICH calls exist): no translation unit of the library calls
    PBasic::Set_phreeqci_gui, and the constructor leaves phreeqci_gui false"""
    fn = A.find_function(PB, "PBasic::PBasic")
    r = U.new_unit("C08.basic_null.library_never_enters_the_GUI_parse_mode", PB, "PBasic::PBasic", fn)
    root = os.path.join(_core.REPO, "src")
    callers = []
    for dp, dn, fs in os.walk(root):
        for f in fs:
            if not f.endswith((".cpp", ".cxx", ".h", ".hpp", ".hxx", ".c")):
                continue
            t = A.squeeze(open(os.path.join(dp, f), encoding="latin1").read())
            k = t.count("Set_phreeqci_gui(")
            if f == "PBasic.h":
                k -= t.count("voidSet_phreeqci_gui(")
            if k > 0:
                callers.append(f)
    r.add("no_call_of_Set_phreeqci_gui_in_the_library", DISCHARGED if (not callers) != twin else FAILED, "text", 0, "callers: %s" % callers, kind="pre")
    c = mkctx()
    f, ex, fin, info = run_fn("PBasic::PBasic", c)
    good = 0
    for s in fin:
        v = F(ex, s, "phreeqci_gui", "B", THIS)
        U.discharge_valid(r, "constructor_leaves_phreeqci_gui_false", list(s.pc), tm.not_(tm.to_bool(v)))
        good += 1
    reach(r, "reach.constructor_paths", good)
    r.assumptions.append("text-anchored: the name Set_phreeqci_gui is searched in the comment-free text of every source file under src/")
    return r


NULL_FUNCS = [("cmdfor", ("FOR without NEXT",)), ("cmdnext", ("NEXT without FOR",)), ("cmdwhile", ("WHILE without WEND",)), ("cmdwend", ("WEND without WHILE",)),
              ("cmdgoto", ()), ("cmdgosub", ()), ("cmdreturn", ("RETURN without GOSUB",)), ("cmdon", ()), ("cmdif", ()), ("cmdelse", ()),
              ("cmdread", ("Out of Data",)), ("cmddata", ()), ("cmdrestore", ()), ("skiptoeos", ()), ("skiploop", ()), ("iseos", ()),
              ("checkextra", ("Extra information on line",)), ("findline", ()), ("mustfindline", ()), ("clearloops", ()), ("cmdend", ()), ("restoredata", ()),
              ("parseinput", ()), ("cmdrun", ()), ("cmdnew", ()), ("cmdlist", ()), ("cmddel", ()),
              ("skipparen", (": parenthesis missing",)), ("findvar", ()), ("cmddim", ()), ("cmderase", ()), ("cmdlet", ())]


def units():
    out = [("C08.basic_null.library_never_enters_the_GUI_parse_mode", unit_gui_off)]
    for fname, errs in NULL_FUNCS:
        def mk(fname=fname, errs=errs):
            return lambda twin=False: unit_null(fname, twin, errs)
        out.append(("C08.basic_null.%s.line_token_and_stack_pointers_tested_before_use" % fname, mk()))
    return out


# ------------------------------------------------------------------------------------------------ immediate mode: tokens outlived by loop records
PUSHERS = ("cmdfor", "cmdwhile", "cmdgosub", "cmdon")
DRIVERS = ("basic_compile", "basic_run", "basic_renumber", "basic_main")


def _pusher_may_retain(fname):
    """does a returning path of the statement executor leave a new record on the loop stack whose hometok may be a token (not NULL) while no
    stored line is current (stmtline == NULL at entry)?  -> (True / False, text)"""
    fn, seen, why, msgs, npaths, fin, ex = _verdicts("PBasic::" + fname)
    sl0 = F0("stmtline", "P", THIS)
    for s in fin:
        if s.status not in ("run", "ret"):
            continue
        rec = F(ex, s, "loopbase", "P", THIS)          # the top of the loop stack when the executor returns: a record allocated by this call?
        if not any(x.op == "app" and str(x.args[0]).startswith("call:PHRQ_") for x in tm.subterms(rec)) or rec.op != "app":
            continue
        tokv = F(ex, s, "hometok", "P", rec)
        linev = F(ex, s, "homeline", "P", rec)
        hy = list(s.pc) + lib_hyps(s) + [tm.eq(sl0, NULLP), tm.not_(tm.eq(tokv, NULLP))]
        hy += [tm.not_(tm.eq(x, NULLP)) for x in tm.subterms(rec) if x.op == "app" and str(x.args[0]).startswith("call:PHRQ_")]
        if B.z3_sat(hy) == "sat":
            return True, "record %r: hometok %r, homeline %r" % (rec, tokv, linev)
    return False, ""


def _parseinput_drops_on_immediate():
    """does parseinput empty the loop stack (clearloops) on EVERY returning path on which the line has no number (curline == 0)?"""
    fn, seen, why, msgs, npaths, fin, ex = _verdicts("PBasic::parseinput")
    n = 0
    for s in fin:
        if s.status not in ("run", "ret"):
            continue
        cur = F(ex, s, "curline", "I", THIS)
        if B.z3_sat(list(s.pc) + [tm.eq(cur, ZI)]) != "sat":
            continue
        n += 1
        if not evs(s, "clearloops"):
            return False, n
    return n > 0, n


def unit_immediate_tokens(twin=False):
    """An un-numbered line is executed at once from its token list `buf`, which disposetokens(&buf) releases right afterwards.  FOR, WHILE,
    GOSUB and ON..GOSUB push a record (homeline = stmtline = NULL, hometok = the token behind the statement) that stays on the loop stack when
    the line ends.  Contract of the four drivers (one arbitrary pass of their line loop; ghost flag D = 'a record of the loop stack may point into
    a released token list'):  exec() is never entered with D set.  D is set by   exec() in immediate mode followed by disposetokens(&buf)
    (when some executor may leave such a record - premise, decided from the executors themselves)  and cleared by clearloops() (directly, or in
    parseinput when it does so on every path of an un-numbered line)."""
    fn0 = A.find_function(PB, "PBasic::basic_compile")
    r = U.new_unit("C08.basic_immediate.loop_records_do_not_outlive_the_tokens_of_an_unnumbered_line", PB, "PBasic::basic_compile; basic_run; basic_renumber; basic_main", fn0)
    may = []
    for p in PUSHERS:
        yes, txt = _pusher_may_retain(p)
        if yes:
            may.append(p)
        r.notes.append("%s: %s" % (p, ("may leave a record that points at a token of an un-numbered line (%s)" % txt[:200]) if yes else "leaves no such record"))
    drops, npi = _parseinput_drops_on_immediate()
    r.notes.append("parseinput: %s" % ("empties the loop stack for every un-numbered line" if drops else "returns for an un-numbered line without clearloops()"))
    r.add("reach.parseinput_paths_of_an_unnumbered_line", DISCHARGED if npi else UNDECIDED, "symex", 0, str(npi), kind="vacuity")
    nexec = 0
    for d in DRIVERS:
        q = "PBasic::" + d
        fn = A.find_function(PB, q)
        lps = loops_of(fn)
        inner = [k for k, l in enumerate(lps) if l["kind"] == "DoStmt" and any(o is not l and any(y is l for y in A.walk(o)) for o in lps)]
        if len(inner) != 1:
            raise Undecided("%s: the line loop (a do-while inside the retry loop) was not found" % d)
        c = mkctx(repoint=False)
        c.snapshot["exec"] = [("stmtline", "P"), ("stmttok", "P")]
        f, ex, res, info = run_iter(q, inner[0], c)
        d_exit = False          # can a pass END with D set?
        passes = []
        for s in res:
            if s.status not in ("run", "cont") or B.z3_sat(list(s.pc) + lib_hyps(s)) == "unsat":
                continue
            seq = [e for e in U.iter_events(s) if e.name.split("::")[-1] in ("parseinput", "exec", "disposetokens", "clearloops")]
            passes.append((s, seq))
            D = False
            pending = False      # exec ran in immediate mode, its tokens not yet released
            for e in seq:
                nm = e.name.split("::")[-1]
                if nm == "exec":
                    sl = (e.snap or {}).get("stmtline")
                    imm = sl is not None and B.z3_sat(list(s.pc) + lib_hyps(s) + [tm.eq(sl, NULLP)]) == "sat"
                    pending = bool(imm and may)
                elif nm == "disposetokens":
                    if pending:
                        D = True
                    pending = False
                elif nm == "clearloops" or (nm == "parseinput" and drops):
                    D = False; pending = False
            d_exit = d_exit or D
        bad = None
        for s, seq in passes:
            D = d_exit           # worst case a previous pass can leave behind
            for e in seq:
                nm = e.name.split("::")[-1]
                if nm == "clearloops" or (nm == "parseinput" and drops):
                    D = False
                elif nm == "exec":
                    nexec += 1
                    if D:
                        bad = text_of(PB, e.node)
        good = bad is None
        if twin:
            good = not good
        r.add("%s.exec_is_never_entered_while_a_loop_record_points_into_a_released_token_list" % d, DISCHARGED if good else FAILED, "symex+ghost", 0,
              "" if good else "a pass that executes an un-numbered line containing %s ends with the record still on the loop stack and its tokens released by disposetokens(&buf); "
              "the next pass enters exec() (un-numbered NEXT / WEND / RETURN) which resumes at the released token (use after free)" % "/".join(may), kind="safety")
    reach(r, "reach.exec_calls_in_the_line_loops", nexec, 4)
    r.assumptions += ["statement executors other than %s push no loop record; exec() pushes records only through them" % ", ".join(PUSHERS),
                      "disposetokens(&buf) releases every token of the line (unit C17 parse / listtokens do not cover this; read from the code)",
                      "one arbitrary pass of the line loop of each driver; the ghost flag is the only state carried between passes",
                      "phreeqci_gui == false"]
    _core.PENDING.heads = []
    return r


def unit_null_exec(twin=False):
    r = unit_null("exec", twin)
    r.id = "C08.basic_null.exec.statement_and_line_pointers_tested_before_use"
    r.assumptions.append("exec: one arbitrary pass of the line loop; the exception handler (catch arm) is not executed by the engine: its reads of stmtline->num for the "
                         "escape codes -4..-8 are outside this contract (no code raises those codes)")
    return r
