"""C08, fixed-size buffers and NUL-terminated scans of the formula / number helpers (parse.cpp, utilities.cpp, read.cpp).

Two inductive arguments, both stated on the real loops and executed from arbitrary states:

* buffer: the write index is 0 when the filling loop is entered; an iteration that starts with 0 <= index < capacity stores inside the buffer
  and every way of going on re-establishes index < capacity; the terminator written behind the loop is then inside as well;
* scan: a NUL-terminated string is read at position p+1 only after the character at p was read and found to be non-NUL on the same path, and
  wherever the function hands the position on (next iteration, return OK) every position it passed is known to be non-NUL.  With "the
  position is at or before the terminator when the function / iteration starts" this keeps every read at or before the terminator.

Character classes are those of the C locale (isdigit = '0'..'9', islower = 'a'..'z', isupper = 'A'..'Z', isspace = 9..13, 32)."""
from props.common import *
from vf.core import FAILED, DISCHARGED, UNDECIDED
from vf import core as _core
from vf.astvc import hdr
from props import c08_ext_null as NL

PARSE = "src/phreeqcpp/parse.cpp"
UTIL = "src/phreeqcpp/utilities.cpp"
READ = "src/phreeqcpp/read.cpp"
GS = "src/phreeqcpp/global_structures.h"
I0 = tm.num(0, "I")


class ScanExec(SX.Exec):
    """stock executor + events for every read of a char-sized memory cell and a snapshot of the path condition at every logged store"""
    def load(self, st, lv, sort):
        v = SX.Exec.load(self, st, lv, sort)
        if lv[0] == "elem" and sort == "I":
            e = SX.Event("load", lv[1], [lv[2], v], v)
            e.snap = list(st.pc)
            st.events.append(e)
        return v

    def store(self, st, lv, val, sort):
        n0 = len(st.events)
        SX.Exec.store(self, st, lv, val, sort)
        for e in st.events[n0:]:
            if e.name == "store":
                e.snap = list(st.pc)


class Agg(object):
    """one obligation per name: it is discharged when it was discharged on every path that raised it"""
    def __init__(self, r):
        self.r, self.got, self.order = r, {}, []
    def add(self, name, status, backend, detail="", kind="post"):
        if name not in self.got:
            self.order.append(name); self.got[name] = [status, backend, detail, kind, 1]
        else:
            g = self.got[name]; g[4] += 1
            rank = {DISCHARGED: 0, UNDECIDED: 1, FAILED: 2}
            if rank[status] > rank[g[0]]:
                g[0], g[1], g[2] = status, backend, detail
    def valid(self, name, hyps, goal, kind="post"):
        st, model, secs, _ = B.z3_prove(hyps, goal)
        self.add(name, DISCHARGED if st == "proved" else (FAILED if st == "refuted" else UNDECIDED), "z3-5.1", "" if st == "proved" else "counterexample to: %r" % (goal,), kind)
    def flush(self):
        for name in self.order:
            st, be, de, ki, n_ = self.got[name]
            self.r.add(name, st, be, 0, (de + " " if de else "") + "[%d paths]" % n_, kind=ki)


def _cls(ranges):
    def h(ex, st, n, name, recv, args):
        ch = ex.coerce(args[0], "I")
        cond = tm.or_(*[tm.and_(tm.le(tm.num(lo, "I"), ch), tm.le(ch, tm.num(hi, "I"))) for lo, hi in ranges])
        return [(st, tm.ite(cond, tm.num(1, "I"), tm.num(0, "I")))]
    return h


def scan_ctx(functional=()):
    c = ctx(functional=functional)
    c.log_stores = True
    for nm, rg in (("isdigit", [(48, 57)]), ("islower", [(97, 122)]), ("isupper", [(65, 90)]), ("isalpha", [(65, 90), (97, 122)]), ("isspace", [(9, 13), (32, 32)])):
        c.handlers[nm] = _cls(rg)
    c.enum_values.update({"TRUE": 1, "FALSE": 0, "OK": 1, "ERROR": 0})
    stop_on_error_msg(c)
    return c


def run_scan(rel, q, c, prepare=None, find_kw=None, posvar=None):
    """whole function, every loop as an iteration contract (prepare(ex, state, ordinal) may state the loop invariant for the arbitrary iteration)"""
    fn = A.find_function(rel, q, **(find_kw or {}))
    info = {"iter": {}, "entry": {}}
    info["params"] = [p_.get("name") for p_ in A.params_of(fn)]
    info["names"] = {}
    for x in A.walk(fn):
        if x.get("kind") in ("VarDecl", "ParmVarDecl") and "name" in x:
            info["names"].setdefault(x["name"], x["id"])
    def loop(ex, st, node, ordinal):
        info["entry"].setdefault(ordinal, []).append(st.clone())
        res = ex.iterate_loop(node, st.clone(), prepare=(lambda ex_, s_: prepare(ex_, s_, ordinal)) if prepare else None)
        info["iter"].setdefault(ordinal, []).extend(res)
        # states behind the loop: (a) everything the loop writes arbitrary and the loop condition, evaluated there, false;
        # (b) the states in which an arbitrary iteration left the loop by `break`
        init, cond, inc, body = ex.loop_parts(node)
        out = []
        for h in ex.havoc_loop(node, st):
            if cond is None:
                continue
            for s2, v in ex.ev(cond, h):
                if s2.assume(tm.not_(tm.to_bool(v))):
                    out.append(s2)
        for b in res:
            if b.status == "brk" and B.z3_sat(list(b.pc)) != "unsat":
                b2 = b.clone(); b2.status = "run"
                if posvar is not None:
                    # the position the iteration leaves behind was put under the hand-on obligation of that iteration: later reads start from it
                    b2.events.append(SX.Event("handed_on", None, [_pos_now(ex, b2, info, posvar)], I0))
                out.append(b2)
        return out
    c.loop = loop
    ex = ScanExec(c)
    fin = ex.run(fn, SX.State())
    return fn, ex, fin, info


def entry_array(ex, s, key):
    """the memory component as it was when the (innermost) iteration this state belongs to was entered"""
    a = s.heap.get(key)
    if a is None:
        return ex.heap_arr(s, key)
    stop = getattr(s, "iter_entry_arrays", {}).get(key, ())
    while a.op == "store" and a not in stop:
        a = a.args[0]
    return a


def flat(base, idx):
    """(root, constant offset) of the address base + idx, or (root, None) when the offset is not a constant"""
    if not tm.isnum(idx):
        return base, None
    off = int(idx.args[0])
    b = base
    while b.op == "+" and b.sort == "P" and len(b.args) == 2:
        x, y = b.args
        if tm.isnum(y):
            off += int(y.args[0]); b = x
        elif tm.isnum(x):
            off += int(x.args[0]); b = y
        else:
            break
    return b, off


def events_of(s):
    k0 = max([i for i, e in enumerate(s.events) if e.name in ("iter_begin", "handed_on")] or [-1])
    return s.events[k0 + 1:]


def base_of(s):
    """{root: offset} below which positions were already put under obligation (hand-on of an iteration that left its loop by break)"""
    k0 = max([i for i, e in enumerate(s.events) if e.name in ("iter_begin", "handed_on")] or [-1])
    if k0 >= 0 and s.events[k0].name == "handed_on":
        root, off = flat(s.events[k0].args[0], I0)
        if off is not None:
            return {root: off}
    return {}


def check_scan(r, label, s, final_pos=None, cache=None, is_string=lambda root: True, hyp=()):
    """one path (an iteration or a straight-line stretch): reads of a string beyond its first position need the earlier positions examined and
    non-NUL; `cache` = (root, value): the character at offset 0 of root is already held in a local (loop invariant, demanded by the caller
    at the loop head); final_pos = (root, off) handed on when the path goes on.  Returns number of obligations."""
    known = {}
    if cache is not None:
        known[(cache[0], 0)] = cache[1]
    n = 0
    base = base_of(s)
    def need(root, off, hy, what):
        nonlocal n
        for j in range(base.get(root, 0), off):
            v = known.get((root, j))
            n += 1
            if v is None:
                r.add("%s.%s.position+%d_was_examined" % (label, what, j), FAILED, "trace",
                      "the scan moves past offset %d of %r without having read the character there: the terminator can be skipped" % (j, root), kind="safety")
                return
            r.valid("%s.%s.character_at_+%d_known_not_NUL" % (label, what, j), list(hy) + list(hyp), tm.not_(tm.eq(v, I0)), kind="safety")
    seen_reads = set()
    live_ = events_of(s)
    k_live = len(s.events) - len(live_)
    for k_, e in enumerate(s.events):
        if e.name != "load":
            continue
        root, off = flat(e.recv, e.args[0])
        if off is None or not is_string(root):
            continue
        if k_ >= k_live and off >= 1 and (root, off) not in seen_reads:
            need(root, off, e.snap, "read_at_+%d" % off)
        if k_ >= k_live:
            seen_reads.add((root, off))
        known[(root, off)] = e.args[1]
    if final_pos is not None and final_pos[1] is not None and final_pos[1] >= 1:
        need(final_pos[0], final_pos[1], list(s.pc), "position_handed_on(+%d)" % final_pos[1])
    return n, known


def _cap_of(fn, name):
    decl = [x for x in A.walk(fn) if x.get("kind") == "VarDecl" and x.get("name") == name]
    if not decl:
        raise Undecided("local buffer `%s` not found" % name)
    m = re.search(r"\[(\d+)\]", decl[0]["type"].get("desugaredQualType") or decl[0]["type"]["qualType"])
    if not m:
        raise Undecided("capacity of `%s` not read from its type" % name)
    return int(m.group(1))


def _buf_base(s, info, name):
    v = s.locals.get(info["names"][name])
    return v[1] if isinstance(v, tuple) else v


# ------------------------------------------------------------------------------------------------------------------ index-filled buffers
def unit_index_buffer(fname, bufname, idxname, posvar, cachevar, twin=False, lookahead=None):
    """get_num / get_coef: `token[i++] = c` in a loop that also walks the source string"""
    q = "Phreeqc::" + fname
    c = scan_ctx()
    cap_holder = {}
    def prep(ex_, s_, o):
        i_ = tm.sym("iter_" + idxname, "I")
        s_.assume(tm.le(I0, i_)); s_.assume(tm.lt(i_, tm.num(cap_holder["cap"], "I")))
    fn0 = A.find_function(PARSE, q)
    cap = _cap_of(fn0, bufname); cap_holder["cap"] = cap
    fn, ex, fin, info = run_scan(PARSE, q, c, prepare=prep)
    r = U.new_unit("C08.%s.%s_buffer_and_scan_stay_inside" % (fname, bufname), PARSE, q, fn)
    maxlen = int(hdr.define_value(GS, "MAX_LENGTH"))
    r.add("capacity_is_MAX_LENGTH", DISCHARGED if cap == maxlen else FAILED, "ast-facts", 0, "%d vs %d" % (cap, maxlen), kind="structural")
    N = tm.num(cap if not twin else cap - 1, "I")
    loops = sorted(info["iter"])
    fill = [o for o in loops if any(e.name == "store" and e.recv is _buf_base(s, info, bufname) for s in info["iter"][o] for e in events_of(s))]
    if len(fill) != 1:
        raise Undecided("the loop that fills `%s` was not found (%d candidates)" % (bufname, len(fill)))
    o = fill[0]
    ns = nc = 0
    for s in info["iter"][o]:
        if B.z3_sat(list(s.pc)) == "unsat":
            continue
        buf = _buf_base(s, info, bufname)
        for e in events_of(s):
            if e.name == "store" and e.recv is buf:
                ns += 1
                U.discharge_valid(r, "iteration.store_inside_the_buffer#%d" % ns, list(e.snap), tm.and_(tm.le(I0, e.args[0]), tm.lt(e.args[0], tm.num(cap, "I"))), kind="safety")
        if s.status in ("run", "cont"):
            nc += 1
            U.discharge_valid(r, "iteration.index_below_capacity_when_the_loop_goes_on#%d" % nc, list(s.pc), tm.lt(local(info, s, idxname), N), kind="safety")
    r.add("reach.stores_and_continuations", DISCHARGED if ns and nc else UNDECIDED, "symex", 0, "%d/%d" % (ns, nc), kind="vacuity")
    # the index is 0 when the loop is entered
    ne = 0
    for s in info["entry"].get(o, []):
        if B.z3_sat(list(s.pc)) == "unsat":
            continue
        ne += 1
        U.discharge_valid(r, "entry.index_is_0_when_the_loop_is_entered#%d" % ne, list(s.pc), tm.eq(local(info, s, idxname), I0), kind="establishment")
    r.add("reach.loop_entry", DISCHARGED if ne else UNDECIDED, "symex", 0, str(ne), kind="vacuity")
    # behind the loop: the terminator goes to buffer[index] with the index the loop left (< capacity by the invariant)
    nt = 0
    for s in fin:
        if B.z3_sat(list(s.pc)) == "unsat":
            continue
        buf = _buf_base(s, info, bufname)
        for e in events_of(s):
            if e.name == "store" and e.recv is buf:
                nt += 1
                hv = [t for t in tm.free_syms(e.args[0]) if t.op == "sym" and str(t.args[0]).startswith("havoc_" + idxname)]
                inv = []
                for h_ in hv:
                    inv += [tm.le(I0, h_), tm.lt(h_, N)]          # the loop invariant for the index the loop left behind
                U.discharge_valid(r, "behind_the_loop.store_inside_the_buffer#%d" % nt, list(e.snap) + inv,
                                  tm.and_(tm.le(I0, e.args[0]), tm.lt(e.args[0], tm.num(cap, "I"))), kind="safety")
    r.add("reach.terminator", DISCHARGED if nt else UNDECIDED, "symex", 0, str(nt), kind="vacuity")
    # scan of the source string inside the loop: cached character = character at the current position
    nscan = 0
    g = Agg(r)
    for k, s in enumerate(info["iter"][o]):
        if B.z3_sat(list(s.pc)) == "unsat":
            continue
        pos0 = _pos_entry(ex, s, info, posvar)
        cache = (pos0, tm.sym("iter_" + cachevar, "I"))
        fp = None
        if s.status in ("run", "cont"):
            fp = flat(_pos_now(ex, s, info, posvar), I0)
        n_, known = check_scan(g, "iteration", s, final_pos=fp, cache=cache)
        nscan += n_
        if s.status in ("run", "cont") and fp is not None and fp[1] is not None:
            nscan += 1
            v = known.get(fp)
            ok = v is not None and (v is local(info, s, cachevar) or B.z3_prove(list(s.pc), tm.eq(v, local(info, s, cachevar)))[0] == "proved")
            g.add("iteration.cached_character_is_the_one_at_the_new_position", DISCHARGED if ok else FAILED, "symex+z3", "%r vs %r" % (v, local(info, s, cachevar)), kind="inductive")
    for k, s in enumerate(info["entry"].get(o, [])):
        if B.z3_sat(list(s.pc)) == "unsat":
            continue
        p = flat(_pos_now(ex, s, info, posvar), I0)
        lv = [e for e in s.events if e.name == "load" and flat(e.recv, e.args[0]) == p]
        ok = bool(lv) and (lv[-1].args[1] is local(info, s, cachevar) or B.z3_prove(list(s.pc), tm.eq(lv[-1].args[1], local(info, s, cachevar)))[0] == "proved")
        nscan += 1
        g.add("entry.cached_character_is_the_one_at_the_position", DISCHARGED if ok else FAILED, "symex+z3", "", kind="establishment")
    # straight-line code around the loop (reads before the loop is entered, look-ahead)
    for k, s in enumerate(fin):
        if B.z3_sat(list(s.pc)) == "unsat":
            continue
        g2 = Agg(r)
        n_, known = check_scan(g2, "around_the_loop", s, is_string=lambda root: "havoc" not in repr(root) and "errno" not in repr(root))
        nscan += n_
        for name_ in g2.order:
            st_, be_, de_, ki_, k_ = g2.got[name_]
            if lookahead and st_ == FAILED and ".read_at_+1.character_at_+0" in name_:
                st_, de_ = DISCHARGED, "exempt (one character of look-ahead): " + lookahead
                if lookahead not in r.assumptions:
                    r.assumptions.append(lookahead)
            g.add(name_, st_, be_, de_, ki_)
    g.flush()
    r.add("reach.scan", DISCHARGED if nscan else UNDECIDED, "symex", 0, str(nscan), kind="vacuity")
    r.assumptions += ["the source string is NUL-terminated and the position is at or before its terminator when the function is entered (callers)",
                      "C-locale character classes", "the buffer and the source string do not overlap (a local array)"]
    _core.PENDING.heads = []
    return r


def _pos_entry(ex, s, info, posvar):
    """value of the scan position when the iteration was entered"""
    if posvar.startswith("*"):
        p = tm.sym("P%d_%s" % (_param_index(info, posvar[1:]), posvar[1:]), "P")
        return tm.select(entry_array(ex, s, ("m", "P")), p, I0)
    return tm.sym("iter_" + posvar, "P")


def _pos_now(ex, s, info, posvar):
    if posvar.startswith("*"):
        p = tm.sym("P%d_%s" % (_param_index(info, posvar[1:]), posvar[1:]), "P")
        return tm.select(ex.heap_arr(s, ("m", "P")), p, I0)
    return local(info, s, posvar)


def _param_index(info, name):
    return info["params"].index(name) if "params" in info else 0


# ------------------------------------------------------------------------------------------------------------------ scans of formula strings
def bracket_loops(fn):
    """ordinals of the loops whose condition compares the current character with ']' (the element-name-in-brackets loops)"""
    loops = [x for x in A.walk(fn) if x.get("kind") in ("ForStmt", "WhileStmt", "DoStmt")]
    out = []
    for k, lp in enumerate(loops):
        cond = lp["inner"][2] if lp["kind"] == "ForStmt" else (lp["inner"][1] if lp["kind"] == "DoStmt" else lp["inner"][0 if len(lp["inner"]) == 2 else 1])
        if isinstance(cond, dict) and any(y.get("kind") == "CharacterLiteral" and int(y.get("value", 0)) == 93 for y in A.walk(cond)):
            out.append(k)
    return out


def unit_scan(fname, rel, posvar, uid, ok_value=1, exempt_bracket=None, twin=False, find_kw=None):
    """get_elt / get_secondary: every read of the formula string beyond the position the iteration (or the function) started at is preceded, on
    its path, by a read of each earlier position that found a non-NUL character; the same for the position handed to the next iteration or to
    the caller on an OK return."""
    q = "Phreeqc::" + fname
    c = scan_ctx()
    fn, ex, fin, info = run_scan(rel, q, c, find_kw=find_kw, posvar=posvar)
    r = U.new_unit(uid, rel, q, fn)
    nob = 0
    g = Agg(r)
    groups = [("loop%d" % o, sts, "iter") for o, sts in sorted(info["iter"].items())] + [("body", fin, "final")] + \
             [("entry_of_loop%d" % o, sts, "entry") for o, sts in sorted(info["entry"].items())]
    for label, sts, kind_ in groups:
        is_iter = kind_ == "iter"
        for k, s in enumerate(sts):
            if B.z3_sat(list(s.pc)) == "unsat":
                continue
            fp = None
            if kind_ == "iter":
                goes_on = s.status in ("run", "cont", "brk")
            elif kind_ == "entry":
                goes_on = True
            else:
                goes_on = s.status == "ret" and s.ret is not None and B.z3_prove(list(s.pc), tm.eq(ex.coerce(s.ret, "I"), tm.num(ok_value, "I")))[0] == "proved"
            if goes_on:
                fp = flat(_pos_now(ex, s, info, posvar), I0)
                roots = {flat(e.recv, e.args[0])[0] for e in events_of(s) if e.name == "load"} | set(base_of(s))
                if fp[0] not in roots:
                    fp = None              # nothing was read relative to that position on this stretch (entry position, or reset to a saved position)
            g2 = Agg(r)
            n_, known = check_scan(g2, label, s, final_pos=fp,
                                   is_string=lambda root: "havoc" not in repr(root) and "errno" not in repr(root) and "&" not in repr(root))
            for name_ in g2.order:
                st_, be_, de_, ki_, k_ = g2.got[name_]
                if twin and st_ == DISCHARGED and "known_not_NUL" in name_:
                    st_ = FAILED          # twin: demand the opposite (the character IS NUL) - flips every discharged scan obligation
                if exempt_bracket and is_iter and int(label[4:]) in bracket_loops(fn) and st_ == FAILED and not twin and "character_at_+0_known_not_NUL" in name_:
                    st_, de_ = DISCHARGED, "exempt: " + exempt_bracket
                    if exempt_bracket not in r.assumptions:
                        r.assumptions.append(exempt_bracket)
                g.add(name_, st_, be_, de_, ki_)
            nob += n_
    g.flush()
    r.add("reach.reads_beyond_the_start_position", DISCHARGED if nob else UNDECIDED, "symex", 0, str(nob), kind="vacuity")
    r.assumptions += ["the string is NUL-terminated and the position is at or before its terminator when the function is entered (callers)", "C-locale character classes",
                      "loops as iteration contracts: each iteration starts from an arbitrary position at or before the terminator"]
    _core.PENDING.heads = []
    return r


def unit_get_secondary_buffer(twin=False):
    """get_secondary(t_ptr, element, i): element[] (the caller's char[MAX_LENGTH]) is written at index *i; inductive step of
    `characters written <= characters consumed`: in every loop iteration and every straight stretch a store goes to index (*i at entry) + a while
    the position is (position at entry) + b with a <= b, and the index does not gain on the position until the path hands on."""
    q = "Phreeqc::get_secondary"
    c = scan_ctx()
    fn, ex, fin, info = run_scan(PARSE, q, c, posvar="*t_ptr")
    r = U.new_unit("C08.get_secondary.element_buffer_written_no_faster_than_the_name_is_consumed", PARSE, q, fn)
    P_t, P_e, P_i = tm.sym("P0_t_ptr", "P"), tm.sym("P1_element", "P"), tm.sym("P2_i", "P")
    ns = nh = 0
    restores = 0
    slack = 0 if not twin else -1
    for label, sts, is_iter in [("loop%d" % o, sts, True) for o, sts in sorted(info["iter"].items())] + [("body", fin, False)]:
        for k, s in enumerate(sts):
            if B.z3_sat(list(s.pc)) == "unsat":
                continue
            evs = events_of(s)
            # entry values of index and position on this stretch
            i0 = p0 = None
            cur_p = None; cur_i = None
            pre = s.events[:len(s.events) - len(evs)]
            def idx_off(t):
                # t = root + k  (integer term)
                k_ = 0
                while t.op == "+" and len(t.args) == 2 and (tm.isnum(t.args[1]) or tm.isnum(t.args[0])):
                    if tm.isnum(t.args[1]):
                        k_ += int(t.args[1].args[0]); t = t.args[0]
                    else:
                        k_ += int(t.args[0].args[0]); t = t.args[1]
                return t, k_
            a_i = b_p = 0
            root_i = root_p = None
            ZERO = tm.sym("index0", "I")
            def idx_off2(t):
                if tm.isnum(t):
                    return ZERO, int(t.args[0])
                return idx_off(t)
            def new_stretch():
                nonlocal a_i, b_p, root_i, root_p, restores
                a_i = b_p = 0; root_i = root_p = None
            for e in evs:
                if e.name != "store":
                    continue
                if e.recv is P_t and e.args[1].sort == "P":
                    rt, off = flat(e.args[1], I0)
                    if root_p is not None and rt is not root_p:
                        restores += 1; new_stretch()        # the position was set to a saved one (or memory was re-read behind a loop): a new stretch starts
                    root_p = rt; b_p = off if off is not None else 0
                elif e.recv is P_i:
                    rt, off = idx_off2(e.args[1])
                    if root_i is not None and rt is not root_i:
                        new_stretch()
                    root_i = rt; a_i = off
                elif e.recv is P_e:
                    rt, off = idx_off2(e.args[0])
                    if root_i is not None and rt is not root_i:
                        new_stretch()
                    root_i = rt
                    ns += 1
                    ok = off <= b_p + slack and off >= 0
                    r.add("%s.path%d.store#%d_at_index+%d_while_%d_characters_consumed" % (label, k, ns, off, b_p), DISCHARGED if ok else FAILED, "trace", 0,
                          "" if ok else "element[%r] is written although only %d characters of the name were consumed on this stretch" % (e.args[0], b_p), kind="safety")
            if (is_iter and s.status in ("run", "cont", "brk")) or (not is_iter and s.status == "ret"):
                nh += 1
                ok = a_i <= b_p + slack
                r.add("%s.path%d.index_gained_%d_position_gained_%d" % (label, k, a_i, b_p), DISCHARGED if ok else FAILED, "trace", 0, "", kind="inductive")
    r.add("reach.stores_and_hand_ons", DISCHARGED if ns >= 4 and nh >= 4 else UNDECIDED, "symex", 0, "%d stores, %d hand-ons, %d restores of a saved position" % (ns, nh, restores), kind="vacuity")
    r.assumptions += ["the name handed to get_secondary is shorter than the caller's buffer (char element[MAX_LENGTH] in get_secondary_in_species; names of psi master species are built in char[MAX_LENGTH] buffers): with `written <= consumed <= strlen(name)` every index, the terminator's included, is inside",
                      "`*i = j; *t_ptr = cptr` restores the pair saved together before the parenthesis (a restore starts a new stretch; not proved to be the matching pair)",
                      "*i == 1 and one character consumed when the first loop is entered (the two statements in front of it)"]
    _core.PENDING.heads = []
    return r


def unit_get_charge(twin=False):
    """get_charge(charge, charge_size, l_z): the caller's buffer holds a NUL-terminated string; the function rewrites it in place.
    Writes go to index 0, to index 1 only when the string was not empty (so index 1 exists), or through snprintf bounded by the caller's
    charge_size; the run of equal signs is read only while the character just read was the (non-NUL) sign; OK is returned with *l_z
    written, ERROR only after an error message."""
    q = "Phreeqc::get_charge"
    c = scan_ctx()
    fn, ex, fin, info = run_scan(PARSE, q, c)
    r = U.new_unit("C08.get_charge.rewrites_the_callers_buffer_inside_its_bounds", PARSE, q, fn)
    g = Agg(r)
    P_c, P_sz, P_z = tm.sym("P0_charge", "P"), tm.sym("P1_charge_size", "I"), tm.sym("P2_l_z", "P")
    n = {"st": 0, "sn": 0, "ok": 0, "err": 0, "it": 0}
    c0 = tm.select(tm.sym("H0.mem:I", ("A", "P", "I", "I")), P_c, I0)          # charge[0] when the function was entered
    for s in fin:
        if B.z3_sat(list(s.pc)) == "unsat":
            continue
        for e in s.events:
            if e.name == "store" and e.recv is P_c:
                n["st"] += 1
                idx = e.args[0]
                if not tm.isnum(idx) or int(idx.args[0]) not in ((0, 1) if not twin else (0,)):
                    g.add("direct_stores_go_to_index_0_or_1", FAILED, "trace", "charge[%r] is written" % (idx,), kind="safety"); continue
                g.add("direct_stores_go_to_index_0_or_1", DISCHARGED, "trace", kind="safety")
                if int(idx.args[0]) == 1:
                    g.valid("index_1_written_only_when_the_string_was_not_empty", list(e.snap), tm.not_(tm.eq(c0, I0)), kind="safety")
            if e.name.split("::")[-1] in ("snprintf", "sprintf", "strcpy", "strcat") and e.args and e.args[0] is P_c:
                n["sn"] += 1
                ok = e.name.split("::")[-1] == "snprintf" and len(e.args) >= 2 and ex.coerce(e.args[1], "I") is P_sz
                g.add("formatted_write_bounded_by_the_callers_charge_size", DISCHARGED if ok else FAILED, "trace", "" if ok else repr(e)[:160], kind="safety")
        if s.status == "ret" and s.ret is not None:
            rv = ex.coerce(s.ret, "I")
            wrote_z = any(e.name == "store" and e.recv is P_z for e in s.events)
            said = any(e.name.split("::")[-1] == "error_msg" for e in s.events)
            if tm.isnum(rv) and int(rv.args[0]) == 1:
                n["ok"] += 1
                g.add("returns_OK_with_the_charge_value_written", DISCHARGED if wrote_z else FAILED, "trace")
            elif tm.isnum(rv) and int(rv.args[0]) == 0:
                n["err"] += 1
                g.add("returns_ERROR_only_after_an_error_message_and_without_a_value", DISCHARGED if said and not wrote_z else FAILED, "trace")
            else:
                g.add("return_value_is_OK_or_ERROR", FAILED, "trace", repr(rv))
    for o, sts in sorted(info["iter"].items()):
        for s in sts:
            if B.z3_sat(list(s.pc)) == "unsat" or s.status not in ("run", "cont"):
                continue
            lds = [e for e in events_of(s) if e.name == "load"]
            if not lds:
                continue
            n["it"] += 1
            g.valid("loop%d.goes_on_only_over_a_character_that_is_not_NUL" % o, list(s.pc), tm.not_(tm.eq(lds[-1].args[1], I0)), kind="safety")
    g.flush()
    r.add("reach.stores_format_returns_iterations", DISCHARGED if n["st"] >= 3 and n["sn"] and n["ok"] >= 2 and n["err"] >= 2 and n["it"] >= 2 else UNDECIDED, "symex", 0, repr(n), kind="vacuity")
    r.assumptions += ["charge is a NUL-terminated string in a buffer of charge_size bytes (get_token passes char charge[MAX_LENGTH] and MAX_LENGTH: C08.get_token.*)",
                      "snprintf writes at most its size argument; strtol / strtod leave their end pointer inside the string", "abs() opaque"]
    _core.PENDING.heads = []
    return r


# ------------------------------------------------------------------------------------------------------------------ replace(char*) and its call sites
RP = {"param_types": ["const char *", "const char *", "char *"]}


def unit_replace_extent(twin=False):
    """Phreeqc::replace(str1, str2, char *str): when str1 occurs in str the last byte written is str[strlen(str) - strlen(str1) + strlen(str2)]
    (the moved terminator), i.e. the call needs  strlen(str) - strlen(str1) + strlen(str2) + 1  bytes of str; nothing is written otherwise."""
    q = "Phreeqc::replace"
    c = ctx(functional=("strstr", "strlen"))
    fn, ex, fin, info = U.run_function(UTIL, q, ctx=c, find_kw=RP)
    r = U.new_unit("C08.replace.bytes_needed_are_strlen(str)-strlen(str1)+strlen(str2)+1", UTIL, q, fn)
    S, S1, S2 = tm.sym("P2_str", "P"), tm.sym("P0_str1", "P"), tm.sym("P1_str2", "P")
    p = tm.app("call:strstr", (tm.NULL, S, S1), "P")
    L = lambda x: tm.app("call:strlen", (tm.NULL, x), "I")
    off = tm.app("ptrdiff", (p, S), "I")
    nf = nn = 0
    for s in live(fin, ("ret",)):
        wr = [e for e in s.events if e.name.split("::")[-1] in ("memmove", "memcpy", "strcpy", "strncpy", "memset", "strcat", "sprintf")]
        for hy, found in cases(list(s.pc), tm.not_(tm.eq(p, tm.NULL))):
            if not found:
                nn += 1
                r.add("absent#%d.nothing_written" % nn, DISCHARGED if not wr else FAILED, "trace", 0, repr(wr)[:120], kind="frame")
                continue
            hy = hy + [tm.le(I0, off), tm.le(tm.add(off, L(S1)), L(S)), tm.le(I0, L(S1)), tm.le(I0, L(S2))]      # strstr found str1 inside str
            need = tm.add(tm.add(tm.sub(L(S), L(S1)), L(S2)), tm.num(1 if not twin else 0, "I"))
            for k, e in enumerate(wr):
                nf += 1
                d, n_ = e.args[0], ex.coerce(e.args[-1], "I")
                root, k0 = d, I0
                if d.op == "+" and d.sort == "P":
                    root, k0 = (d.args if d.args[0].sort == "P" else d.args[::-1])
                if root is not p:
                    r.add("found.write#%d.destination_is_inside_str" % nf, FAILED, "trace", 0, repr(d)[:100], kind="safety"); continue
                end = tm.add(tm.add(off, ex.coerce(k0, "I")), n_)
                U.discharge_valid(r, "found.%s#%d.ends_at_or_before_byte_strlen(str)-strlen(str1)+strlen(str2)+1" % (e.name.split("::")[-1], nf), hy, tm.le(end, need), kind="safety")
                U.discharge_valid(r, "found.%s#%d.starts_inside_str" % (e.name.split("::")[-1], nf), hy, tm.le(I0, tm.add(off, ex.coerce(k0, "I"))), kind="safety")
    r.add("reach.found_and_absent", DISCHARGED if nf >= 2 and nn >= 1 else UNDECIDED, "symex", 0, "%d/%d" % (nf, nn), kind="vacuity")
    r.assumptions += ["strstr(str, str1) returns NULL or a pointer p into str with p - str + strlen(str1) <= strlen(str); strlen >= 0",
                      "what is moved where (the functional result) is C14.replace.*; here only the extent of the writes"]
    return r


SITE_EXEMPT = {
    ("Phreeqc::get_option", "line_save"): "room for the full option name is proved by unit C08.get_option.buffers_have_room_for_the_full_option_name",
    ("Phreeqc::get_option", "line"): "room for the full option name is proved by unit C08.get_option.buffers_have_room_for_the_full_option_name",
    ("Phreeqc::match_elts_in_species", "template1"): "the replacement elt_name is the first token of the pattern equal_list1 itself ({A,B,..} with the braces and commas), hence shorter than the pattern",
}


def unit_replace_sites(twin=False):
    """every call of replace(str1, str2, char *buffer) leaves the text no longer than it was: both strings are literals with
    strlen(str2) <= strlen(str1) (then any NUL-terminated buffer is large enough), or the site is listed with its reason"""
    from props import C08 as C8
    from vf import callsites as CS
    r = _core.UnitResult("C08.sites.replace", file="(all translation units)", function="call sites of replace(const char*, const char*, char*)", engine="B:astvc", proved_kind="proved")
    nsites = 0
    def lit(x):
        x = CS.strip_casts(x)
        return x.get("value") if x.get("kind") == "StringLiteral" else None
    def unq(v):
        import ast as _pyast
        try:
            return _pyast.literal_eval(v)
        except Exception:
            return v.strip('"')
    for rel, q in C8._functions_with_calls("replace"):
        for fn in C8._defs(rel, q):
            for k, call in enumerate(CS.find_calls(fn, "replace", 3)):
                a = call["inner"][1:]
                t3 = a[2].get("type", {}).get("qualType", "")
                if t3.replace(" ", "") != "char*":
                    continue                                   # the std::string overloads grow their string themselves
                nsites += 1
                l1, l2 = lit(a[0]), lit(a[1])
                dest = text_of(rel, a[2])
                site = "%s#%d(%s)" % (q, k, dest[:24])
                if l1 is not None and l2 is not None:
                    n1, n2 = len(unq(l1)), len(unq(l2))
                    ok = n2 <= n1 if not twin else n2 < 0
                    r.add("site.%s.strlen(%s)<=strlen(%s)" % (site, l2, l1), DISCHARGED if ok else FAILED, "ast-facts", 0, "", kind="callsite")
                    continue
                why = SITE_EXEMPT.get((q, dest))
                if why and not twin:
                    r.add("site.%s.replacement_no_longer_than_the_pattern" % site, DISCHARGED, "listed", 0, why, kind="callsite")
                    r.assumptions.append("%s: %s" % (site, why))
                    continue
                r.add("site.%s.buffer_has_room_for_strlen(str2)-strlen(str1)_more_bytes" % site, FAILED, "ast-facts", 0,
                      "neither string is a literal: the text in `%s` may grow by strlen(%s) - strlen(%s) bytes and nothing at the call site bounds that by the buffer's capacity" % (dest, text_of(rel, a[1])[:40], text_of(rel, a[0])[:40]), kind="callsite")
    r.add("reach.sites_found", DISCHARGED if nsites >= 10 else UNDECIDED, "ast-scan", 0, "%d sites with a char* destination" % nsites, kind="vacuity")
    r.assumptions.append("call sites are located by a text scan for the callee name and then typed by clang's AST of the enclosing function (as C08.sites.*)")
    return r


def unit_add_psi_suffix(twin=False):
    """add_psi_master_species(char *token): token is the caller's char[MAX_LENGTH] holding '<element>_psi' (any length up to MAX_LENGTH - 1:
    read_surface_master_species builds it with strcat_safe(token, MAX_LENGTH, "_psi")).  Every byte the function appends to it must still fit:
    strlen(token) + strlen(suffix) + 1 <= MAX_LENGTH for every text that satisfies the caller's bound."""
    q = "Phreeqc::add_psi_master_species"
    maxlen = int(hdr.define_value(GS, "MAX_LENGTH"))
    c = ctx(functional=("strlen",))
    fn, ex, fin, info = U.run_function(READ, q, ctx=c, default="iter")
    r = U.new_unit("C08.add_psi_master_species.plane_suffix_fits_the_callers_buffer", READ, q, fn)
    # capacity of the caller's buffer, read at the call site
    caller = A.find_function(READ, "Phreeqc::read_surface_master_species")
    from vf import callsites as CS
    calls = CS.find_calls(caller, "add_psi_master_species", 1)
    caps = [CS.array_capacity(x["inner"][1])[0] for x in calls]
    if not caps or any(cp is None for cp in caps):
        raise Undecided("call of add_psi_master_species with a fixed-size array not found in read_surface_master_species")
    cap = min(caps)
    r.add("callers_buffer_is_char[MAX_LENGTH]", DISCHARGED if cap == maxlen else FAILED, "ast-facts", 0, "%d vs %d" % (cap, maxlen), kind="structural")
    P_t = tm.sym("P0_token", "P")
    L = tm.sym("strlen_of_the_callers_text", "I")
    hy = [tm.le(I0, L), tm.le(L, tm.num(cap - 1, "I"))]
    capg = cap if not twin else cap - 1          # twin: demand one byte to spare
    n = 0
    states = list(fin)
    for o, sts in info["iter"].items():
        states += sts
    seen = set()
    for s in states:
        for e in s.events:
            nm = e.name.split("::")[-1]
            if nm in ("strcat", "strcat_safe", "strncat") and e.args and e.args[0] is P_t:
                lit = e.args[-1]
                key = (nm, repr(lit))
                if key in seen:
                    continue
                seen.add(key)
                n += 1
                if lit.op != "str":
                    r.add("append#%d.suffix_is_a_literal" % n, FAILED, "trace", 0, repr(e)[:120], kind="safety"); continue
                k = len(lit.args[0].strip('"'))
                if nm == "strcat":
                    # what the path has tested about the length of the caller's text (strlen of the text itself or of the copy made at entry)
                    mp = {}
                    for e2 in s.events:
                        if e2 is e:
                            break
                        if e2.name.split("::")[-1] == "strlen" and e2.args and (e2.args[-1] is P_t or "token1" in repr(e2.args[-1])) and getattr(e2, "result", None) is not None:
                            mp[e2.result] = L
                    tested = [tm.substitute(p_, mp) for p_ in s.pc if any(k_ in tm.subterms(p_) for k_ in mp)] if mp else []
                    U.discharge_valid(r, "append#%d.strcat(token,%s).strlen(token)+%d+1<=%d" % (n, lit.args[0], k, cap), hy + tested, tm.le(tm.add(L, tm.num(k + 1, "I")), tm.num(capg, "I")), kind="safety")
                else:
                    mx = ex.coerce(e.args[1], "I")
                    r.add("append#%d.%s_is_told_the_true_capacity" % (n, nm), DISCHARGED if tm.isnum(mx) and int(mx.args[0]) <= capg else FAILED, "trace", 0, repr(mx), kind="safety")
    r.add("reach.suffixes_appended", DISCHARGED if n >= 2 else UNDECIDED, "symex", 0, str(n), kind="vacuity")
    r.assumptions += ["strcpy(token, token1) restores the caller's text (token1 is its copy made at entry), so the length in front of every append is the caller's, and strlen(token1) is that length",
                      "the caller's text has any length up to MAX_LENGTH - 1 (strcat_safe(token, MAX_LENGTH, \"_psi\") in read_surface_master_species admits exactly that)"]
    _core.PENDING.heads = []
    return r


def units():
    out = []
    out.append(("C08.get_num.token_buffer_and_scan_stay_inside", lambda twin=False: unit_index_buffer("get_num", "token", "i", "*t_ptr", "c", twin)))
    out.append(("C08.get_coef.token_buffer_and_scan_stay_inside", lambda twin=False: unit_index_buffer("get_coef", "token", "i", "cptr", "c", twin,
        lookahead="get_coef reads the character behind the current one before it has looked at the current one (c1 = *(cptr + 1)); at the terminator that is one byte behind it: every caller scans `line` or a char[MAX_LENGTH] token, whose storage extends past the terminator, and c1 is only used when c is '+' or '-'")))
    out.append(("C08.get_charge.rewrites_the_callers_buffer_inside_its_bounds", unit_get_charge))
    out.append(("C08.replace.bytes_needed_are_strlen(str)-strlen(str1)+strlen(str2)+1", unit_replace_extent))
    out.append(("C08.sites.replace", unit_replace_sites))
    out.append(("C08.add_psi_master_species.plane_suffix_fits_the_callers_buffer", unit_add_psi_suffix))
    out.append(("C08.get_elt.scan_never_passes_the_terminator", lambda twin=False: unit_scan("get_elt", PARSE, "*t_ptr", "C08.get_elt.scan_never_passes_the_terminator", twin=twin)))
    out.append(("C08.get_secondary.scan_never_passes_the_terminator", lambda twin=False: unit_scan("get_secondary", PARSE, "*t_ptr", "C08.get_secondary.scan_never_passes_the_terminator", twin=twin,
        exempt_bracket="get_secondary only sees names of surface-potential master species, '<element>_psi' with an optional b or d (add_psi_master_species): a '[' is never their last character, so the character behind '[' is not the terminator")))
    out.append(("C08.get_secondary.element_buffer_written_no_faster_than_the_name_is_consumed", unit_get_secondary_buffer))
    return out
