"""C17 extension: GOTO, GOSUB, RETURN, ON, line lookup."""
from props.c17_ext_model import *
from props.c17_ext_loops import stack_search_iteration, pv, cond_node, is_eos_at_base

LINK0 = tm.sym("P0_LINK", "P")


def unit_findline(twin=False):
    """findline(n) returns the FIRST line record, in program order from linebase, whose number is n, or NULL; mustfindline(n) (library
    build) returns that record and reports 'Undefined line' when there is none."""
    q = "PBasic::findline"
    fn = A.find_function(PB, q)
    r = U.new_unit("C17.findline.first_line_with_that_number", PB, q, fn)
    loops = loops_of(fn)
    if len(loops) != 1:
        raise Undecided("findline: expected one search loop")
    snaps = {}
    f, ex, fin, info = run_fn(q, mkctx(), loop=snap_and_havoc(snaps))
    n_arg = tm.sym("P0_n", "I")
    cur = locals_assigned_in(ex, loops[0])
    if len(cur) != 1:
        raise Undecided("findline: expected one cursor variable assigned in the loop")
    cid = list(cur)[0]
    ne = 0
    for s in alive(snaps.get(0, [])):
        ne += 1
        ok(r, "entry.search_starts_at_the_first_line(linebase)", s.locals.get(cid) is (F0("linebase", "P", THIS) if not twin else F0("stmtline", "P", THIS)), repr(s.locals.get(cid)), kind="establishment")
    f2, ex2, its, info2 = run_iter(q, 0, mkctx())
    ni = 0
    for s in alive(its, ("run", "cont")):
        ni += 1
        l0 = tm.sym("iter_%s" % cur[cid][0], "P")
        hy = hyp(s)
        U.discharge_valid(r, "step.only_past_a_line_whose_number_differs", hy, tm.and_(tm.not_(tm.eq(l0, NULLP)), tm.not_(tm.eq(tm.select(entry_arr(ex2, s, ("f", "num", "I")), l0), tm.sym("L_n", "I")))))
        U.discharge_valid(r, "step.to_the_next_line_record", hy, tm.eq(s.locals[cid], tm.select(entry_arr(ex2, s, ("f", "next", "P")), l0)))
        ok(r, "step.writes_nothing", not any(writes(s, k) for k in s.heap), "", kind="frame")
    nr = 0
    for s in alive(fin, ("ret",)):
        nr += 1
        l1 = s.locals.get(cid)
        ok(r, "result.is_the_record_the_search_stopped_at", s.ret is l1, repr(s.ret))
        U.discharge_valid(r, "result.is_NULL_or_has_the_number_asked_for", hyp(s), tm.or_(tm.eq(l1, NULLP), tm.eq(F(ex, s, "num", "I", l1), n_arg)))
    reach(r, "reach.findline", min(ne, ni, nr))
    # mustfindline
    q3 = "PBasic::mustfindline"
    c3 = mkctx()
    f3, ex3, fin3, info3 = run_fn(q3, c3)
    n_ok = n_err = 0
    for s in alive_lib(fin3):
        fl = evs(s, "findline")
        if not ok(r, "mustfindline.looks_the_number_up_once", len(fl) == 1 and fl[0].args[0] is tm.sym("P0_n", "I"), "%s" % [e.args for e in fl]):
            continue
        if s.status == "throw":
            n_err += 1
            U.discharge_valid(r, "mustfindline.error_only_when_no_such_line", hyp(s), tm.eq(fl[0].result, NULLP))
        elif s.status == "ret":
            n_ok += 1
            ok(r, "mustfindline.returns_the_record_found", s.ret is fl[0].result, repr(s.ret))
            U.discharge_valid(r, "mustfindline.never_returns_NULL(library_build)", hyp(s), tm.not_(tm.eq(s.ret, NULLP)))
    reach(r, "reach.mustfindline", min(n_ok, n_err))
    r.assumptions += ["the search loop is summarised behind it by its exit condition; its body carries the step.* obligations", "library build (phreeqci_gui false)", "errormsg does not return (unit C17.errormsg)",
                      "line numbers of the stored program are unique and ascending (maintained by parseinput; not under this contract)"]
    return r


def unit_cmdgoto(twin=False):
    """GOTO e: the next statement executed is the first one of the line whose number is the value of e rounded to an integer; the rest of
    the current line is abandoned and exec is told not to step to the following line."""
    q = "PBasic::cmdgoto"
    fn = A.find_function(PB, q)
    r = U.new_unit("C17.cmdgoto.target_line_found_by_number", PB, q, fn)
    f, ex, fin, info = run_fn(q, mkctx())
    n = 0
    for s in alive(fin, ("run", "ret")):
        n += 1
        ie = evs(s, "intexpr"); ml = evs(s, "mustfindline")
        if not ok(r, "line_number_expression_evaluated_once_at_the_position_behind_GOTO", len(ie) == 1 and ie[0].args[-1] is F0("t", "P", LINK0), "%d" % len(ie)):
            continue
        ok(r, "line_looked_up_by_that_number", len(ml) == 1 and ml[0].args[0] is ie[0].result, "%s" % [e.args for e in ml])
        ok(r, "current_line:=the_line_found", len(ml) == 1 and F(ex, s, "stmtline", "P", THIS) is (ml[0].result if not twin else F0("stmtline", "P", THIS)), repr(F(ex, s, "stmtline", "P", THIS)))
        pv(r, "rest_of_the_current_line_abandoned(t==NULL)", s, tm.eq(F(ex, s, "t", "P", LINK0), NULLP))
        pv(r, "gotoflag_set(exec_does_not_step_to_the_following_line)", s, F(ex, s, "gotoflag", "B", LINK0))
        ok(r, "loop_stack_untouched", not writes(s, ("f", "loopbase", "P")), "", kind="frame")
    reach(r, "reach.cmdgoto", n)
    r.assumptions += ["intexpr returns an arbitrary integer (rounding: floor(x+0.5), expression units)", "mustfindline: unit C17.findline"]
    return r


def _new_record(s):
    al = [e.result for e in s.events if isinstance(e.result, tm.T) and e.result.sort == "P" and e.result.op == "sym" and tm._fresh_alloc(e.result)]
    return al[0] if len(al) == 1 else None


def unit_cmdgosub(twin=False):
    """GOSUB e: a return record (current line, position behind GOSUB) is pushed on the loop stack, then GOTO e."""
    q = "PBasic::cmdgosub"
    fn = A.find_function(PB, q)
    r = U.new_unit("C17.cmdgosub.pushes_a_return_record_then_jumps", PB, q, fn)
    f, ex, fin, info = run_fn(q, mkctx())
    GS = tm.num(define("gosubloop"), "I")
    n = 0
    for s in alive(fin, ("run", "ret")):
        if any(e.name.endswith("malloc_error") for e in s.events):
            continue
        n += 1
        l = _new_record(s)
        if not ok(r, "one_new_record_allocated", l is not None, ""):
            continue
        ok(r, "record_becomes_the_top_of_the_loop_stack", F(ex, s, "loopbase", "P", THIS) is l, repr(F(ex, s, "loopbase", "P", THIS)))
        pv(r, "record.kind==gosubloop", s, tm.eq(F(ex, s, "kind", "I", l), GS if not twin else tm.num(define("whileloop"), "I")))
        pv(r, "record.next==previous_top", s, tm.eq(F(ex, s, "next", "P", l), F0("loopbase", "P", THIS)))
        pv(r, "record.homeline==line_of_the_GOSUB", s, tm.eq(F(ex, s, "homeline", "P", l), F0("stmtline", "P", THIS)))
        pv(r, "record.hometok==position_behind_GOSUB", s, tm.eq(F(ex, s, "hometok", "P", l), F0("t", "P", LINK0)))
        calls = [e for e in s.events if e.name.split("::")[-1] in ("cmdgoto",) + PARSERS]
        ok(r, "then_one_GOTO_from_the_position_behind_GOSUB,nothing_moved_otherwise", len(calls) == 1 and calls[0].name.endswith("cmdgoto") and calls[0].args[0] is LINK0 and calls[0].args[-1] is F0("t", "P", LINK0)
           and F(ex, s, "stmtline", "P", THIS) is calls[0].snap and F(ex, s, "t", "P", LINK0) is NULLP, "%s" % [e.name for e in s.events])
    reach(r, "reach.cmdgosub", n)
    r.assumptions += ["cmdgoto: unit C17.cmdgoto (called, not inlined)", "a record from PHRQ_calloc is distinct from every existing object", "PHRQ_calloc failure path not under contract"]
    return r


def unit_cmdreturn(twin=False):
    """RETURN: records above the innermost GOSUB record (FOR / WHILE loops left open inside the subroutine) are dropped; an empty stack is an
    error; execution continues at the end of the GOSUB statement that pushed the record, on its line; the record is dropped."""
    q = "PBasic::cmdreturn"
    fn = A.find_function(PB, q)
    r = U.new_unit("C17.cmdreturn.pops_to_the_innermost_GOSUB_and_resumes_behind_it", PB, q, fn)
    loops = loops_of(fn)
    if len(loops) != 1 or loops[0]["kind"] != "DoStmt":
        raise Undecided("cmdreturn: expected exactly the stack-search loop")
    stack_search_iteration(r, q, 0, "gosubloop", [], twin=twin)
    snaps = {}
    f, ex, fin, info = run_fn(q, mkctx(), loop=snap_and_havoc(snaps))
    for s in alive_lib(snaps.get(0, [])):
        ok(r, "entry.stack_search_starts_from_the_current_stack_without_other_effects", not any(writes(s, k) for k in list(s.heap)) and not s.events, "", kind="establishment")
    n = 0
    for s in alive_lib(fin, ("run", "ret")):
        if not any(e.name == "loop_exit" for e in s.events):
            continue
        n += 1
        top = Fb(ex, s, "loopbase", "P", THIS)
        post = after(s)
        sk = [e for e in post if e.name.endswith("skiptoeos")]
        fr = [e for e in post if e.name.endswith("PHRQ_free")]
        ok(r, "resumes_on_the_line_of_the_GOSUB", F(ex, s, "stmtline", "P", THIS) is Fb(ex, s, "homeline", "P", top), repr(F(ex, s, "stmtline", "P", THIS)))
        ok(r, "resumes_at_the_end_of_the_GOSUB_statement", len(sk) == 1 and sk[0].args[1] is Fb(ex, s, "hometok", "P", top) and F(ex, s, "t", "P", LINK0) is sk[0].result, "%s" % [e.args for e in sk])
        ok(r, "GOSUB_record_dropped_and_released", F(ex, s, "loopbase", "P", THIS) is Fb(ex, s, "next", "P", top) and len(fr) == 1 and fr[0].args[0] is top, repr(F(ex, s, "loopbase", "P", THIS)))
    reach(r, "reach.cmdreturn", n)
    r.assumptions += ["library build (phreeqci_gui false)", "errormsg does not return (unit C17.errormsg)", "skiptoeos: unit C17.skiptoeos",
                      "the search loop is summarised behind it by its exit condition; its body carries the search.* obligations"]
    return r


def _on_runs(twin=False):
    q = "PBasic::cmdon"
    fn = A.find_function(PB, q)
    loops = loops_of(fn)
    if len(loops) != 1 or loops[0]["kind"] != "WhileStmt":
        raise Undecided("cmdon: expected exactly the list-skipping loop")
    snaps = {}
    # the list loop writes only the token position (obligation list_entry_passed_over.writes_only_the_token_position): everything else,
    # in particular the loop stack, is carried across it unchanged
    f, ex, fin, info = run_fn(q, mkctx(), loop=summarize([("f", "t", "P")], snaps))
    return q, fn, loops, snaps, ex, fin, info


def _on_head(s):
    """(selector event, token behind the selector, 'goto' | 'gosub') of a path: GOTO form when the GOTO keyword was required there"""
    ie = evs(s, "intexpr")
    if len(ie) != 1:
        return None
    tg = ie[0].snap
    rq = [e for e in evs(s, "require") if e.args[2] is tg]
    form = "goto" if rq and prove(hyp(s), tm.eq(rq[0].args[0], tk("tokgoto"))) else "gosub"
    return ie[0], tg, form


def _skip(s):
    return any(e.name.endswith("malloc_error") for e in s.events)


def unit_cmdon_goto(twin=False):
    """ON e GOTO|GOSUB n1, n2, ...: e (rounded) = i, evaluated once; the keyword GOTO or GOSUB follows.  i < 1: no jump, execution continues
    behind the statement.  Otherwise the first i-1 entries of the list (a number, then a comma unless the list ends) are passed over and the
    jump goes to the i-th entry; a list with fewer than i entries: no jump, execution continues behind the statement."""
    q, fn, loops, snaps, ex, fin, info = _on_runs()
    r = U.new_unit("C17.cmdon.GOTO_selects_the_ith_line_number", PB, q, fn)
    cur = {d: nm for d, (nm, qt) in locals_assigned_in(ex, loops[0]).items()}
    if len(cur) != 1:
        raise Undecided("cmdon: expected one counter assigned in the loop")
    cid = list(cur)[0]
    n_head = {"goto": 0, "gosub": 0}
    for s in alive(snaps.get(0, [])):
        hd = _on_head(s)
        if _skip(s):
            continue
        if not ok(r, "selector_evaluated_once_at_the_position_behind_ON", hd is not None and hd[0].args[-1] is F0("t", "P", LINK0), ""):
            continue
        ie, tg, form = hd
        n_head[form] += 1
        want = tk("tokgoto") if form == "goto" else tk("tokgosub")
        pv(r, "keyword_behind_the_selector_is_GOTO_or_GOSUB", s, tm.and_(tm.not_(tm.eq(tg, NULLP)), tm.eq(F0("kind", "I", tg), want)))
        pv(r, "list.starts_behind_the_keyword", s, tm.eq(F(ex, s, "t", "P", LINK0), F0("next", "P", tg)), kind="establishment")
        ok(r, "list.counting_starts_with_the_selector_value", s.locals.get(cid) is ie.result, repr(s.locals.get(cid)), kind="establishment")
        U.discharge_valid(r, "list.reached_only_with_selector>=1", hyp(s), tm.le(tm.num(1, "I"), ie.result))
    # selector < 1
    n_low = 0
    for s in alive(fin, ("run", "ret")):
        if any(e.name == "loop_exit" for e in s.events) or _skip(s):
            continue
        n_low += 1
        hd = _on_head(s)
        sk = evs(s, "skiptoeos")
        if hd is None:
            ok(r, "selector<1.selector_evaluated_once", False, ""); continue
        U.discharge_valid(r, "selector<1.no_jump_only_when_selector<1", hyp(s), tm.lt(hd[0].result, tm.num(1, "I") if not twin else tm.num(0, "I")))
        ok(r, "selector<1.continues_behind_the_statement_without_a_jump", len(sk) == 1 and F(ex, s, "t", "P", LINK0) is sk[0].result and not evs(s, "cmdgoto") and not writes(s, ("f", "stmtline", "P")), "")
    # one list entry passed over
    f2, ex2, its, info2 = run_iter(q, 0, mkctx())
    n_it = 0
    for s in alive(its, ("run", "cont")):
        n_it += 1
        link = tm.sym("L_LINK", "P")
        t0 = tm.select(entry_arr(ex2, s, ("f", "t", "P")), link)
        kind = lambda t: tm.select(entry_arr(ex2, s, ("f", "kind", "I")), t)
        nxt = lambda t: tm.select(entry_arr(ex2, s, ("f", "next", "P")), t)
        hy = hyp(s)
        i0 = tm.sym("iter_%s" % cur[cid], "I")
        U.discharge_valid(r, "entry_passed_over.only_while_more_than_one_remains_to_count(i>1)_and_the_list_goes_on", hy, tm.and_(tm.lt(tm.num(1, "I"), i0), tm.not_(eos_of(kind, t0))))
        U.discharge_valid(r, "entry_passed_over.is_a_number", hy, tm.eq(kind(t0), tk("toknum")))
        t1 = nxt(t0)
        after_entry = tm.ite(eos_of(kind, t1), t1, nxt(t1))
        U.discharge_valid(r, "entry_passed_over.position_moves_behind_the_number_and_its_comma", hy, tm.eq(F(ex2, s, "t", "P", link), after_entry))
        U.discharge_valid(r, "entry_passed_over.separator_is_a_comma", hy, tm.or_(eos_of(kind, t1), tm.eq(kind(t1), tk("tokcomma"))))
        U.discharge_valid(r, "entry_passed_over.count_decreases_by_one", hy, tm.eq(s.locals[cid], i0 - 1))
        ok(r, "list_entry_passed_over.writes_only_the_token_position", sorted(set(k for k, _, _ in U.iter_writes(s))) in ([], [("f", "t", "P")]), "%s" % sorted(set(k for k, _, _ in U.iter_writes(s))), kind="frame")
    # behind the list
    n_j = n_f = 0
    for s in alive(fin, ("run", "ret")):
        if not any(e.name == "loop_exit" for e in s.events) or _skip(s):
            continue
        post = after(s)
        gt = [e for e in post if e.name.endswith("cmdgoto")]
        t1 = Fb(ex, s, "t", "P", LINK0)
        hy = hyp(s)
        if gt:
            n_j += 1
            U.discharge_valid(r, "jump.only_at_a_list_entry(not_at_the_end_of_the_statement)", hy, tm.not_(is_eos_at_base(ex, s, t1)))
            ok(r, "jump.one_GOTO_at_the_position_reached_in_the_list", len(gt) == 1 and gt[0].args[0] is LINK0 and gt[0].args[-1] is t1 and F(ex, s, "stmtline", "P", THIS) is gt[0].snap, "")
        else:
            n_f += 1
            U.discharge_valid(r, "list_exhausted.no_jump_only_at_the_end_of_the_statement", hy, is_eos_at_base(ex, s, t1))
            ok(r, "list_exhausted.position_and_line_stay", not writes(s, ("f", "t", "P")) and not writes(s, ("f", "stmtline", "P")), "", kind="frame")
        U.discharge_valid(r, "behind_the_list.reached_with_count<=1_or_list_exhausted", hy, tm.or_(tm.le(s.locals[cid], tm.num(1, "I")), is_eos_at_base(ex, s, t1)))
    reach(r, "reach.cmdon(GOTO_head,GOSUB_head,selector<1,entry,jump,exhausted)", min(n_head["goto"], n_head["gosub"], n_low, n_it, n_j, n_f))
    r.assumptions += ["intexpr returns an arbitrary integer and moves the position", "require(k): unit C17.require", "iseos: unit C17.iseos", "cmdgoto: unit C17.cmdgoto (called, not inlined)",
                      "the list loop is summarised behind it by its frame (token position only) and exit condition; its body carries the entry_passed_over.* obligations", "line numbers in the list are number tokens (not expressions)",
                      "a record from PHRQ_calloc is distinct from every existing object"]
    return r


def eos_of(kind, t):
    return tm.or_(tm.eq(t, NULLP), tm.eq(kind(t), tk("tokelse")), tm.eq(kind(t), tk("tokcolon")))


def unit_cmdon_gosub(twin=False):
    """ON e GOSUB / GOTO: when the statement is left, a new return record {kind gosubloop, line of the ON statement, position of its GOSUB
    keyword (so that RETURN continues behind the ON statement), previous top} is on top of the loop stack IF AND ONLY IF the form is GOSUB and
    a jump was made; in every other case (GOTO form; selector < 1; list exhausted) the loop stack is exactly as before."""
    q, fn, loops, snaps, ex, fin, info = _on_runs()
    r = U.new_unit("C17.cmdon.GOSUB_pushes_a_return_record_exactly_when_it_jumps", PB, q, fn)
    GS = tm.num(define("gosubloop"), "I")
    lb0, sl0 = F0("loopbase", "P", THIS), F0("stmtline", "P", THIS)
    n = {"gosub_jump": 0, "gosub_low": 0, "gosub_exhausted": 0, "goto_jump": 0, "goto_nojump": 0}
    for s in alive(fin, ("run", "ret")):
        if _skip(s):
            continue
        hd = _on_head(s)
        if hd is None:
            continue
        ie, tg, form = hd
        jumped = bool(evs(s, "cmdgoto"))
        looped = any(e.name == "loop_exit" for e in s.events)
        top = F(ex, s, "loopbase", "P", THIS)
        if form == "gosub" and jumped:
            n["gosub_jump"] += 1
            l = _new_record(s)
            if not ok(r, "GOSUB_jump.one_new_record_is_the_top_of_the_loop_stack", l is not None and top is l, repr(top)):
                continue
            pv(r, "GOSUB_jump.record.kind==gosubloop", s, tm.eq(F(ex, s, "kind", "I", l), GS if not twin else tm.num(define("forloop"), "I")))
            pv(r, "GOSUB_jump.record.next==previous_top", s, tm.eq(F(ex, s, "next", "P", l), lb0))
            pv(r, "GOSUB_jump.record.homeline==line_of_the_ON_statement", s, tm.eq(F(ex, s, "homeline", "P", l), sl0))
            pv(r, "GOSUB_jump.record.hometok==the_GOSUB_keyword_of_the_ON_statement", s, tm.eq(F(ex, s, "hometok", "P", l), tg))
        else:
            key = "goto_jump" if form == "goto" and jumped else "goto_nojump" if form == "goto" else "gosub_exhausted" if looped else "gosub_low"
            n[key] += 1
            why = {"goto_jump": "GOTO_form", "goto_nojump": "GOTO_form", "gosub_exhausted": "GOSUB_list_exhausted(no_jump)", "gosub_low": "GOSUB_selector<1(no_jump)"}[key]
            pv(r, "%s.loop_stack_exactly_as_before(no_return_record)" % why, s, tm.eq(top, lb0))
    reach(r, "reach.ON(GOSUB_jump,GOSUB_selector<1,GOSUB_exhausted,GOTO_jump,GOTO_no_jump)", min(n.values()))
    r.assumptions += ["same as C17.cmdon.GOTO_selects_the_ith_line_number (selection, frame of the list loop)", "a record from PHRQ_calloc is distinct from every existing object", "PHRQ_calloc failure path not under contract"]
    return r
