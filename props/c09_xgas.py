"""C09, "switching sinks on or off never changes computed results": what xgas_save stores is derived from the model, not from values that only the
report writers (print_gas_phase / punch_gas_phase) put into the working gas phase:
  * fixed-pressure gas phase with a gas unknown holding at least 1e-12 mol: the saved record gets total_moles = moles of the gas unknown and
    volume = V_m * moles (Peng-Robinson, V_m >= 0.01) or moles * R * T / P (ideal), set on the copy that is stored;
  * every component: moles = moles_x of its phase, p = p_soln_x when the phase is in the model and 0 when it is not, f = p * phi.
This unit backs the exception of C09.frame.print_gas_phase for Set_total_moles / Set_volume / p_soln_x (the writer may repeat these values)."""
from props.common import *
from vf.core import FAILED, DISCHARGED, UNDECIDED

MS = "src/phreeqcpp/mainsubs.cpp"


def unit_xgas_save(twin=False):
    q = "Phreeqc::xgas_save"
    c = ctx(functional=("Get_type", "Get_v_m", "Get_total_p", "phase_bsearch"))
    fn, ex, fin, info = U.run_function(MS, q, ctx=c, default="iter")
    r = U.new_unit("C09.xgas_save.saved_amounts_volume_and_pressures_come_from_the_model_not_from_the_printed_record", MS, q, fn)
    nm = lambda e: e.name.split("::")[-1]
    GU = tm.select(tm.sym("H0.gas_unknown:P", ("A", "P", "P")), THIS)
    MOL = tm.select(tm.sym("H0.moles:R", ("A", "P", "R")), GU)
    n_set = n_not = 0
    for s in fin:
        if s.status != "ret":
            continue
        gp = [e for e in s.events if nm(e) == "Get_type"]
        tmo = [e for e in s.events if nm(e) == "Set_total_moles"]
        vol = [e for e in s.events if nm(e) == "Set_volume"]
        stored = [e for e in s.events if "operator[]" in nm(e) or nm(e) == "operator="]
        if not gp:
            continue                                         # no gas phase in use: nothing saved
        is_p = tm.eq(gp[0].result, tm.sym("E.GP_PRESSURE", "I"))
        has = tm.and_(is_p, tm.not_(tm.eq(GU, tm.NULL)), tm.le(tm.num("1e-12", "R") if hasattr(tm, "Q") else tm.num(1e-12, "R"), MOL))
        for hy, yes in cases(list(s.pc), has if not twin else tm.not_(has)):
            if yes:
                n_set += 1
                ok = len(tmo) == 1 and len(vol) == 1 and tmo[0].recv is vol[0].recv and "temp_gas_phase" in repr(tmo[0].recv)
                r.add("fixed_pressure.total_moles_and_volume_set_once_on_the_copy_that_is_stored#%d" % n_set, DISCHARGED if ok else FAILED, "trace", 0, repr([e.recv for e in tmo + vol])[:160])
                if ok:
                    U.discharge_eq_real(r, "fixed_pressure.total_moles==moles_of_the_gas_unknown#%d" % n_set, hy, tmo[0].args[0], MOL)
                    vm = [e for e in s.events if nm(e) == "Get_v_m"]
                    tp = [e for e in s.events if nm(e) == "Get_total_p"]
                    TK = fld0(ex, s, "tk_x", "R")
                    for h2, pr in cases(hy, tm.le(tm.num("0.01", "R"), vm[0].result) if vm else tm.FALSE):
                        if pr:
                            U.discharge_eq_real(r, "fixed_pressure.PR.volume==V_m*moles#%d" % n_set, h2, vol[0].args[0], vm[0].result * MOL)
                        elif tp:
                            from fractions import Fraction
                            Rg = tm.num(Fraction(820597, 10000000), "R")       # gas constant, 0.0820597 L atm / (mol K)
                            want = MOL * Rg * TK / tp[0].result
                            U.discharge_eq_real(r, "fixed_pressure.ideal.volume==moles*R*T/P#%d" % n_set, h2, vol[0].args[0], want)
            else:
                n_not += 1
                r.add("otherwise.total_moles_and_volume_left_as_they_are#%d" % n_not, DISCHARGED if not tmo and not vol else FAILED, "trace", 0, "")
    # one arbitrary component
    n_c = 0
    for o, sts in info["iter"].items():
        for s in sts:
            if s.status not in ("run", "cont"):
                continue
            ev = {k: [e for e in U.iter_events(s) if nm(e) == k] for k in ("Set_moles", "Set_p", "Set_f", "Set_phi", "phase_bsearch")}
            if not ev["phase_bsearch"] or len(ev["Set_p"]) != 1:
                continue
            n_c += 1
            ph = ev["phase_bsearch"][0].result
            p_x = tm.select(ex.heap_arr(s, ("f", "p_soln_x", "R")), ph)
            in_ = tm.select(ex.heap_arr(s, ("f", "in", "I")), ph)
            mx = tm.select(ex.heap_arr(s, ("f", "moles_x", "R")), ph)
            for hy, inm in cases(list(s.pc), tm.eq(in_, tm.num(1, "I"))):
                U.discharge_eq_real(r, "component.p==%s#%d" % ("p_soln_x" if inm else "0(not_in_the_model)", n_c), hy, ev["Set_p"][0].args[0], p_x if inm else tm.num(0, "R"))
            if ev["Set_moles"]:
                U.discharge_eq_real(r, "component.moles==moles_x#%d" % n_c, list(s.pc), ev["Set_moles"][0].args[0], mx)
    r.add("reach.fixed_pressure_set_and_not_set_and_a_component", DISCHARGED if n_set >= 1 and n_not >= 1 and n_c >= 1 else UNDECIDED, "symex", 0, "%d/%d/%d" % (n_set, n_not, n_c), kind="vacuity")
    r.assumptions += ["doubles as reals", "Get_type / Get_v_m / Get_total_p are pure reads of the gas phase in use", "tk_x, gas_unknown->moles, phase->moles_x / p_soln_x / in are model state set by the solver (C19 units)",
                      "the copy temp_gas_phase is what is stored under n_user (Rxn_gas_phase_map[n_user] = temp_gas_phase)"]
    return r


UNITS = [("C09.xgas_save.saved_amounts_volume_and_pressures_come_from_the_model_not_from_the_printed_record", unit_xgas_save)]
